#!/bin/bash
# tools/rf_eval.sh <id> <worktree> : behaviour-preserving refactoring twin written by a sub-agent.
# Saves the patch under /verif/refactors/<id>/, applies it to /repo, runs all quick checks, undoes it.
ID=$1; WT=$2
OUT=/verif/refactors/$ID
mkdir -p $OUT
( cd $WT && git add -A -- circus && git diff --cached -- circus > $OUT/patch.diff; git reset -q )
echo "refactor $ID: $(cd $WT && git diff --stat -- circus | tail -1)"
cd /repo && git apply $OUT/patch.diff || { echo "PATCH DOES NOT APPLY"; exit 3; }
cd /verif
DET=""
for p in C01 C02 C03 C04 C05 C06 C07 C08 C09 C10 C11 C12 C13 C14 C15 C16 C17 C18 C19 C20; do
  ./check $p --no-write > /tmp/rf_$p.log 2>&1; rc=$?
  if [ $rc -ne 0 ]; then DET="$DET $p(rc=$rc)"; echo "== $p rc=$rc"; grep -v conda /tmp/rf_$p.log | grep "^  R\|ANALYSIS" | cut -c1-330; fi
done
cd /repo && git apply -R $OUT/patch.diff && git checkout -- . && cd /verif
echo "checks alarming on refactor $ID:$DET"
