#!/bin/bash
# Re-run the pinned test suite on a scratch worktree with each seeded patch applied.
# Appends to /verif/seeded/TESTS.md.  Sequential (the tests bind ports).
OUT=/verif/seeded/TESTS.md
[ -f $OUT ] || echo "# Test-suite runs with each seeded change applied (baseline: 271 stable tests; tests.test_process.TestProcess::test_streams always fails, tests.test_watcher.TestWatcher::test_max_age is flaky)" > $OUT
for d in /verif/seeded/*/; do
  id=$(basename $d)
  grep -q "^- $id:" $OUT && continue
  WT=/tmp/seedtest_$id
  git -C /repo worktree add --detach $WT HEAD >/dev/null 2>&1
  ( cd $WT && git apply $d/patch.diff ) || { echo "- $id: PATCH DOES NOT APPLY" >> $OUT; git -C /repo worktree remove --force $WT; continue; }
  ( cd $WT && PYTHONPATH=$WT timeout 1500 /venv/bin/python -m pytest -q -p no:cacheprovider -p no:hypothesispytest --timeout=900 --deselect tests/test_process.py::TestProcess::test_streams > /tmp/seedtest_$id.log 2>&1 )
  res=$(grep -E "passed|failed" /tmp/seedtest_$id.log | tail -1)
  fails=$(grep -E "^FAILED" /tmp/seedtest_$id.log | tr '\n' ' ')
  echo "- $id: $res $fails" >> $OUT
  git -C /repo worktree remove --force $WT
  rm -f /tmp/seedtest_$id.log
done
echo done >> /tmp/seed_tests.done
