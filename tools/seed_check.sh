#!/bin/bash
# tools/seed_check.sh <seed-id> <PROP> : apply seeded patch, run target check, undo
cd /repo && git apply /verif/seeded/$1/patch.diff || { echo "$1: PATCH FAILS"; exit; }
cd /verif; ./check $2 --no-write > /tmp/sc_$1.log 2>&1; rc=$?
cd /repo && git apply -R /verif/seeded/$1/patch.diff; git checkout -- . ; cd /verif
echo "$1 $2 rc=$rc :: $(grep '^  R\|ANALYSIS' /tmp/sc_$1.log | head -3 | cut -c1-170 | tr '\n' '|')"
