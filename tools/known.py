#!/venv/bin/python
"""tools/known.py PROP  -> list new-violation keys from evidence/replay/PROP.json
   tools/known.py PROP ID KEY-SUBSTRING "what"  -> add the matching key to known_findings.json"""
import json, sys, os
V = os.path.dirname(os.path.dirname(os.path.abspath(__file__)))
prop = sys.argv[1]
d = json.load(open(os.path.join(V, 'evidence/replay/%s.json' % prop)))
if len(sys.argv) == 2:
    for v in d['violations']:
        print(v['key'])
    sys.exit(0)
fid, sub, what = sys.argv[2:5]
keys = [v['key'] for v in d['violations'] if sub in v['key']]
assert len(set(keys)) == 1, keys
k = json.load(open(os.path.join(V, 'known_findings.json')))
k['known'].append({'property': prop, 'id': fid, 'key': keys[0], 'what': what})
json.dump(k, open(os.path.join(V, 'known_findings.json'), 'w'), indent=1)
print('added', keys[0])
