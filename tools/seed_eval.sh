#!/bin/bash
# tools/seed_eval.sh <seed-id> <worktree> <property>
#  1. saves the worktree's uncommitted change as /verif/seeded/<id>/patch.diff (+ demo)
#  2. confirms the demonstration: exit 1 with the change, exit 0 without it
#  3. applies the patch to /repo, runs every quick check (no evidence written), undoes it
# Output: a summary on stdout and /verif/seeded/<id>/eval.txt
set -u
ID=$1; WT=$2; PROP=$3
OUT=/verif/seeded/$ID
mkdir -p $OUT
cd $WT || exit 2
git add -A -- circus; git diff --cached -- circus > $OUT/patch.diff; git reset -q
DEMO=$(ls demo_*.py 2>/dev/null | head -1)
[ -n "$DEMO" ] && cp $DEMO $OUT/
{
echo "seed $ID property $PROP worktree $WT"
echo "--- patch stat"; git diff --stat | cat
if [ -n "$DEMO" ]; then
  PYTHONPATH=$WT timeout 120 /venv/bin/python $DEMO > $OUT/demo_with.log 2>&1; W=$?
  cp $OUT/patch.diff /tmp/seed_eval.patch; git apply -R /tmp/seed_eval.patch
  PYTHONPATH=$WT timeout 120 /venv/bin/python $DEMO > $OUT/demo_without.log 2>&1; WO=$?
  git apply /tmp/seed_eval.patch
  echo "demo with change: exit $W ; without change: exit $WO"
fi
echo "--- checks on /repo with the patch applied"
cd /repo && git apply $OUT/patch.diff || { echo "PATCH DOES NOT APPLY"; exit 3; }
cd /verif
DET=""
for p in C01 C02 C03 C04 C05 C06 C07 C08 C09 C10 C11 C12 C13 C14 C15 C16 C17 C18 C19 C20; do
  ./check $p --no-write > $OUT/check_$p.log 2>&1; rc=$?
  if [ $rc -ne 0 ]; then DET="$DET $p(rc=$rc)"; fi
done
cd /repo && git apply -R $OUT/patch.diff; git checkout -- . ; cd /verif
echo "checks raising an alarm:$DET"
echo "--- report of the target property $PROP"
grep -v conda $OUT/check_$PROP.log | cut -c1-300 | head -20
} 2>&1 | tee $OUT/eval.txt
git -C /repo status --short | grep -v venv | head -3
