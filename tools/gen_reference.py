#!/venv/bin/python
"""Freeze the names of the functions and module/class-level constants of the pinned
tree into sa/reference_symbols.json.  The normaliser treats every *other* private
helper / literal constant as new: it is inlined / propagated before the rules run.
Re-run only when the reference tree changes."""
import ast, json, sys
sys.path.insert(0, '/verif')
from sa.project import Project
from sa.normalize import REF_TABLE
p = Project(sys.argv[1] if len(sys.argv) > 1 else '/repo', canonical=False, normalise=False)
funcs = sorted(p.functions)
consts = []
for name, m in sorted(p.modules.items()):
    for s in ast.walk(m.tree):
        if isinstance(s, ast.ClassDef):
            for b in s.body:
                if isinstance(b, ast.Assign):
                    for t in b.targets:
                        if isinstance(t, ast.Name):
                            consts.append('%s:%s.%s' % (name, s.name, t.id))
    for s in m.tree.body:
        stmts = [s]
        if isinstance(s, (ast.If, ast.Try)):
            stmts = [x for x in ast.walk(s) if isinstance(x, ast.Assign)]
        for a in stmts:
            if isinstance(a, ast.Assign):
                for t in a.targets:
                    if isinstance(t, ast.Name):
                        consts.append('%s:%s' % (name, t.id))
# fingerprints of the canonical bodies (to recognise a renamed function)
from sa.normalize import function_fingerprint, _signature, normalise_trees
pn = Project(sys.argv[1] if len(sys.argv) > 1 else '/repo', canonical=False, normalise=False)
normalise_trees({n: m.tree for n, m in pn.modules.items()}, reference={'constants': sorted(set(consts)), 'functions': funcs}, inline=False)
fps = {}
for name, m in sorted(pn.modules.items()):
    scopes = [(None, m.tree.body)] + [(s.name, s.body) for s in m.tree.body if isinstance(s, ast.ClassDef)]
    for cls, body in scopes:
        for b in body:
            if isinstance(b, (ast.FunctionDef, ast.AsyncFunctionDef)):
                key = '%s:%s%s' % (name, (cls + '.') if cls else '', b.name)
                fps[key] = {'fp': function_fingerprint(b), 'fpa': function_fingerprint(b, True), 'sig': list(_signature(b))}
                # nested functions (a refactoring may lift them to module level)
                def nested(node, prefix):
                    for x in ast.iter_child_nodes(node):
                        if isinstance(x, (ast.FunctionDef, ast.AsyncFunctionDef)):
                            k2 = '%s.%s' % (prefix, x.name)
                            fps[k2] = {'fp': function_fingerprint(x), 'fpa': function_fingerprint(x, True), 'sig': list(_signature(x))}
                            nested(x, k2)
                        elif not isinstance(x, (ast.ClassDef, ast.Lambda)):
                            nested(x, prefix)
                nested(b, key)
json.dump({'functions': funcs, 'constants': sorted(set(consts)), 'fingerprints': fps}, open(REF_TABLE, 'w'), indent=0)
print(len(funcs), 'functions', len(set(consts)), 'constants')
