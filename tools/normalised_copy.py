#!/venv/bin/python
"""tools/normalised_copy.py SRC_REPO DST : write the canonical form (sa/normalize.py) of
SRC_REPO/circus over a copy DST (a git worktree or a plain copy of the repo), so that the
repository's own test-suite can be run on it: the normal form must behave like the source.
Validation aid for the normaliser only; no check depends on it."""
import ast, os, sys
sys.path.insert(0, '/verif')
from sa.project import Project
src, dst = sys.argv[1], sys.argv[2]
p = Project(src, canonical='--canonical' in sys.argv, normalise=True)
for name, m in p.modules.items():
    out = ast.unparse(m.tree) + '\n'
    compile(out, m.relpath, 'exec')
    with open(os.path.join(dst, m.relpath), 'w') as f:
        f.write(out)
import json
print(json.dumps(p.normal_form, indent=1)[:3000])
