#!/venv/bin/python
"""Global benign twin: rename every local variable of every function (suffix _r),
rewrite every file through ast.unparse; run all checks on it; they must stay silent."""
import ast, os, shutil, subprocess, sys
DST = sys.argv[1] if len(sys.argv) > 1 else '/tmp/twin_rename'
shutil.rmtree(DST, ignore_errors=True)
os.makedirs(DST)
shutil.copytree('/repo/circus', DST + '/circus', ignore=shutil.ignore_patterns('__pycache__'))
os.makedirs(DST + '/docs')
shutil.copytree('/repo/docs/source', DST + '/docs/source')


class Ren(ast.NodeTransformer):
    def visit_FunctionDef(self, node):
        a = node.args
        params = {x.arg for x in a.args + a.kwonlyargs + a.posonlyargs}
        if a.vararg: params.add(a.vararg.arg)
        if a.kwarg: params.add(a.kwarg.arg)
        stores, glob, nested = set(), set(), set()
        for n in ast.walk(node):
            if isinstance(n, (ast.Global, ast.Nonlocal)): glob |= set(n.names)
            if isinstance(n, ast.Name) and isinstance(n.ctx, (ast.Store, ast.Del)): stores.add(n.id)
            if isinstance(n, (ast.FunctionDef, ast.Lambda)) and n is not node:
                nested |= {x.arg for x in n.args.args}
        ren = {s for s in stores if s not in params | glob | nested and not s.startswith('__')}
        for n in ast.walk(node):
            if isinstance(n, ast.Name) and n.id in ren: n.id += '_r'
        return node


for dp, dn, fn in os.walk(DST + '/circus'):
    for f in fn:
        if f.endswith('.py'):
            p = os.path.join(dp, f)
            t = Ren().visit(ast.parse(open(p).read()))
            ast.fix_missing_locations(t)
            out = ast.unparse(t) + '\n'
            compile(out, p, 'exec')
            open(p, 'w').write(out)
bad = 0
for i in range(1, 21):
    pid = 'C%02d' % i
    r = subprocess.run(['/verif/check', pid, '--repo', DST, '--no-write'], capture_output=True, text=True)
    lines = [l for l in r.stdout.splitlines() if l.startswith('  R') or 'ANALYSIS' in l]
    if r.returncode != 0:
        bad += 1
        print('==', pid, 'rc', r.returncode)
        for l in lines: print(l[:400])
print('checks alarming on the rename twin:', bad)
