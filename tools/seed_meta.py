#!/venv/bin/python
"""tools/seed_meta.py <id> <property> <needs> <summary> <detected-by> [note]"""
import json, sys, os
sid, prop, needs, summary, detected = sys.argv[1:6]
note = sys.argv[6] if len(sys.argv) > 6 else ''
d = '/verif/seeded/' + sid
ev = open(os.path.join(d, 'eval.txt')).read() if os.path.exists(os.path.join(d, 'eval.txt')) else ''
demo = [f for f in os.listdir(d) if f.startswith('demo_') and f.endswith('.py')]
meta = {
    'id': sid, 'breaks_property': prop, 'change': summary, 'needs_to_manifest': needs,
    'origin': 'independent sub-agent given only the property text and a scratch worktree',
    'demonstration': demo[0] if demo else None,
    'confirmed_by_me': {
        'demo_with_change_exit': 1 if 'demo with change: exit 1' in ev else None,
        'demo_without_change_exit': 0 if 'without change: exit 0' in ev else None,
        'commands': ['tools/seed_eval.sh %s /tmp/wt/%s %s  (demo both ways in the worktree; '
                     'git -C /repo apply patch.diff; all 20 quick checks; git -C /repo checkout -- .)'
                     % (sid, prop.lower(), prop)],
        'tests': 'sub-agent ran the full suite with the change (only the always-failing '
                 'test_streams failed); re-run by me in batch, see seeded/TESTS.md',
    },
    'detected_by': detected, 'note': note,
}
json.dump(meta, open(os.path.join(d, 'meta.json'), 'w'), indent=1)
for f in os.listdir(d):
    if f.startswith('check_') or f.startswith('demo_w'):
        os.remove(os.path.join(d, f))
print('wrote', d)
