#!/venv/bin/python
"""Regenerate /verif/MANIFEST.json from the rule modules present."""
import importlib
import json
import os
import sys

HERE = os.path.dirname(os.path.abspath(__file__))
VERIF = os.path.dirname(HERE)
sys.path.insert(0, VERIF)
sys.dont_write_bytecode = True

BASELINE = json.load(open('/root/.vp/BASELINE.json'))['cmd'].replace(
    '--junitxml=<file>', '--junitxml=/tmp/circus_baseline.junit.xml')

sys.path.insert(0, HERE)
from gen_rule_index import rules_of  # noqa: E402
import re  # noqa: E402


def level_text(pid, explanation):
    """The module's explanation, plus every rule declared in the module that the
    explanation does not name yet (rules added after a missed seeded change)."""
    later = ['%s %s' % (rid, doc.split(' (shared with')[0].split(': ')[0].replace('(shared) ', ''))
             for rid, doc in rules_of(pid).items()
             if not re.search(r'\b%s\b' % rid, explanation)]
    if not later:
        return explanation
    return explanation.rstrip() + ' Rules added since (index in DESIGN.md section 13): ' + \
        '; '.join(later) + '.'


props = [json.loads(l) for l in open(os.path.join(VERIF, 'properties.jsonl'))]
checks = []
na = []
for p in props:
    pid = p['id']
    try:
        mod = importlib.import_module('rules.%s' % pid.lower())
    except ImportError:
        na.append({'property_id': pid,
                   'reason': 'static rules for this property are not built yet '
                             '(planned in DESIGN.md section 3)'})
        continue
    if getattr(mod, 'NOT_APPLICABLE', None):
        na.append({'property_id': pid, 'reason': mod.NOT_APPLICABLE})
        continue
    checks.append({
        'property_id': pid,
        'quick_cmd': './check %s --tier quick' % pid,
        'thorough_cmd': './check %s --tier thorough' % pid,
        'evidence_file': 'evidence/%s.json' % pid,
        'replay_cmd_template': 'cat {path}',
        'engine': 'circus-sa',
        'level_claimed': {
            'category': 'other',
            'text': level_text(pid, mod.EXPLANATION),
            'design_ref': 'DESIGN.md section 3, %s' % pid,
        },
        'level_note': 'Static analysis of the parsed source only (no execution). '
                      'Trusted base: the CFG/call-graph engine in /verif/sa, the frozen '
                      'receiver-type table (sa/calls.py), posix platform pruning. '
                      + ' '.join(getattr(mod, 'ASSUMPTIONS', [])),
        'technique': getattr(mod, 'TECHNIQUE', None) or '<<%s>>' % pid,
    })


COMMON = ('static analysis on the canonical form of the parsed source (sa/normalize.py): ')
TECH = {
 'C01': 'CFG must-pass-through/dominance for count reconciliation, affine normal form of the deficit arithmetic, guard ordering abstraction of the respawn/retry tests, call-graph who-may-write check on numprocesses/processes',
 'C02': 'typestate of the watcher status over CFG paths with must-summaries across resolved calls (stopped only after kill+reap), guard-assumption reachability (reach_under), who-may-restart call-graph check',
 'C03': 'path ordering on the CFG of kill_process (stop signal dominates SIGKILL), ordering abstraction of the grace-period loop guard with affine counter variant, children-before-parent ordering in send_signal_process',
 'C04': 'pairing rule on the process table (register/remove) over CFG paths incl. exception edges, lexical raise-escape summaries, transient-status must-summaries with vacuous edges, reap sweep completeness',
 'C05': 'who-may-call check of blocking primitives over the resolved call graph from event-loop entry points, loop bound/variant detection, reply-count dataflow shared with C06',
 'C06': 'reply-count forward dataflow over the CFG of dispatch/handle_message (exactly one logical reply), case split on the send_resp flag through reaching definitions, error-discipline check on handlers, id propagation by expansion',
 'C07': 'who-may-call (bind/listen/close only from the socket lifecycle) over the call graph, snapshot/alias check of the socket fd table by reaching definitions, set algebra (with comprehension filters) of the socket names reloadconfig disposes of',
 'C08': 'must-pass-through on shutdown paths, decorator-order check, path-result analysis of Pidfile.validate (value vs None ends per handler and errno branch), signal table agreement',
 'C09': 'event/table pairing on CFG paths (spawn/reap/kill events dominate or are dominated by table updates), decoded exit-status guard tabulation, producer/consumer vocabulary agreement',
 'C10': 'lock typestate of the exclusive-command slot: acquire/release pairing on all exits incl. exception edges and callbacks, who-may-mutate call-graph check against @synchronized',
 'C11': 'validate-before-apply ordering over the call graph, totality table of conversions vs validated types, raise-escape summaries of the apply phase, guard-assumption reachability of the unknown-key gate and of the refusals in validate',
 'C12': 'guard-assumption reachability on reload_from_config (replace iff diff beyond numprocesses), baseline update must-pass-through, copy-vs-alias check of remembered configurations, set algebra of the watcher name sets evaluated per element class',
 'C13': 'reaching-definition expansion of the returned argv with a shape grammar and per-shape path feasibility, regex structure of the substitution pattern (re._parser), keyword plumbing agreement Watcher -> Process -> Popen',
 'C14': 'guard tabulation of call_hook outcomes (eval of the pure outcome table), hook-result-used dataflow at each gate, documentation/code hook-name agreement, alias check of the ignore list',
 'C15': 'who-may-write check on watchers/_watchers_names, pairing of the two directories on all paths, case-normalisation agreement between writers and readers',
 'C16': 'documentation/parser/constructor default-table agreement, outcome table of dget by expansion + feasibility, layered-mapping forward dataflow (sa/layers.py) for environment precedence, first-definition guard in the parser',
 'C17': 'label flow from registration to handler (structural agreement), attach-once guard, EOF/typestate of descriptors on CFG paths',
 'C18': 'receiver provenance by reaching-definition expansion (only table entries are signalled), request-form/sender selection by guard-assumption reachability, regex anchoring (re._parser) and lookup scope of to_signum',
 'C19': 'ordering key agreement (priority, reverse on stop), pacing must-pass-through between spawns, start exclusivity over the call graph',
 'C20': 'ordering abstraction of the size test, affine form of the shift-loop indices and suffixes by expansion, remove-before-rename pairing in both directions (who may delete a backup), prefix shape by expansion',
}

for c in checks:
    pid = c['property_id']
    if c['technique'].startswith('<<'):
        c['technique'] = COMMON + TECH[pid]

manifest = {
    'version': 1,
    'setup_cmd': 'true',
    'hooks': {
        'guard': 'CIRCUS_VERIF',
        'enable': 'none needed: the checks parse /repo/circus and never execute it, so '
                  'there is no instrumentation in circus',
        'baseline_off_cmd': BASELINE,
        'source_commits': [],
        'add_only': True,
    },
    'engines': [{
        'name': 'circus-sa',
        'path': 'sa/',
        'serves_properties': [c['property_id'] for c in checks],
        'kind_free_text': 'repository-specific static analyser (stdlib ast, circus is never '
                          'imported or run): canonical form of the parsed source (renames, '
                          'moved definitions, helper inlining, idiom normal forms), statement '
                          'CFG with exception edges and duplicated finally bodies, resolved '
                          'call graph, must/may event summaries, reaching definitions with '
                          'expansion and path feasibility, guard truth tables, ordering and '
                          'affine normal forms; the thorough tier re-runs the same static '
                          'check on scratch copies with seeded breakages (must be reported) '
                          'and benign twins (must be silent)',
    }],
    'checks': checks,
    'not_applicable': na,
    'notes': 'exit 0 = all obligations discharged or only listed known findings '
             '(known_findings.json); exit 1 = VIOLATION; exit 2 = ANALYSIS-ERROR '
             '(anchor lost / unrecognised form / checker self-test failed).',
}
with open(os.path.join(VERIF, 'MANIFEST.json'), 'w') as f:
    json.dump(manifest, f, indent=1)
print('checks:', [c['property_id'] for c in checks])
print('not_applicable:', [n['property_id'] for n in na])
