#!/venv/bin/python
"""Regenerate /verif/MANIFEST.json from the rule modules present."""
import importlib
import json
import os
import sys

HERE = os.path.dirname(os.path.abspath(__file__))
VERIF = os.path.dirname(HERE)
sys.path.insert(0, VERIF)
sys.dont_write_bytecode = True

BASELINE = json.load(open('/root/.vp/BASELINE.json'))['cmd'].replace(
    '--junitxml=<file>', '--junitxml=/tmp/circus_baseline.junit.xml')

props = [json.loads(l) for l in open(os.path.join(VERIF, 'properties.jsonl'))]
checks = []
na = []
for p in props:
    pid = p['id']
    try:
        mod = importlib.import_module('rules.%s' % pid.lower())
    except ImportError:
        na.append({'property_id': pid,
                   'reason': 'static rules for this property are not built yet '
                             '(planned in DESIGN.md section 3)'})
        continue
    if getattr(mod, 'NOT_APPLICABLE', None):
        na.append({'property_id': pid, 'reason': mod.NOT_APPLICABLE})
        continue
    checks.append({
        'property_id': pid,
        'quick_cmd': './check %s --tier quick' % pid,
        'thorough_cmd': './check %s --tier thorough' % pid,
        'evidence_file': 'evidence/%s.json' % pid,
        'replay_cmd_template': 'cat {path}',
        'engine': 'circus-sa',
        'level_claimed': {
            'category': 'other',
            'text': mod.EXPLANATION,
            'design_ref': 'DESIGN.md section 3, %s' % pid,
        },
        'level_note': 'Static analysis of the parsed source only (no execution). '
                      'Trusted base: the CFG/call-graph engine in /verif/sa, the frozen '
                      'receiver-type table (sa/calls.py), posix platform pruning. '
                      + ' '.join(getattr(mod, 'ASSUMPTIONS', [])),
        'technique': getattr(mod, 'TECHNIQUE',
                             'static analysis: per-function CFG must-pass-through / '
                             'dominance, resolved call-graph reachability, guard '
                             'truth-table and ordering abstraction'),
    })

manifest = {
    'version': 1,
    'setup_cmd': 'true',
    'hooks': {
        'guard': 'CIRCUS_VERIF',
        'enable': 'none needed: the checks parse /repo/circus and never execute it, so '
                  'there is no instrumentation in circus',
        'baseline_off_cmd': BASELINE,
        'source_commits': [],
        'add_only': True,
    },
    'engines': [{
        'name': 'circus-sa',
        'path': 'sa/',
        'serves_properties': [c['property_id'] for c in checks],
        'kind_free_text': 'repository-specific static analyser (stdlib ast): statement CFG '
                          'with exception edges and duplicated finally bodies, resolved call '
                          'graph, must/may event summaries, guard truth tables, ordering and '
                          'affine normal forms; thorough tier adds a sensitivity self-test on '
                          'seeded scratch-copy variants and benign twins',
    }],
    'checks': checks,
    'not_applicable': na,
    'notes': 'exit 0 = all obligations discharged or only listed known findings '
             '(known_findings.json); exit 1 = VIOLATION; exit 2 = ANALYSIS-ERROR '
             '(anchor lost / unrecognised form / checker self-test failed).',
}
with open(os.path.join(VERIF, 'MANIFEST.json'), 'w') as f:
    json.dump(manifest, f, indent=1)
print('checks:', [c['property_id'] for c in checks])
print('not_applicable:', [n['property_id'] for n in na])
