#!/venv/bin/python
"""Freeze the local-variable names (with binding fingerprints) of every function of
the pinned tree into sa/local_names.json.  Re-run only when the reference tree changes."""
import json, sys, os
os.environ['VERIF_NO_ALIAS_PROPAGATION'] = '1'
sys.path.insert(0, '/verif')
from sa.project import Project
from sa.localnames import binding_fingerprints, first_use_order, TABLE
p = Project('/repo', canonical=False, normalise=True)
out = {}
for key, fi in sorted(p.functions.items()):
    fp = binding_fingerprints(fi.node)
    if fp:
        order = first_use_order(fi.node)
        names = sorted(fp, key=lambda n: order.get(n, (0, 0)))
        out[key] = {'order': names, 'fp': {k: list(fp[k]) for k in names}}
json.dump(out, open(TABLE, 'w'), indent=0, sort_keys=True)
print(len(out), 'functions', sum(len(v) for v in out.values()), 'locals')
