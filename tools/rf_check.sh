#!/bin/bash
# tools/rf_check.sh <id>... : apply refactors/<id>/patch.diff to /repo, run all quick checks, undo.
for ID in "$@"; do
  cd /repo && git apply /verif/refactors/$ID/patch.diff || { echo "$ID: PATCH DOES NOT APPLY"; continue; }
  cd /verif
  DET=""
  for p in C01 C02 C03 C04 C05 C06 C07 C08 C09 C10 C11 C12 C13 C14 C15 C16 C17 C18 C19 C20; do
    ./check $p --no-write > /tmp/rf_${ID}_$p.log 2>&1; rc=$?
    if [ $rc -ne 0 ]; then DET="$DET $p(rc=$rc)"; echo "== $ID $p rc=$rc"; grep "^  R\|ANALYSIS" /tmp/rf_${ID}_$p.log | cut -c1-330; fi
  done
  cd /repo && git apply -R /verif/refactors/$ID/patch.diff; git checkout -- . ; cd /verif
  echo "checks alarming on refactor $ID:$DET"
done
