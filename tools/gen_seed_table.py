#!/venv/bin/python
"""Rewrite the '## 11.' section of DESIGN.md from seeded/*/meta.json."""
import json, os, re
V = '/verif'
rows = []
for sid in sorted(os.listdir(os.path.join(V, 'seeded'))):
    mp = os.path.join(V, 'seeded', sid, 'meta.json')
    if not os.path.exists(mp):
        continue
    m = json.load(open(mp))
    rows.append('| `%s` | %s | %s | %s | %s |' % (
        sid, m['breaks_property'], m['change'].replace('|', '/'),
        m['needs_to_manifest'].replace('|', '/'),
        (m['detected_by'] + (' — ' + m['note'] if m.get('note') else '')).replace('|', '/')))
sec = """## 11. Independently seeded changes and which checks catch them

Each change was written by a fresh sub-agent that saw only the property text
and a scratch worktree (nothing from /verif), compiles, passes the existing
suite, and comes with a demonstration that fails with the change and passes
without it (both re-run by me).  Kept under `seeded/<id>/` (patch.diff, the
demonstration, meta.json); the thorough tier of the property re-applies each
patch on a scratch copy and requires a new violation.  "MISSED" marks changes
the first version of a rule did not catch; the rule was then strengthened (and
re-checked against the unchanged tree and the benign twins).

| id | property | change | needs, to manifest | caught by |
|---|---|---|---|---|
""" + '\n'.join(rows) + '\n'
p = os.path.join(V, 'DESIGN.md')
s = open(p).read()
if '## 11. Independently seeded' in s:
    s = s[:s.index('## 11. Independently seeded')]
s = s.rstrip('\n') + '\n\n' + sec
open(p, 'w').write(s)
print(len(rows), 'seeds')
