#!/venv/bin/python
"""Rewrite the '## 11.' section of DESIGN.md from seeded/*/meta.json."""
import json, os, re
V = '/verif'
rows = []
for sid in sorted(os.listdir(os.path.join(V, 'seeded'))):
    mp = os.path.join(V, 'seeded', sid, 'meta.json')
    if not os.path.exists(mp):
        continue
    m = json.load(open(mp))
    rows.append('| `%s` | %s | %s | %s | %s |' % (
        sid, m['breaks_property'], m['change'].replace('|', '/'),
        m['needs_to_manifest'].replace('|', '/'),
        (m['detected_by'] + (' — ' + m['note'] if m.get('note') else '')).replace('|', '/')))
sec = """## 11. Independently seeded changes and which checks catch them

Each change was written by a fresh sub-agent that saw only the property text
and a scratch worktree (nothing from /verif), compiles, passes the existing
suite, and comes with a demonstration that fails with the change and passes
without it (both re-run by me).  Kept under `seeded/<id>/` (patch.diff, the
demonstration, meta.json); the thorough tier of the property re-applies each
patch on a scratch copy and requires a new violation.  "MISSED" marks changes
the first version of a rule did not catch; the rule was then strengthened (and
re-checked against the unchanged tree and the benign twins).

Three rounds of 20 (ids cNN, cNNb, cNNc; rounds 2 and 3 were told which sites the
earlier rounds had used and asked for a different part of the property):
round 1 - 12 caught by the target property's check at first pass, 1 exit 2, 2 only by
another property's check, 5 missed; round 2 - 10 / 0 / 5 / 5; round 3 (run after the
canonical-form rewrite of section 12) - 9 / 2 / 4 / 5.  A fourth, targeted round of 13
(ids cNNd/cNNe) went to the properties with the worst first-pass record (C04, C08, C09
twice each; C02, C03, C05, C07, C10, C14, C16 once): 8 / 0 / 2 / 3.  A fifth round of 8
(ids gNN) asked for breakages that ADD code - a new command, option or code path next to
the existing ones, leaving every existing function intact - since rules anchored in
existing functions could be blind to those: 6 / 0 / 2 / 0 (the two led to C04 R10, "the
process table is written only by Watcher", and C05 R9, "reap_process(pid) only for a child
known to be gone" - the latter also exposed a genuine defect, section 10).  A sixth round
of 20 (ids hNN, one per property, run after all of the above) gave each agent an ANGLE
instead of a list of used sites - fault path, interaction of two options, lower-layer
helper, "optimisation", ordering across a suspension point: 9 / 0 / 4 / 7.  Two of the
four "other" catches were right for the wrong reason (C04 R9 and C08 R3 did not recognise a
direct loop.stop() as stopping the loop and so alarmed on h06, which breaks C06 only): those
rules were corrected to stay silent and C06 R10 written for what h06 really breaks.  A
seventh round of 20 (ids iNN) prescribed the KIND OF MISTAKE instead - boundary / off-by-one,
wrong neighbouring variable, falsy-value handling, clean-up missing on one way out, a wrong
detail in a library call: 9 / 0 / 4 / 7 again (i01 and i12 are the same edit, made
independently for two properties).  An eighth round of 20 (ids jNN; kinds: stale value
across a suspension, exception handling, sibling paths diverging, plumbing of an argument,
defaults and precedence), run after the rules had been restated semantically (12.6, 12.7):
14 / 1 / 3 / 2 - the exit 2 was C14 R4 losing its anchor on j04, rewritten since.  A ninth
round of 20 (ids kNN; kinds: "optimisation", coroutine / callback mechanics, type or
representation, a condition "simplified", order of statements, "dead code" removed, a
modernisation gone wrong, copy-paste, scope of a block, a small feature with a side effect):
16 / 1 / 1 / 2 - the exit 2 was C01 R3 not recognising `list(self.processes.values())[:-n]`
as a surplus selection (it now reads the unsorted table as oldest-first and names the
negative bound), the "other" was k11, which C18 R3 caught through a text comparison (now a
CFG obligation shared as C11 R8), and the two misses gave C07 R7 / C12 R10 (which names can
reach the set reloadconfig disposes of, by evaluating the set algebra including the
comprehension filters) and C20 R6 (a rollover removes only the destination of the rename
that follows).  Every miss led to a rule (often one shared between properties whose
statements overlap); all 161 are now caught by their target.  Through round 7 the first-pass
rate stayed near one in two; rounds 8 and 9, after the rules were restated on values and
paths, reached 14 and 16 of 20.  The honest reading is still that independently written
breakages keep finding clauses no rule covers - three or four in twenty - and that the 161
stored ones are regression tests, not a coverage measure.

| id | property | change | needs, to manifest | caught by |
|---|---|---|---|---|
""" + '\n'.join(rows) + '\n'
p = os.path.join(V, 'DESIGN.md')
s = open(p).read()
rest = ''
if '## 11. Independently seeded' in s:
    i = s.index('## 11. Independently seeded')
    j = s.find('\n## 12.', i)
    rest = s[j + 1:] if j != -1 else ''
    s = s[:i]
s = s.rstrip('\n') + '\n\n' + sec + ('\n' + rest if rest else '')
open(p, 'w').write(s)
print(len(rows), 'seeds')
