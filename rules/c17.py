"""C17 - captured worker output: complete, in order, once, correctly labelled."""
import ast

from sa import astq
from sa.astq import norm_text
from sa.idioms import guarded, reach_under, attr_truth, combine, member_test
from sa.project import dotted, walk_local, AnalysisError

EXPLANATION = (
    "Label flow and registration typestate of the output redirector decided on "
    "the source: R1 every record handed to a stream carries the handler's own "
    "process pid and channel name, the stream used is the one registered for "
    "that channel, and add_redirections binds stdout/stderr names to the "
    "matching pipes of the process; R2 add_redirections resets any handler left "
    "on a reused descriptor number before registering the new pipe; R3 an empty "
    "read (EOF) and an error-only event both reach remove_fd, which removes the "
    "loop handler and the pipes entry; EAGAIN is the only swallowed error; R4 "
    "lifecycle typestate - spawn_process registers the pipes of every adopted "
    "process (before it is put in the table), kill_process unregisters them "
    "before Process.stop, Process.stop closes both channels in a finally, and "
    "_stop stops the redirector after the reap; R5 the data handed on is exactly "
    "the value of the single bounded os.read of that callback. Decides these "
    "necessary conditions, not completeness/order over all interleavings.")
ASSUMPTIONS = ["pipe and epoll semantics are the kernel's"]

R = 'circus.stream.redirector:Redirector.'
H = 'circus.stream.redirector:Redirector.Handler.'
W = 'circus.watcher:Watcher.'
P = 'circus.process:Process.'


def check(run, ctx):
    run.each(ctx, [r1, r2, r3, r4, r5, r6])


def flat(x):
    t = x if isinstance(x, str) else norm_text(x)
    return t.replace('(', '').replace(')', '')


def r1(run, ctx):
    run.rule('R1', 'label flow')
    f = ctx.fn(H + '__call__')
    dm = None
    for a in walk_local(f.node):
        if isinstance(a, ast.Dict):
            keys = [astq.const_value(k) for k in a.keys]
            if 'pid' in keys and 'name' in keys:
                dm = a
    if dm is None:
        raise AnalysisError('C17 R1: record dict not found in Handler.__call__')
    tab = {astq.const_value(k): norm_text(v) for k, v in zip(dm.keys, dm.values)}
    run.check('R1', tab.get('pid') == 'self.process.pid', "records carry the handler's process "
              "pid", f, dm, "records are labelled with pid %s" % tab.get('pid'))
    run.check('R1', tab.get('name') == 'self.name', "records carry the handler's channel name",
              f, dm, "records are labelled with channel %s" % tab.get('name'))
    calls = [c for n in ctx.live_nodes(f) for c in n.calls()
             if isinstance(c.func, ast.Subscript) and 'redirect' in norm_text(c.func.value)]
    run.check('R1', len(calls) == 1 and norm_text(calls[0].func) == 'self.redirector.redirect[self.name]',
              "the record goes to the stream registered for the handler's channel", f,
              calls[0] if calls else f.node,
              "records of a channel are written to %s" % (norm_text(calls[0].func) if calls else '?'))
    init = ctx.fn(H + '__init__')
    from rules.common import attr_stores as _stores
    okh = True
    for attr in ('name', 'process'):
        st_ = _stores(init.node, attr)
        okh = okh and bool(st_) and all(norm_text(astq.resolve_local(init.node, v)) == attr
                                        for _, v in st_)
    run.check('R1', okh,
              'the handler stores the name and process it was created for', init, init.node)
    so = ctx.fn(R + '_start_one')
    hc = [c for n in ctx.live_nodes(so) for c in n.calls() if astq.call_last(c) == 'Handler']
    run.check('R1', len(hc) == 1 and [norm_text(a) for a in hc[0].args] ==
              ['self', 'stream_name', 'process', 'pipe'], 'a handler is built from the registered '
              '(name, process, pipe)', so, hc[0] if hc else so.node)
    ah = [c for c in ast.walk(so.node) if isinstance(c, ast.Call) and
          astq.call_last(c) == 'add_handler' and len(c.args) == 3]
    run.check('R1', len(ah) == 1 and norm_text(astq.resolve_local(so.node, ah[0].args[0])) == 'fd'
              and norm_text(ah[0].args[2]).endswith('.READ') and bool(hc) and
              astq.resolve_local(so.node, ah[0].args[1]) is hc[0],
              'the handler is attached to that descriptor for READ', so, so.node)
    gp = ctx.fn(R + 'get_process_pipes')
    t = norm_text(gp.node)
    run.check('R1', "yield ('stdout', process.stdout)" in t and "yield ('stderr', process.stderr)" in t,
              'channel names are bound to the matching pipes', gp, gp.node,
              'stdout/stderr names are bound to the wrong pipes')
    cfg = ctx.cfg(gp)
    for n in ctx.live_nodes(gp):
        if astq.has_yield(n):
            nm = 'stdout' if "'stdout'" in norm_text(n.ast) else 'stderr'
            run.check('R1', guarded(cfg, n, lambda e, nm=nm: True if norm_text(e) ==
                                    'process.pipe_%s' % nm else None, True),
                      '%s is offered only when it is piped' % nm, gp, n.ast)
    ar = ctx.fn(R + 'add_redirections')
    t = flat(ar.node)
    run.check('R1', flat('self.pipes[fd] = (name, process, pipe)') in t and
              flat('for (name, pipe) in self.get_process_pipes(process)') in t and
              flat('fd = pipe.fileno()') in t,
              'add_redirections registers (name, process, pipe) under the pipe descriptor', ar,
              ar.node)
    st = ctx.fn(R + 'start')
    t = flat(st.node)
    run.check('R1', flat('for (fd, (name, process, pipe)) in self.pipes.items()') in t and
              flat('self._start_one(fd, name, process, pipe)') in t,
              'start() attaches every registered pipe with its own label', st, st.node)
    ri = ctx.fn(R + '__init__')
    run.check('R1', "self.redirect = {'stdout': stdout_redirect, 'stderr': stderr_redirect}" in
              norm_text(ri.node), 'channel names map to the configured streams', ri, ri.node,
              'stdout and stderr streams are swapped or mis-keyed')
    cr = ctx.fn(W + '_create_redirectors')
    run.check('R1', 'self._redirector_class(self.stdout_stream, self.stderr_stream, loop=self.loop)'
              in norm_text(cr.node), 'the watcher passes (stdout_stream, stderr_stream) in that '
              'order', cr, cr.node)


def r2(run, ctx):
    run.rule('R2', 'stale-descriptor reset')
    f = ctx.fn(R + 'add_redirections')
    cfg = ctx.cfg(f)
    reset = ctx.nodes_calling(f, [R + '_stop_one', R + 'remove_fd'])
    regs = [n for n in ctx.live_nodes(f) if n.kind == 'stmt' and isinstance(n.ast, ast.Assign) and
            any(isinstance(t, ast.Subscript) and norm_text(t.value) == 'self.pipes'
                for t in n.ast.targets)]
    if run.need('R2', regs, 'self.pipes[fd] = ... in add_redirections', f) and \
            run.need('R2', reset, '_stop_one(fd) in add_redirections', f,
                     'a reused descriptor number keeps the handler (and label) of the previous '
                     'worker generation'):
        for r in regs:
            run.check('R2', cfg.dominates(reset, r), 'the old handler on that descriptor is removed '
                      'before the new pipe is registered', f, r.ast)
        starts = ctx.nodes_calling(f, [R + '_start_one'])
        for s in starts:
            run.check('R2', cfg.dominates(regs, s) and guarded(
                cfg, s, lambda e: True if norm_text(e) == 'self.running' else None, True),
                'a running redirector attaches the new pipe at once', f, s.ast)
        run.need('R2', starts, '_start_one for a running redirector', f,
                 'pipes of workers spawned while the redirector runs are never watched')
    so = ctx.fn(R + '_stop_one')
    t = norm_text(so.node)
    run.check('R2', 'self.loop.remove_handler(fd)' in t and 'del self._active[fd]' in t,
              '_stop_one detaches the loop handler and forgets it', so, so.node)
    s1 = ctx.fn(R + '_start_one')
    c1 = ctx.cfg(s1)
    add = [n for n in ctx.live_nodes(s1) if any(astq.call_last(c) == 'add_handler' for c in n.calls())]
    for n in add:
        run.check('R2', guarded(c1, n, lambda e: member_test(e, 'fd', 'self._active'), False),
                  'a descriptor is attached at most once', s1, n.ast)


def r3(run, ctx):
    run.rule('R3', 'EOF and errors end the watch')
    f = ctx.fn(H + '__call__')
    cfg = ctx.cfg(f)
    rm = ctx.nodes_calling(f, [R + 'remove_fd'])
    if not run.need('R3', rm, 'remove_fd call in Handler.__call__', f,
                    'a closed pipe is watched for ever: the loop spins on EOF'):
        return

    def eof(e):
        if isinstance(e, ast.Compare) and 'len(data)' in norm_text(e.left) and \
                astq.const_value(e.comparators[0], None) == 0:
            return isinstance(e.ops[0], ast.Eq)
        if isinstance(e, ast.Name) and e.id == 'data':
            return False      # EOF <=> data is empty (falsy)
        return None
    reads = [n for n in ctx.live_nodes(f) if any(dotted(c.func) == 'os.read' for c in n.calls())]
    for rd in reads:
        r = reach_under(cfg, rd, eof, avoid=rm, labels_excluded=('exc',))
        run.check('R3', cfg.exit.id not in r, 'an empty read (EOF) stops watching the descriptor',
                  f, rd.ast, 'EOF does not unregister the descriptor: the daemon spins on the '
                  'closed pipe')
        # non-empty data is never dropped and does not unregister
        r2_ = reach_under(cfg, rd, lambda e: (not eof(e)) if eof(e) is not None else None,
                          labels_excluded=('exc',))
        run.check('R3', not any(x.id in r2_ for x in rm), 'data does not unregister the descriptor',
                  f, rd.ast)

    def err_only(e):
        t = norm_text(e)
        if t == 'events & ioloop.IOLoop.READ':
            return False
        if t == 'events == ioloop.IOLoop.ERROR':
            return True
        return None
    r = reach_under(cfg, cfg.entry, err_only, avoid=rm, labels_excluded=('exc',))
    run.check('R3', cfg.exit.id not in r, 'an error-only event stops watching the descriptor', f,
              f.node, 'an error event on a pipe is ignored: the loop spins on it')
    rf = ctx.fn(R + 'remove_fd')
    c2 = ctx.cfg(rf)
    so = ctx.nodes_calling(rf, [R + '_stop_one'])
    dl = [n for n in ctx.live_nodes(rf) if n.kind == 'stmt' and isinstance(n.ast, ast.Delete) and
          'self.pipes' in norm_text(n.ast)]
    if run.need('R3', so, '_stop_one in remove_fd', rf) and \
            run.need('R3', dl, 'del self.pipes[fd] in remove_fd', rf,
                     'a finished pipe stays registered: it is re-attached on the next start() and '
                     'its descriptor entry leaks per worker generation'):
        run.check('R3', c2.must_pass(c2.entry, [c2.exit], so), 'the loop handler is always removed',
                  rf, so[0].ast)
        r = reach_under(c2, c2.entry, lambda e: (True if isinstance(e, ast.Compare) and
                        norm_text(e.comparators[0]) == 'self.pipes' else None), avoid=dl)
        run.check('R3', c2.exit.id not in r, 'a registered descriptor is always forgotten', rf,
                  dl[0].ast)
    # EAGAIN is the only swallowed error
    for t in ast.walk(f.node):
        if isinstance(t, ast.Try):
            for h in t.handlers:
                body = ' '.join(norm_text(x) for x in h.body)
                run.check('R3', 'errno.EAGAIN' in body and 'raise' in body or
                          (h.type is not None and 'Exception' in norm_text(h.type) and
                           'sys.exc_clear' in norm_text(t)),
                          'only EAGAIN is swallowed while reading', f, h)


def r4(run, ctx):
    run.rule('R4', 'registration typestate across the worker lifecycle')
    sp = ctx.fn(W + 'spawn_process')
    cfg = ctx.cfg(sp)
    add = ctx.nodes_calling(sp, [R + 'add_redirections'])
    cons = ctx.nodes_calling(sp, [P + '__init__'])
    from rules.c04 import registrations
    regs = registrations(ctx, sp)
    if run.need('R4', add, 'add_redirections in spawn_process', sp,
                "the output of new workers is not captured") and regs and cons:
        have = attr_truth('stream_redirector', True)
        for c in cons:
            r = reach_under(cfg, c, have, avoid=add, labels_excluded=('exc',))
            run.check('R4', not any(x.id in r for x in regs), 'with a redirector every adopted '
                      'process has its pipes registered before it enters the table', sp, c.ast,
                      'a worker can be adopted without its pipes being watched')
        for a in add:
            for c in a.calls():
                if astq.call_last(c) == 'add_redirections':
                    run.check('R4', c.args and norm_text(c.args[0]) == 'process',
                              'the pipes registered are those of the new process', sp, a.ast)
    starts = ctx.nodes_calling(sp, [R + 'start'])
    run.need('R4', starts, 'redirector start in spawn_process', sp,
             'the redirector is not running when workers are spawned')
    kp = ctx.fn(W + 'kill_process')
    cfg = ctx.cfg(kp)
    rm = ctx.nodes_calling(kp, [R + 'remove_redirections'])
    ps = ctx.nodes_calling(kp, [P + 'stop'])
    if run.need('R4', rm, 'remove_redirections in kill_process', kp,
                'descriptors of terminated workers stay registered (leak per generation)') and ps:
        have = attr_truth('stream_redirector', True)
        for p_ in ps:
            r = reach_under(cfg, cfg.entry, have, avoid=rm)
            run.check('R4', p_.id not in r, 'the pipes are unregistered before Process.stop '
                      'closes them', kp, p_.ast, 'pipes are closed while still registered with '
                      'the loop')
    pst = ctx.fn(P + 'stop')
    cfg = ctx.cfg(pst)
    cl = ctx.nodes_calling(pst, [P + 'close_output_channels'])
    if run.need('R4', cl, 'close_output_channels in Process.stop', pst,
                'pipes of stopped workers are never closed (descriptor leak per generation)'):
        r = cfg.reach(cfg.entry, avoid=cl)
        run.check('R4', cfg.exit.id not in r, 'both channels are closed on every normal path of '
                  'Process.stop', pst, cl[0].ast, 'Process.stop can return without closing the '
                  'output pipes')
        fin = [t for t in ast.walk(pst.node) if isinstance(t, ast.Try) and any(
            'close_output_channels' in norm_text(x) for x in t.finalbody)]
        run.check('R4', bool(fin), 'the close is in a finally (also when terminate() raises)', pst,
                  cl[0].ast, 'an exception while terminating skips the pipe close')
    cc = ctx.fn(P + 'close_output_channels')
    from sa.dataflow import reaching_defs
    rdc = reaching_defs(ctx, cc)
    closed = set()
    for n in ctx.live_nodes(cc):
        for c in n.calls():
            if astq.call_last(c) == 'close' and isinstance(c.func, ast.Attribute) and not c.args:
                closed |= {a.text() for a in rdc.expand(n, c.func.value)}
    run.check('R4', {'self._worker.stderr', 'self._worker.stdout'} <= closed,
              'close_output_channels closes stdout and stderr', cc, cc.node,
              'close_output_channels closes %s' % sorted(closed))
    st = ctx.fn(W + '_stop')
    cfg = ctx.cfg(st)
    rs = ctx.nodes_calling(st, [R + 'stop'])
    reap = ctx.nodes_calling(st, [W + 'reap_processes'])
    if run.need('R4', rs, 'redirector stop in _stop', st):
        for n in rs:
            run.check('R4', cfg.dominates(reap, n), 'the redirector is stopped after the workers '
                      'were reaped (late output is still captured)', st, n.ast)
    rr = ctx.fn(R + 'remove_redirections')
    cfgr = ctx.cfg(rr)
    loops_ = [h for h in cfgr.nodes if h.kind == 'iter']
    rm = [n for n in ctx.live_nodes(rr) if any(astq.call_last(c) == 'remove_fd' for c in n.calls())]
    in_loop = bool(rm) and all(any(n.id in cfgr.branch_nodes(h, 'true') for h in loops_)
                               for n in rm)
    tolerant = True
    for c in ast.walk(rr.node):
        if isinstance(c, ast.Call) and astq.call_last(c) == 'fileno':
            covered = False
            for t in ast.walk(rr.node):
                if isinstance(t, ast.Try) and any(sub is c for st_ in t.body
                                                  for sub in ast.walk(st_)):
                    for h in t.handlers:
                        names = [(dotted(e) or '').split('.')[-1] for e in (
                            h.type.elts if isinstance(h.type, ast.Tuple) else [h.type])] \
                            if h.type is not None else ['*']
                        covered = covered or bool({'ValueError', 'Exception', '*'} & set(names))
            tolerant = tolerant and covered
    run.check('R4', in_loop and tolerant,
              'remove_redirections forgets each pipe (tolerating an already closed one)', rr,
              rr.node)
    # ... and only descriptors that are this process's NOW: the fileno() of one of its own
    # pipe objects, or a key of the table whose entry is this very process - never a number
    # remembered from earlier (the number may belong to the replacement by now)
    def enclosing_fors(call):
        out = []

        def rec(n, stack):
            if n is call:
                out.extend(stack)
                return
            for ch in ast.iter_child_nodes(n):
                rec(ch, stack + [n] if isinstance(n, ast.For) else stack)
        rec(rr.node, [])
        return out
    for c in ast.walk(rr.node):
        if not (isinstance(c, ast.Call) and astq.call_last(c) == 'remove_fd' and c.args):
            continue
        arg = astq.resolve_local(rr.node, c.args[0])
        fors = enclosing_fors(c)
        own = False
        if isinstance(arg, ast.Call) and astq.call_last(arg) == 'fileno' and \
                isinstance(arg.func.value, ast.Name):
            pn = arg.func.value.id
            own = any('get_process_pipes(process)' in norm_text(fl.iter) and
                      pn in {x.id for x in ast.walk(fl.target) if isinstance(x, ast.Name)}
                      for fl in fors)
        elif isinstance(arg, ast.Name):
            for fl in fors:
                names = {x.id for x in ast.walk(fl.target) if isinstance(x, ast.Name)}
                if arg.id in names and 'self.pipes' in norm_text(fl.iter):
                    node = [n for n in cfgr.nodes if any(cc is c for cc in n.calls())]

                    def mine(e, names=names):
                        if isinstance(e, ast.Compare) and len(e.ops) == 1 and \
                                isinstance(e.ops[0], (ast.Is, ast.Eq)):
                            a, b = norm_text(e.left), norm_text(e.comparators[0])
                            if 'process' in (a, b) and ({a, b} - {'process'}) and \
                                    (({a, b} - {'process'}).pop() in names or
                                     'self.pipes[' in ({a, b} - {'process'}).pop()):
                                return True
                        return None
                    own = bool(node) and guarded(cfgr, node[0], mine, True)
        run.check('R4', own, 'remove_redirections drops only descriptors that belong to this '
                  'process now', rr, c, 'remove_redirections drops a descriptor NUMBER it '
                  'remembered: when the worker was reaped and replaced meanwhile that number is '
                  "the successor's pipe, whose output is then lost",
                  construct='STALE-FD-NUMBER')


def r5(run, ctx):
    run.rule('R5', 'one bounded read per readiness event, handed on unchanged')
    f = ctx.fn(H + '__call__')
    reads = [(n, c) for n in ctx.live_nodes(f) for c in n.calls() if dotted(c.func) == 'os.read']
    run.check('R5', len(reads) == 1, 'exactly one os.read per callback', f,
              reads[0][0].ast if reads else f.node, '%d reads per readiness event' % len(reads))
    if reads:
        n, c = reads[0]
        run.check('R5', norm_text(c.args[0]) == 'fd' and
                  norm_text(c.args[1]) == 'self.redirector.buffer', 'the read is on the ready '
                  'descriptor, bounded by the configured buffer', f, n.ast)
        tg = n.ast.targets[0] if isinstance(n.ast, ast.Assign) else None
        dm = [a for a in walk_local(f.node) if isinstance(a, ast.Dict) and
              'data' in [astq.const_value(k) for k in a.keys]]
        ok = tg is not None and dm and norm_text(
            dict(zip([astq.const_value(k) for k in dm[0].keys], dm[0].values))['data']) == \
            norm_text(tg)
        run.check('R5', bool(ok), 'the record carries exactly the bytes read (no slice, no '
                  'transformation)', f, dm[0] if dm else f.node,
                  'the data handed to the stream is not the value returned by os.read')
        # nothing reassigns data between read and hand-over
        re_ = [a for a in walk_local(f.node) if isinstance(a, (ast.Assign, ast.AugAssign)) and any(
            isinstance(t, ast.Name) and tg is not None and t.id == norm_text(tg)
            for t in astq.attr_targets(a))]
        run.check('R5', len(re_) == 1, 'the bytes are not modified before hand-over', f, f.node)
    ri = ctx.fn(R + '__init__')
    from rules.common import attr_stores
    bst = attr_stores(ri.node, 'buffer')
    run.check('R5', bool(bst) and all(norm_text(astq.resolve_local(ri.node, v)) == 'buffer'
                                      for _, v in bst), 'the buffer size is the '
              'configured one', ri, ri.node)


def r6(run, ctx):
    run.rule('R6', 'a worker is created with exactly the pipes the redirector will ask for')
    # Redirector.get_process_pipes yields process.stdout when process.pipe_stdout and
    # process.stderr when process.pipe_stderr; Process.spawn must request the PIPE for a
    # channel under the same flag - otherwise the handle is None: add_redirections raises
    # AttributeError between the creation of the child and its registration (the child runs
    # untracked), or a requested channel is never read
    from sa.idioms import reach_under, attr_truth
    sp = ctx.fn('circus.process:Process.spawn')
    cfg = ctx.cfg(sp)
    popen = [n for n in ctx.live_nodes(sp) for c in n.calls() if astq.call_last(c) == 'Popen']
    if not run.need('R6', popen, 'Popen call in Process.spawn', sp):
        return
    gp = ctx.fn('circus.stream.redirector:Redirector.get_process_pipes')
    gtxt = norm_text(gp.node)
    for ch in ('stdout', 'stderr'):
        run.check('R6', astq.has_pattern(gtxt, "if process.pipe_%s: yield '%s', process.%s" % (ch, ch, ch))
                  or ('process.pipe_%s' % ch in gtxt and 'process.%s' % ch in gtxt and
                      "'%s'" % ch in gtxt),
                  'the redirector takes process.%s exactly when pipe_%s is set' % (ch, ch), gp, gp.node)
        req = [n for n in ctx.live_nodes(sp) if n.kind == 'stmt' and isinstance(n.ast, ast.Assign)
               and isinstance(n.ast.targets[0], ast.Subscript) and
               astq.const_value(n.ast.targets[0].slice, None) == ch and
               norm_text(n.ast.value).endswith('PIPE')]
        if not run.need('R6', req, "request of a pipe for %s (extra['%s'] = PIPE)" % (ch, ch), sp,
                        'workers are never given a %s pipe: their %s is not captured' % (ch, ch)):
            continue
        on = reach_under(cfg, cfg.entry, attr_truth('pipe_' + ch, True), avoid=req,
                         labels_excluded=('exc', 'raise', 'reraise'))
        off = reach_under(cfg, cfg.entry, attr_truth('pipe_' + ch, False),
                          labels_excluded=('exc', 'raise', 'reraise'))
        ok = not any(p.id in on for p in popen) and not any(q.id in off for q in req)
        run.check('R6', ok, 'the %s pipe is requested exactly when pipe_%s is set' % (ch, ch),
                  sp, req[0].ast,
                  'Process.spawn requests the %s pipe under another condition than pipe_%s, the '
                  'flag the redirector goes by: with %s_stream alone configured the handle is '
                  'None, add_redirections raises after the child was created and before it is '
                  'registered - the worker runs in no watcher\'s table' % (ch, ch, ch),
                  construct='PIPE-FLAG-MISMATCH %s' % ch)
