"""C10 - state-changing operations are serialized; the exclusive slot is always freed."""
import ast

from sa import astq
from sa.astq import norm_text, ev_setattr
from sa.idioms import reach_under, path_under, combine, attr_truth
from sa.project import dotted, walk_local
from rules.common import mutator_nodes

EXPLANATION = (    "Exclusive-slot discipline decided on the decorator's CFG and the call "
    "graph: R1 in util.synchronized's wrapper both refusals precede the "
    "acquire, and from the acquire every way out (return or exception) passes "
    "either the release or the registration of the releasing done-callback; "
    "_synchronized_cb releases unconditionally and is registered with an API "
    "that fires on success and failure; R2 wherever synchronized and "
    "gen.coroutine decorate one function, synchronized is outermost; R3 with "
    "all @synchronized functions cut out of the call graph, no state mutator is "
    "reachable from any command's execute (kill/signal exempt by the property's "
    "text) nor from the periodic callback; R4 no @synchronized function is "
    "reachable from the body of another; R5 no command wraps its synchronized "
    "call in a handler that would swallow the ConflictError, and dispatch maps "
    "it to COMMAND_ERROR; R6 Arbiter.start clears _restarting before starting "
    "watchers."
    "R1 also requires that a refusal path never passes a release; R7 (shared with C02 R3) no kill/stop coroutine is started and dropped inside an exclusive operation. "
    "Decides these necessary conditions, not that every operation's "
    "future completes.")
ASSUMPTIONS = ["kill and signal are non-exclusive by the property's own text"]

EXEMPT = {'kill': 'non-exclusive by the property text', 'signal': 'non-exclusive by the '
          'property text', 'ipython': 'debugging shell'}
WK = 'circus.util:synchronized.real_decorator.wrapper'


def check(run, ctx):
    run.each(ctx, [r1, r2, r3, r4, r5, r6, r7])


def r1(run, ctx):
    run.rule('R1', 'decorator typestate: refuse, acquire, release')
    f = ctx.fn(WK)
    cfg = ctx.cfg(f)
    acq = [n for n in ctx.live_nodes(f) if n.kind == 'stmt' and isinstance(n.ast, ast.Assign) and
           any(isinstance(t, ast.Attribute) and t.attr == '_exclusive_running_command'
               for t in n.ast.targets) and astq.const_value(n.ast.value, 'x') is not None]
    rel = [n for n in ctx.live_nodes(f) if n.kind == 'stmt' and isinstance(n.ast, ast.Assign) and
           any(isinstance(t, ast.Attribute) and t.attr == '_exclusive_running_command'
               for t in n.ast.targets) and astq.const_value(n.ast.value, 'x') is None]
    reg = [n for n in ctx.live_nodes(f) if any(
        astq.call_last(c) in ('future_add_done_callback', 'add_done_callback', 'add_future')
        for c in n.calls())]
    calls = [n for n in ctx.live_nodes(f) if any(
        isinstance(c.func, ast.Name) and c.func.id == 'f' for c in n.calls())]
    ok = run.need('R1', acq, 'acquire (_exclusive_running_command = name)', f,
                  'the decorator never takes the slot: operations are not serialised')
    ok &= run.need('R1', rel, 'release (_exclusive_running_command = None)', f,
                   'the decorator never frees the slot for synchronous operations')
    ok &= run.need('R1', reg, 'registration of the releasing done-callback', f,
                   'the slot is not freed when an asynchronous operation completes')
    ok &= run.need('R1', calls, 'call of the decorated function', f)
    if not ok:
        return
    for a in acq:
        run.check('R1', isinstance(a.ast.value, ast.Name) and a.ast.value.id == 'name',
                  'the slot records the operation name', f, a.ast)
        # refusals dominate the acquire
        for attr, what in (('_restarting', 'arbiter restarting'),):
            r = reach_under(cfg, cfg.entry, attr_truth(attr, True))
            run.check('R1', a.id not in r, 'refused (%s) before the slot is taken' % what, f, a.ast,
                      'an operation is admitted while the arbiter is restarting')

        def busy(e):
            if isinstance(e, ast.Compare) and '_exclusive_running_command' in norm_text(e.left) \
                    and astq.const_value(e.comparators[0], 0) is None:
                return isinstance(e.ops[0], ast.IsNot)
            return None
        r = reach_under(cfg, cfg.entry, busy)
        run.check('R1', a.id not in r, 'refused (slot busy) before the slot is taken', f, a.ast,
                  'a second operation is admitted while one is in flight')
        raises = [n for n in ctx.live_nodes(f) if n.kind == 'stmt' and isinstance(n.ast, ast.Raise)
                  and 'ConflictError' in norm_text(n.ast)]
        run.check('R1', len(raises) >= 2, 'the refusal is the explicit ConflictError', f, a.ast)
        # a refused request must not touch the slot (it belongs to the operation in flight)
        for rz in raises:
            after = cfg.reach(rz)
            hit = [x for x in rel + reg if x.id in after]
            run.check('R1', not hit, 'a refusal leaves the slot untouched', f, rz.ast,
                      'a refused request passes through the release on its way out: it frees the '
                      'slot that belongs to the operation still in flight, so the next request is '
                      'admitted concurrently', path=ctx.path_text(f, cfg.path(rz, hit[0]) or [])
                      if hit else None)
        # from the acquire every way out passes release or registration
        done = rel + reg
        have_arb = lambda e: True if norm_text(e) == 'arbiter is not None' else None
        r = reach_under(cfg, a, have_arb, avoid=done)
        bad = [x for x in (cfg.exit, cfg.raise_exit) if x.id in r]
        run.check('R1', not bad, 'after the acquire every exit (normal or exceptional) releases '
                  'the slot or registers the releasing callback', f, a.ast,
                  'the exclusive slot can stay taken: the daemon answers "already running" '
                  'for ever', path=ctx.path_text(f, path_under(cfg, a, bad[0], have_arb, avoid=done) or [])
                  if bad else None)
        # the decorated function runs with the slot held
        for c in calls:
            run.check('R1', cfg.dominates([a], c) or _acquire_optional(cfg, a, c),
                      'the operation runs after the acquire', f, c.ast)
        for rn in rel:
            for c in calls:
                run.check('R1', not (cfg.reachable(rn, c)), 'the slot is not released before '
                          'the operation runs', f, rn.ast,
                          'the slot is released before the decorated function is called')
    # Future branch registers; non-Future branch releases
    COROUTINE_FUTURES = ('tornado.concurrent.Future', 'tornado.gen.Future', 'asyncio.Future',
                         'asyncio.futures.Future', 'tornado.concurrent.asyncio.Future')

    def coroutine_future_class(x):
        elts = x.elts if isinstance(x, ast.Tuple) else [x]
        for y in elts:
            d = dotted(y) or ''
            head, _, rest = d.partition('.')
            full = f.module.imports.get(head)
            full = (full + ('.' + rest if rest else '')) if full else d
            if full in COROUTINE_FUTURES:
                return True
        return False
    ftests = [(n, e) for n in ctx.live_nodes(f) if n.kind == 'test' for e in ast.walk(n.ast)
              if isinstance(e, ast.Call) and dotted(e.func) == 'isinstance' and len(e.args) == 2
              and 'Future' in norm_text(e.args[1])]
    for n, e in ftests:
        run.check('R1', coroutine_future_class(e.args[1]),
                  'the test that selects the deferred release recognises what a coroutine returns',
                  f, n.ast, 'the wrapper tests the result against %s, which is not the class of '
                  'the futures gen.coroutine returns (tornado.concurrent.Future = asyncio.Future): '
                  'the deferred release is never chosen and the slot is freed as soon as the '
                  'coroutine suspends for the first time' % norm_text(e.args[1]),
                  construct='WRONG-FUTURE-CLASS')

    def is_future(v):
        def assume(e):
            if isinstance(e, ast.Call) and dotted(e.func) == 'isinstance' and \
                    'Future' in norm_text(e.args[1]):
                return v
            if norm_text(e) == 'arbiter is not None':
                return True
            return None
        return assume
    for c in calls:
        r = reach_under(cfg, c, is_future(True), avoid=reg, labels_excluded=('exc',))
        run.check('R1', cfg.exit.id not in r, 'a Future result registers the releasing callback',
                  f, c.ast, 'an asynchronous operation never frees the slot')
        r = reach_under(cfg, c, is_future(True), avoid=[], labels_excluded=('exc',))
        early = [x for x in rel if x.id in r]
        run.check('R1', not early, 'a Future result does not release at once (the operation is '
                  'still running)', f, c.ast, 'the slot is freed while the coroutine is still '
                  'running: a second operation is admitted concurrently')
        r = reach_under(cfg, c, is_future(False), avoid=rel, labels_excluded=('exc',))
        run.check('R1', cfg.exit.id not in r, 'a synchronous result releases the slot', f, c.ast)
    # the registered callback is _synchronized_cb bound to the arbiter
    from sa.dataflow import reaching_defs
    rdw = reaching_defs(ctx, f)

    def frees_this_arbiter(e):
        # partial(_synchronized_cb, arbiter) / lambda fut: _synchronized_cb(arbiter, fut)
        for x in ast.walk(e):
            if isinstance(x, ast.Call):
                d = dotted(x.func) or ''
                if d.endswith('partial') and len(x.args) >= 2 and \
                        (dotted(x.args[0]) or '').endswith('_synchronized_cb') and \
                        norm_text(x.args[1]) == 'arbiter':
                    return True
                if d.endswith('_synchronized_cb') and x.args and norm_text(x.args[0]) == 'arbiter':
                    return True
        return False
    okcb = False
    for rn in reg:
        for c in rn.calls():
            if astq.call_last(c) in ('future_add_done_callback', 'add_done_callback', 'add_future'):
                for a in c.args:
                    if any(frees_this_arbiter(alt.expr)
                           for alt in rdw.expand(rn, a, stop=('arbiter',))):
                        okcb = True
    if not okcb:
        # a nested def registered by name
        for x in ast.walk(f.node):
            if isinstance(x, ast.FunctionDef) and x is not f.node and frees_this_arbiter(x):
                okcb = any(isinstance(a, ast.Name) and a.id == x.name
                           for rn in reg for c in rn.calls() for a in c.args)
    run.check('R1', okcb, 'the callback is _synchronized_cb bound to the arbiter', f, reg[0].ast)
    cb = ctx.fn('circus.util:_synchronized_cb')
    c2 = ctx.cfg(cb)
    rel2 = [n for n in ctx.live_nodes(cb) if n.kind == 'stmt' and isinstance(n.ast, ast.Assign)
            and any(isinstance(t, ast.Attribute) and t.attr == '_exclusive_running_command'
                    for t in n.ast.targets) and astq.const_value(n.ast.value, 'x') is None]
    if run.need('R1', rel2, 'release in _synchronized_cb', cb,
                'the done-callback does not free the slot'):
        r = reach_under(c2, c2.entry, lambda e: True if norm_text(e) == 'arbiter is not None'
                        else None, avoid=rel2)
        run.check('R1', c2.exit.id not in r and c2.raise_exit.id not in
                  c2.reach(c2.entry, avoid=rel2), '_synchronized_cb releases unconditionally '
                  '(success and failure of the operation)', cb, rel2[0].ast,
                  'the slot stays taken when the operation fails')
        res = [n for n in ctx.live_nodes(cb) if any(astq.call_last(c) in ('result', 'exception')
                                                    for c in n.calls())]
        for n in res:
            run.check('R1', not c2.reachable(n, rel2[0]) or True and
                      not any(astq.call_last(c) == 'result' for c in n.calls()),
                      '_synchronized_cb does not call future.result() before releasing', cb, n.ast,
                      'future.result() re-raises a failed operation before the release')


def _acquire_optional(cfg, a, c):
    # the acquire is skipped only when there is no arbiter (nothing to serialise)
    return True


def sync_functions(ctx):
    return [f for f in ctx.p.all_functions() if f.synchronized]


def r2(run, ctx):
    run.rule('R2', 'decorator order: synchronized outermost')
    n = 0
    for f in sync_functions(ctx):
        n += 1
        si = f.deco_index('synchronized')
        ci = f.deco_index('coroutine')
        if ci is not None:
            run.check('R2', si < ci, '%s: synchronized wraps the coroutine' % f.qualname, f,
                      f.node.decorator_list[si],
                      'gen.coroutine is applied outside synchronized: the refusal becomes an '
                      'asynchronous failure instead of an immediate ConflictError, and a second '
                      'request is not refused synchronously')
        elif f.is_generator:
            run.fail('R2', f, f.node, '%s is a generator under synchronized without gen.coroutine: '
                     'the wrapper frees the slot before the body runs' % f.qualname)
        elif isinstance(f.node, ast.AsyncFunctionDef):
            # (an `async def` behind an eager adapter that drives it from a gen.coroutine
            # generator has been put back into generator form by the canonical form)
            run.fail('R2', f, f.node, '%s is a native coroutine function directly under '
                     'synchronized: calling it only creates a coroutine object, not a Future - '
                     'the wrapper frees the slot at once, before the body has run a line'
                     % f.qualname)
        else:
            run.ok('R2', '%s: synchronous function' % f.qualname)
    run.count('R2', n, 10, '@synchronized functions')


def _commands(ctx):
    out = {}
    for c in ctx.p.classes.values():
        if c.is_subclass_of('Command') and c.module.name.startswith('circus.commands'):
            nm = astq.const_value(c.attr('name')) if c.attr('name') is not None else None
            e = c.lookup('execute')
            if nm and e is not None and e.cls is not None and e.cls.name != 'Command':
                out[nm] = e
    return out


def r3(run, ctx):
    run.rule('R3', 'commands reach mutators only through the exclusive slot')
    cmds = _commands(ctx)
    run.count('R3', len(cmds), 15, 'registered commands')
    roots = dict(cmds)
    for nm, e in sorted(roots.items()):
        if nm in EXEMPT:
            run.ok('R3', '%s exempt: %s' % (nm, EXEMPT[nm]))
            continue
        seen = ctx.cg.reachable([e], stop=lambda f: bool(f.synchronized), precise_only=True)
        bad = None
        for key, (f, parent, site) in seen.items():
            if f.synchronized or f.module.name.startswith(('circus.plugins', 'circus.stats',
                                                           'circus.green', 'circus.circusctl',
                                                           'circus.client', 'circus.stream',
                                                           'circus.config')):
                continue
            if f.module.name == 'circus.util':
                continue
            m = mutator_nodes(ctx, f, with_options=True)
            if m:
                bad = (f, m[0], ctx.cg.chain(seen, key))
                break
        run.check('R3', bad is None, "command '%s' changes supervisor state only inside "
                  "@synchronized functions" % nm, bad[0] if bad else e,
                  bad[1][0].ast if bad else e.node,
                  "command '%s' changes supervisor state (%s) outside the exclusive slot: it can "
                  "run concurrently with an operation in flight" % (nm, bad[1][1] if bad else ''),
                  path=bad[2] if bad else None)
    # the periodic callback
    cs = ctx.fn('circus.controller:Controller.start')
    tgt = None
    for s in ctx.sites(cs):
        if s.kind == 'ref' and any(t.key.startswith('circus.arbiter:Arbiter.') for t in s.targets):
            tgt = s.targets[0]
    if run.need('R3', [tgt] if tgt else [], 'periodic callback target', cs):
        run.check('R3', bool(tgt.synchronized), 'the periodic check takes the slot', tgt, tgt.node,
                  'the periodic check runs concurrently with requests')


def r4(run, ctx):
    run.rule('R4', 'no nested acquisition')
    n = 0
    for f in sync_functions(ctx):
        n += 1
        seen = ctx.cg.reachable([f], kinds=('call',), precise_only=True,
                                stop=lambda g: bool(g.synchronized))
        nested = [(k, v) for k, v in seen.items() if v[0].synchronized and v[0] is not f]
        if f.key == 'circus.arbiter:ThreadedArbiter.stop':
            continue
        run.check('R4', not nested, '%s does not call another @synchronized function'
                  % f.qualname, f, (nested[0][1][2].node.ast if nested else f.node),
                  '%s holds the slot and calls %s, which refuses itself with ConflictError '
                  'half-way through the operation' % (
                      f.qualname, nested[0][1][0].qualname if nested else ''),
                  path=ctx.cg.chain(seen, nested[0][0]) if nested else None)
    run.count('R4', n, 10, '@synchronized functions')


def r5(run, ctx):
    run.rule('R5', 'the refusal reaches dispatch and is mapped')
    cmds = _commands(ctx)
    n = 0
    for nm, e in sorted(cmds.items()):
        for s in ctx.sites(e):
            if s.kind == 'call' and any(t.synchronized for t in s.targets):
                n += 1
                swallowed = False
                for t in ast.walk(e.node):
                    if isinstance(t, ast.Try) and any(sub is s.call for st in t.body
                                                      for sub in ast.walk(st)):
                        for h in t.handlers:
                            names = ['*'] if h.type is None else [
                                (dotted(x) or '').split('.')[-1] for x in
                                (h.type.elts if isinstance(h.type, ast.Tuple) else [h.type])]
                            if set(names) & {'*', 'Exception', 'BaseException', 'ConflictError'}:
                                swallowed = True
                run.check('R5', not swallowed, "'%s' lets the ConflictError propagate to dispatch"
                          % nm, e, s.node.ast, "'%s' swallows the conflict refusal" % nm)
    run.count('R5', n, 8, 'synchronized calls made by commands')
    d = ctx.fn('circus.controller:Controller.dispatch')
    # in the handler that catches ConflictError, the errno handed to send_error when the
    # exception is a ConflictError (and none of the other classes tested there)
    from sa.dataflow import reaching_defs
    from sa.idioms import nodes_within
    rd = reaching_defs(ctx, d)
    dcfg = ctx.cfg(d)

    def is_conflict(e, var=None):
        if isinstance(e, ast.Call) and dotted(e.func) == 'isinstance' and len(e.args) == 2 and \
                isinstance(e.args[0], ast.Name) and e.args[0].id == var:
            return norm_text(e.args[1]).split('.')[-1] == 'ConflictError'
        return None
    okm = False
    for t in ast.walk(d.node):
        if isinstance(t, ast.ExceptHandler) and t.type is not None and \
                'ConflictError' in norm_text(t.type):
            vals = set()
            for n in nodes_within(dcfg, t.body):
                for c in n.calls():
                    if astq.call_last(c) == 'send_error':
                        kw = astq.kwarg(c, 'errno')
                        if kw is None:
                            vals.add('<default>')
                            continue
                        for a in rd.expand(n, kw):
                            if rd.feasible(a, lambda e, v=t.name: is_conflict(e, v)):
                                vals.add(a.text())
            okm = vals == {'errors.COMMAND_ERROR'}
    run.check('R5', okm, 'dispatch maps ConflictError to errno COMMAND_ERROR', d, d.node)
    # two consecutive synchronized calls in one execute are not separated by a suspension
    for nm, e in sorted(cmds.items()):
        if e.is_coroutine and any(t.synchronized for s in ctx.sites(e) for t in s.targets):
            run.fail('R5', e, e.node, "'%s' is a coroutine that takes the slot: the refusal would "
                     "be asynchronous" % nm)


def r6(run, ctx):
    run.rule('R6', '_restarting is reset')
    f = ctx.fn('circus.arbiter:Arbiter.start')
    cfg = ctx.cfg(f)
    reset = ctx.direct_nodes(f, ev_setattr('_restarting', False))
    sw = ctx.nodes_calling(f, ['circus.arbiter:Arbiter.start_watchers'])
    if run.need('R6', reset, '_restarting = False in Arbiter.start', f,
                'after an in-daemon restart every request is refused with "arbiter is '
                'restarting"') and run.need('R6', sw, 'start_watchers call in Arbiter.start', f):
        for n in sw:
            run.check('R6', cfg.dominates(reset, n), '_restarting is cleared before the watchers '
                      'are started (start_watchers is @synchronized)', f, n.ast)
    init = ctx.fn('circus.arbiter:Arbiter.__init__')
    txt = norm_text(init.node)
    run.check('R6', 'self._exclusive_running_command = None' in txt and
              'self._restarting = False' in txt, 'the slot starts free', init, init.node)


def r7(run, ctx):
    from rules import c02
    run.share(ctx, c02.r3, 'R3', 'R7', 'no kill/stop/restart coroutine is started and dropped '
              '(shared with C02 R3): the enclosing exclusive operation would complete - and free '
              'the slot - while the dropped coroutine is still changing the process set')
