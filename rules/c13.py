"""C13 - each worker runs exactly the configured command line, environment, directory."""
import ast
import re
import re._parser as sre_parse

from sa import astq
from sa.astq import norm_text, affine
from sa.idioms import guarded, reach_under, attr_truth, combine, none_test
from sa.project import dotted, walk_local, AnalysisError

EXPLANATION = (
    "Dataflow from configuration to execve decided on def-use chains and "
    "expression structure: R1 keyword agreement - every Process(...) keyword in "
    "spawn_process is the watcher attribute of the same name (listed "
    "exceptions), Process.__init__ stores each under the same name, and Popen "
    "gets args<-format_args, cwd<-working_dir, env<-env, shell, executable; R2 "
    "argument boundaries in format_args - string args go through shlex.split "
    "after substitution, list args are substituted element-wise and never split "
    "or joined, cmd is substituted then split, argv = cmd words followed by "
    "args, and with shell the single string quotes every word; R3 the "
    "substitution table carries wid=self.wid, env, sockets and the watcher "
    "options, and the wid passed is recovery_wid or _nextwid; R4 the variable "
    "pattern is an alternation of $(circus.NAME) and ((circus.NAME)) over one "
    "name class, compiled IGNORECASE, keys and looked-up names are lower-cased "
    "and an unknown reference is returned verbatim; R5 environment assembly in "
    "Watcher.__init__ (copy_env: os.environ copy, then PYTHONPATH, then env; "
    "otherwise exactly env); R6 _nextwid draws the smallest id >= 1 not used by "
    "any tracked process. Decides these necessary conditions, not quoting round "
    "trips over all strings.")
ASSUMPTIONS = ["posix platform", "regex structure read with re._parser (stdlib)"]

W = 'circus.watcher:Watcher.'
P = 'circus.process:Process.'


def check(run, ctx):
    run.each(ctx, [r1, r2, r3, r4, r5, r6, r7, r8])


def r7(run, ctx):
    from rules import c04
    run.share(ctx, c04.r2, 'R2', 'R7', 'a worker id stays reserved as long as its worker lives '
              '(shared with C04 R2): _nextwid only sees tracked workers, so untracking a live one '
              'hands its id to the next spawn')


KW_EXCEPTIONS = {
    'use_fds': 'self.use_sockets',     # the watcher option is called use_sockets
    'watcher': 'self',
    'pipe_stdout': None, 'pipe_stderr': None,   # derived from stream presence
}


def r1(run, ctx):
    run.rule('R1', 'keyword agreement Watcher -> Process -> Popen')
    f = ctx.fn(W + 'spawn_process')
    sites = ctx.sites_calling(f, [P + '__init__'])
    if not run.need('R1', sites, 'Process(...) construction in spawn_process', f):
        return
    init = ctx.fn(P + '__init__')
    params = [a.arg for a in init.node.args.args][1:]
    n = 0
    for s in sites:
        c = s.call
        run.check('R1', len(c.args) >= 3 and norm_text(c.args[0]) == 'self.name',
                  'the process is named after the watcher', f, s.node.ast)
        cmdarg = c.args[2] if len(c.args) > 2 else astq.kwarg(c, 'cmd')
        okc = False
        if isinstance(cmdarg, ast.Name):
            for a in walk_local(f.node):
                if isinstance(a, ast.Assign) and any(isinstance(t, ast.Name) and t.id == cmdarg.id
                                                     for t in a.targets):
                    v = a.value
                    okc = isinstance(v, ast.Call) and astq.call_last(v) == 'replace_gnu_args' and \
                        norm_text(v.args[0]) == 'self.cmd'
        elif cmdarg is not None:
            okc = norm_text(cmdarg) == 'self.cmd'
        run.check('R1', okc, "the command is the watcher's cmd (pre-expanded with its env)", f,
                  s.node.ast, 'the worker is started with a command other than the configured cmd')
        for k in c.keywords:
            if k.arg is None:
                continue
            n += 1
            want = 'self.' + k.arg
            if k.arg in KW_EXCEPTIONS:
                if KW_EXCEPTIONS[k.arg] is None:
                    continue
                want = KW_EXCEPTIONS[k.arg]
            run.check('R1', norm_text(k.value) == want, "Process(%s=) receives %s" % (k.arg, want),
                      f, s.node.ast, "the worker's %s is %s instead of the configured %s"
                      % (k.arg, norm_text(k.value), want),
                      construct='Process(%s=%s)' % (k.arg, norm_text(k.value)))
        given = {k.arg for k in c.keywords}
        for must in ('args', 'working_dir', 'shell', 'uid', 'gid', 'env', 'rlimits',
                     'executable', 'use_fds'):
            run.check('R1', must in given, 'Process receives %s' % must, f, s.node.ast,
                      'the configured %s is not handed to the worker' % must,
                      construct='Process missing %s' % must)
    run.count('R1', n, 8, 'keywords of Process(...)')
    # Process.__init__ stores params under the same name
    stored = {}
    for st in walk_local(init.node):
        if isinstance(st, ast.Assign) and len(st.targets) == 1 and \
                isinstance(st.targets[0], ast.Attribute) and dotted(st.targets[0].value) == 'self':
            stored.setdefault(st.targets[0].attr, []).append(st.value)
    for p_ in ('cmd', 'args', 'working_dir', 'shell', 'env', 'executable', 'wid'):
        vals = stored.get(p_, [])
        ok = bool(vals) and all(p_ in astq.names_in(v) for v in vals)
        run.check('R1', ok, 'Process.%s is the constructor argument' % p_, init, init.node,
                  'Process.%s is not what the watcher passed' % p_, construct='Process.%s' % p_)
    wd = stored.get('working_dir', [])
    run.check('R1', wd and norm_text(wd[0]) in ('working_dir or get_working_dir()', 'working_dir'),
              'working_dir falls back to the current directory only when unset', init, init.node)
    ev = stored.get('env', [])
    run.check('R1', ev and norm_text(ev[0]) in ('env or {}', 'env'), 'env falls back to an empty '
              'mapping only when unset', init, init.node)
    # Popen keywords
    sp = ctx.fn(P + 'spawn')
    pop = [(n_, c) for n_ in ctx.live_nodes(sp) for c in n_.calls() if astq.call_last(c) == 'Popen']
    if not run.need('R1', pop, 'Popen call', sp):
        return
    n_, c = pop[0]
    for kw, want in (('cwd', 'self.working_dir'), ('env', 'self.env'), ('shell', 'self.shell'),
                     ('executable', 'self.executable')):
        v = astq.kwarg(c, kw)
        run.check('R1', v is not None and norm_text(v) == want, 'Popen(%s=%s)' % (kw, want), sp,
                  n_.ast, 'the worker is executed with %s=%s instead of %s'
                  % (kw, norm_text(v) if v is not None else 'default', want),
                  construct='Popen %s' % kw)
    a0 = c.args[0] if c.args else None
    # the executed vector is exactly what format_args returned: every definition of the
    # argument reaching the Popen call is a format_args(...) call (directly or through a local)
    from sa.dataflow import reaching_defs
    alts = reaching_defs(ctx, sp).expand(n_, a0) if a0 is not None else []
    oka = bool(alts) and all(isinstance(a.expr, ast.Call) and
                             norm_text(a.expr.func) == 'self.format_args' for a in alts)
    run.check('R1', oka, 'Popen executes the vector built by format_args', sp, n_.ast)
    # nothing rewrites the vector between format_args and Popen (in-place edits of the local)
    edits = [x for x in ctx.live_nodes(sp) if isinstance(a0, ast.Name) and any(
        isinstance(cc.func, ast.Attribute) and isinstance(cc.func.value, ast.Name) and
        cc.func.value.id == a0.id and cc.func.attr in ('append', 'extend', 'insert', 'pop',
                                                       'remove', 'sort', 'reverse', 'clear')
        for cc in x.calls())]
    edits += [x for x in ctx.live_nodes(sp) if isinstance(a0, ast.Name) and x.kind == 'stmt' and
              isinstance(x.ast, (ast.Assign, ast.AugAssign, ast.Delete)) and any(
                  isinstance(t, ast.Subscript) and isinstance(t.value, ast.Name) and
                  t.value.id == a0.id for t in astq.attr_targets(x.ast))]
    run.check('R1', not edits, 'the vector is not modified after it was built', sp, n_.ast)


def _assigns_to(f, name):
    return [a for a in walk_local(f.node) if isinstance(a, (ast.Assign, ast.AugAssign)) and any(
        isinstance(t, ast.Name) and t.id == name for t in astq.attr_targets(a))]


def _is_fk(call):
    """call(..., **format_kwargs)"""
    return any(k.arg is None and norm_text(k.value) == 'format_kwargs' for k in call.keywords)


def _classify_argv(e):
    """Shape of one expansion of the returned vector ->
    (shell?, 'none'|'str'|'list', problem or None)."""
    def cmd_words(x):
        if isinstance(x, ast.Call) and dotted(x.func) == 'shlex.split' and x.args:
            a = x.args[0]
            px = astq.kwarg(x, 'posix')
            if px is not None and norm_text(px) not in ('not IS_WINDOWS', 'True'):
                return 'the command is not split by POSIX shell rules'
            if isinstance(a, ast.Call) and astq.call_last(a) == 'replace_gnu_args' and a.args \
                    and norm_text(a.args[0]) == 'self.cmd' and _is_fk(a):
                return True
            return 'the command line is split before / without variable substitution'
        return None

    def str_args(x):
        return isinstance(x, ast.Call) and dotted(x.func) == 'shlex.split' and x.args and \
            isinstance(x.args[0], ast.Call) and astq.call_last(x.args[0]) == 'replace_gnu_args' \
            and x.args[0].args and norm_text(x.args[0].args[0]) == 'self.args' and \
            _is_fk(x.args[0])

    def list_args(x):
        return isinstance(x, ast.ListComp) and len(x.generators) == 1 and \
            norm_text(x.generators[0].iter) == 'self.args' and not x.generators[0].ifs and \
            isinstance(x.elt, ast.Call) and astq.call_last(x.elt) == 'replace_gnu_args' and \
            x.elt.args and isinstance(x.elt.args[0], ast.Name) and \
            x.elt.args[0].id == norm_text(x.generators[0].target) and _is_fk(x.elt)

    def base(x):
        c = cmd_words(x)
        if c is True:
            return 'none', None
        if isinstance(c, str):
            return None, c
        if isinstance(x, ast.BinOp) and isinstance(x.op, ast.Add):
            c = cmd_words(x.left)
            if c is True:
                if str_args(x.right):
                    return 'str', None
                if list_args(x.right):
                    return 'list', None
                return None, 'the arguments are re-split, joined, filtered or not substituted'
            if isinstance(c, str):
                return None, c
            return None, 'the command words do not come first'
        return None, 'unrecognised argv construction'

    def shell(x):
        # [' '.join(quote(a) for a in <base>)] (+ shell_args words)
        if isinstance(x, ast.BinOp) and isinstance(x.op, ast.Add):
            inner = shell(x.left)
            if inner is not None:
                return inner
        if isinstance(x, ast.List) and len(x.elts) == 1 and isinstance(x.elts[0], ast.Call) and \
                norm_text(x.elts[0].func) == "' '.join" and x.elts[0].args and \
                isinstance(x.elts[0].args[0], (ast.GeneratorExp, ast.ListComp)):
            g = x.elts[0].args[0]
            quoted = isinstance(g.elt, ast.Call) and dotted(g.elt.func) in ('quote', 'shlex.quote') \
                and len(g.generators) == 1 and not g.generators[0].ifs and \
                norm_text(g.elt.args[0]) == norm_text(g.generators[0].target)
            kind, prob = base(g.generators[0].iter)
            if not quoted:
                prob = prob or 'shell command string is built without quoting every word'
            return kind, prob
        return None
    sh = shell(e)
    if sh is not None:
        return True, sh[0], sh[1]
    kind, prob = base(e)
    return False, kind, prob


def r2(run, ctx):
    run.rule('R2', 'argument boundaries in format_args')
    from sa.dataflow import reaching_defs
    f = ctx.fn(P + 'format_args')
    cfg = ctx.cfg(f)
    rd = reaching_defs(ctx, f)
    rets = [n for n in ctx.live_nodes(f) if n.kind == 'stmt' and isinstance(n.ast, ast.Return)
            and n.ast.value is not None]
    if not run.need('R2', rets, 'format_args returns the built vector', f):
        return

    def is_str_args(e):
        if isinstance(e, ast.Call) and dotted(e.func) == 'isinstance' and \
                norm_text(e.args[0]) == 'self.args' and norm_text(e.args[1]) == 'str':
            return True
        return None

    def has_args(e):
        r = none_test(e, 'self.args')
        return None if r is None else (not r)

    def assume(pred, value):
        def a(e):
            r = pred(e)
            return None if r is None else (r == value)
        return a
    kinds = set()
    n_alt = 0
    for ret in rets:
        for alt in rd.expand(ret, ret.ast.value, stop=('format_kwargs',)):
            n_alt += 1
            is_shell, kind, prob = _classify_argv(alt.expr)
            site = alt.used[0].ast if alt.used else ret.ast
            if prob or kind is None:
                run.fail('R2', f, site, '%s: argv can be %s' % (prob or 'unrecognised argv',
                                                                alt.text()[:200]),
                         construct='argv shape: %s' % (prob or 'unrecognised'))
                continue
            run.ok('R2', 'argv shape %s%s is well formed' % ('shell+' if is_shell else '', kind),
                   f.where(site))
            kinds.add((is_shell, kind))
            # each shape only under its own condition
            run.check('R2', not rd.feasible(alt, attr_truth('shell', not is_shell)),
                      'words are quoted and joined exactly when shell is set (%s)' % kind, f, site,
                      'the %s form of argv can be used %s shell' % (
                          'quoted' if is_shell else 'plain', 'without' if is_shell else 'with'),
                      construct='shell form %s/%s' % (is_shell, kind))
            run.check('R2', not rd.feasible(alt, assume(has_args, kind == 'none')),
                      'args are appended exactly when given (%s)' % kind, f, site,
                      construct='args presence %s/%s' % (is_shell, kind))
            if kind in ('str', 'list'):
                run.check('R2', not rd.feasible(alt, assume(is_str_args, kind != 'str')),
                          'string args are shlex-split, list args kept element by element (%s)'
                          % kind, f, site, 'a %s `args` is handled by the %s branch' % (
                              'list' if kind == 'str' else 'string', kind),
                          construct='args type %s/%s' % (is_shell, kind))
    run.count('R2', n_alt, 6, 'argv expansions')
    for want in [(False, 'none'), (False, 'str'), (False, 'list'),
                 (True, 'none'), (True, 'str'), (True, 'list')]:
        run.need('R2', [1] if want in kinds else [], 'argv shape %s%s' % (
            'shell+' if want[0] else '', want[1]), f)
    # no whitespace splitting anywhere on the way
    for n in ctx.live_nodes(f):
        for c in n.calls():
            if astq.call_last(c) == 'split' and dotted(c.func) != 'shlex.split':
                run.fail('R2', f, n.ast, 'arguments are split on whitespace instead of by shell '
                         'quoting rules')


def r3(run, ctx):
    run.rule('R3', 'substitution inputs')
    f = ctx.fn(P + 'format_args')
    fk = None
    for a in walk_local(f.node):
        if isinstance(a, ast.Assign) and isinstance(a.value, ast.Dict) and any(
                isinstance(t, ast.Name) and t.id == 'format_kwargs' for t in a.targets):
            fk = a.value
    if fk is None:
        raise AnalysisError('C13 R3: format_kwargs dict not found')
    tab = {astq.const_value(k): norm_text(v) for k, v in zip(fk.keys, fk.values)}
    run.check('R3', tab.get('wid') == 'self.wid', "$(circus.wid) is this worker's id", f, fk,
              "the wid substituted is %s" % tab.get('wid'))
    run.check('R3', 'env' in tab, '$(circus.env.X) is available', f, fk)
    envsrc = tab.get('env')
    oke = envsrc in ('self.env', 'current_env')
    if envsrc == 'current_env':
        for a in _assigns_to(f, 'current_env'):
            oke = 'self.env' in norm_text(a.value)
    run.check('R3', oke, "the env table is the worker's environment", f, fk)
    txt = norm_text(f.node)
    run.check('R3', astq.has_pattern(txt, "$k['sockets'] = sockets_fds"), 'sockets are available', f, fk)
    loops = [n for n in ast.walk(f.node) if isinstance(n, ast.For) and
             norm_text(n.iter) == 'self.watcher.optnames']
    run.check('R3', bool(loops) and astq.has_pattern(
        ' '.join(norm_text(x) for x in (loops[0].body if loops else [])),
        '$k[$o] = getattr(self.watcher, $o)'),
              'every watcher option is available', f, fk)
    sp = ctx.fn(W + 'spawn_process')
    for s in ctx.sites_calling(sp, [P + '__init__']):
        w = s.call.args[1] if len(s.call.args) > 1 else astq.kwarg(s.call, 'wid')
        run.check('R3', w is not None and norm_text(w) == 'recovery_wid or self._nextwid',
                  'the wid is the recovered one or the next free one', sp, s.node.ast,
                  'workers get wid %s' % (norm_text(w) if w is not None else 'none'))


def _regex_struct(pattern, flags):
    p = sre_parse.parse(pattern, flags)
    return p


def _const_str(ctx, mod, node, depth=0):
    """Evaluate a module-level string expression built with % and + from
    constants and other module-level names."""
    if depth > 6:
        return None
    if isinstance(node, ast.Constant) and isinstance(node.value, str):
        return node.value
    if isinstance(node, ast.Name) and node.id in mod.assigns:
        return _const_str(ctx, mod, mod.assigns[node.id], depth + 1)
    if isinstance(node, ast.JoinedStr):
        out = ''
        for v in node.values:
            if isinstance(v, ast.Constant):
                out += str(v.value)
            elif isinstance(v, ast.FormattedValue) and v.format_spec is None and \
                    v.conversion in (-1, ord('s')):
                part = _const_str(ctx, mod, v.value, depth + 1)
                if part is None:
                    return None
                out += part
            else:
                return None
        return out
    if isinstance(node, ast.BinOp) and isinstance(node.op, ast.Add):
        l, r = _const_str(ctx, mod, node.left, depth + 1), _const_str(ctx, mod, node.right, depth + 1)
        return None if l is None or r is None else l + r
    if isinstance(node, ast.BinOp) and isinstance(node.op, ast.Mod):
        l = _const_str(ctx, mod, node.left, depth + 1)
        if l is None:
            return None
        r = node.right
        if isinstance(r, ast.Tuple):
            vals = tuple(_const_str(ctx, mod, e, depth + 1) for e in r.elts)
        else:
            vals = (_const_str(ctx, mod, r, depth + 1),)
        if any(v is None for v in vals):
            return None
        try:
            return l % vals
        except Exception:
            return None
    return None


def r4(run, ctx):
    run.rule('R4', 'substitution language structure')
    mod = ctx.p.mod('circus.util')
    cv = mod.assigns.get('_CIRCUS_VAR')
    if not (isinstance(cv, ast.Call) and dotted(cv.func) == 're.compile'):
        raise AnalysisError('C13 R4: _CIRCUS_VAR = re.compile(...) not found')
    pat = _const_str(ctx, mod, cv.args[0])
    if pat is None:
        raise AnalysisError('C13 R4: cannot evaluate the _CIRCUS_VAR pattern statically')
    flags = norm_text(cv.args[1]) if len(cv.args) > 1 else ''
    run.check('R4', flags in ('re.I', 're.IGNORECASE'), 'variable references are matched '
              'case-insensitively', None, '_CIRCUS_VAR flags',
              'references in another letter case are not recognised (flags: %s)' % flags)
    run.extra['circus_var_pattern'] = pat
    tree = sre_parse.parse(pat, re.I)
    branches = None
    for op, av in tree:
        if str(op) == 'BRANCH':
            branches = av[1]
    ok = branches is not None and len(branches) == 2

    def lits(seq):
        out = ''
        for op, av in seq:
            if str(op) == 'LITERAL':
                out += chr(av)
            elif str(op) == 'SUBPATTERN':
                out += '<G>'
        return out

    def group_class(seq):
        for op, av in seq:
            if str(op) == 'SUBPATTERN':
                inner = av[3]
                for op2, av2 in inner:
                    if str(op2) in ('MAX_REPEAT', 'MIN_REPEAT'):
                        lo, hi, item = av2
                        return (lo, repr(list(item)))
        return None
    if ok:
        a, b = lits(branches[0]), lits(branches[1])
        forms = {a, b}
        run.check('R4', forms == {'$(circus.<G>)', '((circus.<G>))'},
                  'the two reference syntaxes are $(circus.NAME) and ((circus.NAME))', None,
                  '_CIRCUS_VAR', 'the pattern recognises %s' % sorted(forms))
        ga, gb = group_class(branches[0]), group_class(branches[1])
        run.check('R4', ga is not None and ga == gb and ga[0] >= 1, 'both syntaxes accept the same '
                  'non-empty name class', None, '_CIRCUS_VAR')
    else:
        run.fail('R4', None, '_CIRCUS_VAR', 'the pattern is not an alternation of the two '
                 'documented reference syntaxes: %r' % pat)
    f = ctx.fn('circus.util:replace_gnu_args')
    txt = norm_text(f.node)
    from sa.dataflow import reaching_defs

    def all_lowered(expr, names):
        """every occurrence of the given variables in expr is `<v>.lower()`"""
        lowered = set()
        for x in ast.walk(expr):
            if isinstance(x, ast.Call) and isinstance(x.func, ast.Attribute) and \
                    x.func.attr == 'lower' and isinstance(x.func.value, ast.Name):
                lowered.add(id(x.func.value))
        return all(id(x) in lowered for x in ast.walk(expr)
                   if isinstance(x, ast.Name) and x.id in names)
    rdf = reaching_defs(ctx, f)
    loopvars = set()
    for h in ctx.cfg(f).nodes:
        if h.kind == 'iter':
            tg = h.ast.target
            first = tg.elts[0] if isinstance(tg, ast.Tuple) and tg.elts else tg
            if isinstance(first, ast.Name):
                loopvars.add(first.id)
    stores = [n for n in ctx.live_nodes(f) if n.kind == 'stmt' and isinstance(n.ast, ast.Assign) and
              isinstance(n.ast.targets[0], ast.Subscript) and
              norm_text(n.ast.targets[0].value) == 'fmt_options']
    if run.need('R4', stores, 'fmt_options[<key>] = <value> in replace_gnu_args', f):
        for n in stores:
            alts = rdf.expand(n, n.ast.targets[0].slice)
            run.check('R4', all(all_lowered(a.expr, loopvars) and
                                any(isinstance(x, ast.Name) and x.id in loopvars
                                    for x in ast.walk(a.expr)) for a in alts),
                      'option keys are lower-cased', f, n.ast,
                      'option names are compared case-sensitively')
    rp = ctx.fn('circus.util:replace_gnu_args._repl')
    rdr = reaching_defs(ctx, rp)
    look = [n for n in ctx.cfg(rp).nodes if n.kind == 'test' and
            'fmt_options' in norm_text(n.ast)]
    lv = {h.ast.target.id for h in ctx.cfg(rp).nodes if h.kind == 'iter' and
          isinstance(h.ast.target, ast.Name)}
    run.check('R4', bool(look), 'a reference is resolved by membership in the variable table',
              rp, rp.node, 'the substitution does not test whether the referenced name is a '
              'defined variable (a truthiness test of the value treats a variable defined as '
              "'' / 0 / False as undefined and leaves the reference unexpanded)",
              construct='NO-MEMBERSHIP-LOOKUP')
    oklow = True
    for n in look:
        if isinstance(n.ast, ast.Compare):
            for a in rdr.expand(n, n.ast.left):
                if isinstance(a.expr, ast.Constant):
                    continue          # the "no group matched" initial value
                oklow = oklow and all_lowered(a.expr, lv)
    run.check('R4', oklow, 'the referenced name is lower-cased', rp,
              rp.node, 'references are looked up case-sensitively')
    cfg = ctx.cfg(rp)
    rets = [n for n in ctx.live_nodes(rp) if n.kind == 'stmt' and isinstance(n.ast, ast.Return)]
    known = [n for n in rets if 'fmt_options[option]' in norm_text(n.ast)]
    unk = [n for n in rets if norm_text(n.ast.value) in ('matchobj.group()', 'matchobj.group(0)')]
    run.check('R4', len(known) == 1 and len(unk) == 1 and len(rets) == 2,
              'a known variable is replaced by its value, anything else is returned verbatim',
              rp, rp.node, 'unknown references are not left verbatim')
    for n in known:
        run.check('R4', guarded(cfg, n, lambda e: True if norm_text(e) == 'option in fmt_options'
                                else None, True) and norm_text(n.ast.value) == 'str(fmt_options[option])',
                  'the replacement is str(value)', rp, n.ast)
    frets = [x for x in walk_local(f.node) if isinstance(x, ast.Return)]
    fr_nodes = [n for n in ctx.live_nodes(f) if n.kind == 'stmt' and isinstance(n.ast, ast.Return)
                and n.ast.value is not None]
    sub_alts = [a for n in fr_nodes for a in rdf.expand(n, n.ast.value, stop=('match',))]
    run.check('R4', len(frets) == 1 and bool(sub_alts) and all(
        isinstance(a.expr, ast.Call) and astq.call_last(a.expr) == 'sub' and
        [norm_text(x) for x in a.expr.args] == ['_repl', 'data'] and not a.expr.keywords
        for a in sub_alts), 'every occurrence is substituted', f,
        frets[0] if frets else f.node)
    run.check('R4', "elif prefix == 'circus': match = _CIRCUS_VAR" in txt or
              "match = _CIRCUS_VAR" in txt, 'the circus prefix uses the precompiled pattern', f, f.node)


def r5(run, ctx):
    run.rule('R5', 'environment assembly in Watcher.__init__')
    f = ctx.fn(W + '__init__')
    cfg = ctx.cfg(f)
    envw = [n for n in ctx.live_nodes(f) if n.kind == 'stmt' and isinstance(n.ast, ast.Assign) and
            any(isinstance(t, ast.Attribute) and t.attr == 'env' and dotted(t.value) == 'self'
                for t in n.ast.targets)]
    run.count('R5', len(envw), 2, 'assignments of Watcher.env')
    ce = lambda v: (lambda e: v if norm_text(e) == 'self.copy_env' else None)
    copyb = [n for n in envw if guarded(cfg, n, ce(True), True)]
    plain = [n for n in envw if guarded(cfg, n, ce(True), False)]
    if run.need('R5', copyb, 'copy_env branch', f) and run.need('R5', plain, 'non-copy branch', f):
        for n in copyb:
            run.check('R5', norm_text(n.ast.value) in ('os.environ.copy()', 'dict(os.environ)'),
                      "with copy_env the base is a copy of the daemon's environment", f, n.ast)
        for n in plain:
            run.check('R5', norm_text(n.ast.value) == 'env', 'without copy_env the environment is '
                      'exactly the configured env', f, n.ast,
                      'without copy_env the worker environment is %s' % norm_text(n.ast.value))
        # layering order in the copy branch: copy -> PYTHONPATH -> update(env)
        upd = [n for n in ctx.live_nodes(f) if any(
            astq.call_last(c) == 'update' and norm_text(c.func.value) == 'self.env' and
            c.args and norm_text(c.args[0]) == 'env' for c in n.calls())]
        pp = [n for n in ctx.live_nodes(f) if n.kind == 'stmt' and isinstance(n.ast, ast.Assign) and
              "self.env['PYTHONPATH']" in norm_text(n.ast.targets[0])]
        if run.need('R5', upd, 'self.env.update(env)', f,
                    'with copy_env the configured env is not applied'):
            for u in upd:
                run.check('R5', cfg.dominates(copyb, u) and guarded(cfg, u, ce(True), True),
                          'the configured env is layered over the copied environment', f, u.ast)
                for p_ in pp:
                    run.check('R5', not cfg.reachable(u, p_), 'the configured env is applied last '
                              '(it wins over PYTHONPATH from copy_path)', f, u.ast,
                              'copy_path overrides a PYTHONPATH given in env')
        for p_ in pp:
            run.check('R5', guarded(cfg, p_, lambda e: True if norm_text(e) == 'self.copy_path'
                                    else None, True), 'PYTHONPATH is injected only with copy_path',
                      f, p_.ast)
    cp = lambda e: True if norm_text(e) == 'self.copy_path' else None
    rs = [n for n in ctx.live_nodes(f) if n.kind == 'stmt' and isinstance(n.ast, ast.Raise) and
          guarded(cfg, n, cp, True) and guarded(cfg, n, ce(True), False)]
    run.check('R5', bool(rs), 'copy_path without copy_env '
              'is refused', f, rs[0].ast if rs else f.node)
    # nothing else rewrites env afterwards except virtualenv loading
    later = [n for n in ctx.live_nodes(f) if n.kind == 'stmt' and any(
        isinstance(t, ast.Subscript) and norm_text(t.value) == 'self.env'
        for t in astq.attr_targets(n.ast)) and n not in pp]
    run.check('R5', not later, 'no other key is injected into the environment', f,
              later[0].ast if later else f.node)


def r6(run, ctx):
    run.rule('R6', 'worker ids')
    f = ctx.fn(W + '_nextwid')
    asg = {}
    for a in walk_local(f.node):
        if isinstance(a, ast.Assign) and isinstance(a.targets[0], ast.Name):
            asg[a.targets[0].id] = a.value
    rets = [n for n in ctx.live_nodes(f) if n.kind == 'stmt' and isinstance(n.ast, ast.Return)]
    if not rets:
        raise AnalysisError('C13 R6: _nextwid has no return')
    # resolve the returned expression through single assignments
    def expand(e, depth=0):
        if depth > 6:
            return e
        if isinstance(e, ast.Name) and e.id in asg:
            return expand(asg[e.id], depth + 1)
        return e
    rv = rets[0].ast.value
    ok_min = False
    pool = None
    if isinstance(rv, ast.Subscript) and astq.const_value(rv.slice, None) == 0:
        base = expand(rv.value)
        if isinstance(base, ast.Call) and dotted(base.func) == 'sorted':
            pool = base.args[0]
            ok_min = astq.kwarg(base, 'reverse') is None
    elif isinstance(rv, ast.Call) and dotted(rv.func) == 'min':
        pool = rv.args[0]
        ok_min = True
    run.check('R6', ok_min and pool is not None, 'the smallest free id is chosen', f, rets[0].ast,
              'the next wid is not the smallest free id')
    # every other way out with a value must draw from the same pool of free ids
    for other in rets[1:]:
        ov = other.ast.value
        drawn = None
        if isinstance(ov, ast.Subscript):
            b_ = expand(ov.value)
            if isinstance(b_, ast.Call) and dotted(b_.func) in ('sorted', 'list') and b_.args:
                drawn = b_.args[0]
        elif isinstance(ov, ast.Call) and dotted(ov.func) in ('min', 'max') and ov.args:
            drawn = ov.args[0]
        run.check('R6', drawn is not None and pool is not None and
                  norm_text(expand(drawn)) == norm_text(expand(pool)),
                  'every id handed out is drawn from the free ids', f, other.ast,
                  '_nextwid has a way out (%s) whose value is not drawn from the ids no tracked '
                  'worker uses: two live workers can get the same wid' % norm_text(other.ast),
                  construct='wid not drawn from the free pool')
    used = allw = None
    if isinstance(pool, ast.BinOp) and isinstance(pool.op, ast.Sub):
        allw, used = expand(pool.left), expand(pool.right)
    okd = used is not None and 'self.processes.values()' in norm_text(used) and \
        '.wid' in norm_text(used) and not any(isinstance(x, ast.comprehension) and x.ifs
                                              for x in ast.walk(used))
    run.check('R6', okd, 'ids in use are collected over all tracked processes', f, rets[0].ast,
              'a live worker\'s wid can be handed out again (used set: %s)'
              % (norm_text(used) if used is not None else '?'))
    okr = False
    if allw is not None:
        for x in ast.walk(allw):
            if isinstance(x, ast.Call) and dotted(x.func) == 'range' and len(x.args) >= 2:
                lo = astq.const_value(x.args[0], None)
                hi = affine(x.args[1], {'self.numprocesses': 'NP'})
                okr = lo == 1 and hi is not None and hi.get('NP', 0) >= 1
    run.check('R6', okr, 'candidate ids start at 1 and cover at least numprocesses', f,
              rets[0].ast, 'worker ids do not start at 1 / do not cover the target count')
    run.check('R6', any(t == 'property' for t, _ in f.decorators), '_nextwid is evaluated at each '
              'spawn', f, f.node)


def r8(run, ctx):
    from rules import c09
    run.share(ctx, c09.r2, 'R2', 'R8', 'reap_process untracks a worker only when it has '
              'collected it (shared with C09 R2: no way out of reap_process between the removal '
              'of the pid and the reap event): a worker dropped from the table while alive frees '
              'its wid, and _nextwid hands it to the next spawn - two live workers with one id')
