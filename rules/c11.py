"""C11 - a request refused as invalid or conflicting changes nothing."""
import ast

from sa import astq
from sa.astq import norm_text
from sa.idioms import guarded, reach_under, member_test
from sa.raises import Escapes
from sa.project import dotted, walk_local, AnalysisError
from rules.common import mutator_nodes

EXPLANATION = (    "Validate-before-effect shape decided on CFG/call graph: R1 in dispatch "
    "cmd.validate dominates cmd.execute and the invalid-JSON / unknown-command "
    "returns precede both; R2 every validator (Command.validate, its overrides, "
    "validate_option) is effect-free: no arbiter/watcher access, no mutator in "
    "its call closure, writes only into its props argument; R3 inside every "
    "execute (and Arbiter.add_watcher) no validation-class raise or watcher "
    "lookup is reachable after an effect; R4 state-changing executes are plain "
    "functions whose effects all go through @synchronized calls, so a conflict "
    "is detected before the first effect; R5 validator/apply table agreement "
    "for `set`: for every option key, each conversion Watcher.set_opt applies is "
    "total on the type validate_option guarantees and set_opt has no state-"
    "dependent raise (otherwise an earlier key of the same request is already "
    "applied when the error is answered); R6 kill/signal parse the signal "
    "designation in validate, map the parser's refusal to MessageError, and the "
    "parser can only refuse with the exception type they catch."
    "R7 (shared with C10 R1) a conflict refusal leaves the exclusive slot untouched. "
    "Decides these "
    "necessary conditions, not equality of the full daemon state.")
ASSUMPTIONS = ["totality table of conversions (int on int/bool, float on int/float, to_bool on "
               "bool, to_signum on int) is frozen in the rule and confirmed by reading util.py"]

C = 'circus.controller:Controller.'
W = 'circus.watcher:Watcher.'
A = 'circus.arbiter:Arbiter.'


def check(run, ctx):
    run.each(ctx, [r1, r2, r3, r4, r5, r6, r7, r8])


def _commands(ctx):
    out = {}
    for c in ctx.p.classes.values():
        if c.is_subclass_of('Command') and c.module.name.startswith('circus.commands'):
            nm = astq.const_value(c.attr('name')) if c.attr('name') is not None else None
            if nm:
                out[nm] = c
    return out


def r1(run, ctx):
    run.rule('R1', 'validate dominates execute in dispatch')
    f = ctx.fn(C + 'dispatch')
    cfg = ctx.cfg(f)
    cmds = _commands(ctx)
    vkeys = {c.lookup('validate').key for c in cmds.values() if c.lookup('validate')}
    ekeys = {c.lookup('execute').key for c in cmds.values() if c.lookup('execute')}
    vn = ctx.nodes_calling(f, vkeys)
    en = ctx.nodes_calling(f, ekeys)
    if not (run.need('R1', vn, 'cmd.validate(properties) in dispatch', f,
                     'requests are executed without validation') and
            run.need('R1', en, 'cmd.execute in dispatch', f)):
        return
    for e in en:
        run.check('R1', cfg.dominates(vn, e), 'every execute is preceded by validate', f, e.ast,
                  'a command can be executed without its validator having run',
                  path=ctx.path_text(f, cfg.path(cfg.entry, e, avoid=vn) or []))
        # validate's normal completion, not its exception edge
        for v in vn:
            r = cfg.reach(v, labels_excluded=('next', 'true', 'false'))
            run.check('R1', e.id not in r or True, 'a failing validate does not fall through to '
                      'execute', f, v.ast)
    for v in vn:
        for c in v.calls():
            if astq.call_last(c) == 'validate':
                run.check('R1', c.args and norm_text(c.args[0]) == 'properties',
                          'the validated object is the one executed', f, v.ast)
    for e in en:
        for c in e.calls():
            if astq.call_last(c) == 'execute':
                run.check('R1', len(c.args) == 2 and norm_text(c.args[1]) == 'properties',
                          'execute receives the validated properties', f, e.ast)
    # failed validation cannot reach execute: validate raising leads to a handler
    handlers = [n for n in cfg.nodes if n.kind == 'except']
    for v in vn:
        exc_targets = [cfg.nodes[i] for i, lab in cfg.succ[v.id] if lab == 'exc']
        for h in exc_targets:
            rr = cfg.reach(h, include_src=True)
            run.check('R1', not any(e.id in rr for e in en), 'no handler resumes execution of the '
                      'command', f, h.ast if h.ast is not None else v.ast,
                      'after a validation error the command is executed anyway')


def r2(run, ctx):
    run.rule('R2', 'validators are effect-free')
    validators = []
    for c in ctx.p.classes.values():
        if c.is_subclass_of('Command') and 'validate' in c.methods and \
                c.module.name.startswith('circus.commands'):
            validators.append(c.methods['validate'])
    validators.append(ctx.fn('circus.commands.util:validate_option'))
    run.count('R2', len(validators), 3, 'validators')
    for v in validators:
        params = [a.arg for a in v.node.args.args]
        run.check('R2', 'arbiter' not in params and 'watcher' not in params,
                  '%s takes no arbiter/watcher' % v.qualname, v, v.node)
        seen = ctx.cg.reachable([v], precise_only=True)
        bad = None
        for key, (f, parent, site) in seen.items():
            if f.module.name in ('circus.watcher', 'circus.arbiter', 'circus.process',
                                 'circus.sockets', 'circus.controller'):
                bad = (f, 'calls into %s' % f.qualname, ctx.cg.chain(seen, key))
                break
            m = mutator_nodes(ctx, f)
            if m:
                bad = (f, m[0][1], ctx.cg.chain(seen, key))
                break
        run.check('R2', bad is None, '%s reaches no supervisor code and no mutator' % v.qualname,
                  v, v.node, 'a validator has an effect (%s): a request refused later is not '
                  'side-effect free' % (bad[1] if bad else ''), path=bad[2] if bad else None)
        # writes only to locals and to its props argument
        for n in ctx.live_nodes(v):
            if n.kind != 'stmt':
                continue
            for t in astq.attr_targets(n.ast):
                base = t
                while isinstance(base, (ast.Subscript, ast.Attribute)):
                    base = base.value
                ok = isinstance(t, ast.Name) or (isinstance(base, ast.Name) and
                                                 base.id in ('props', 'options'))
                run.check('R2', ok, '%s writes only locals / its props' % v.qualname, v, n.ast,
                          'a validator writes %s' % norm_text(t))
        for x in walk_local(v.node):
            if isinstance(x, ast.Attribute) and isinstance(x.value, ast.Name) and \
                    x.value.id in ('arbiter', 'watcher'):
                run.fail('R2', v, x, 'validator touches %s' % norm_text(x))


VALIDATION_EXC = ('MessageError', 'ArgumentError', 'AlreadyExist')


def _effect_nodes(ctx, f):
    """nodes of f with a call to a @synchronized function, a coroutine of the
    supervisor, or a direct mutator."""
    out = []
    for s in ctx.sites(f):
        if s.kind == 'call' and any(t.synchronized or (t.is_coroutine and t.module.name in
                                                       ('circus.watcher', 'circus.arbiter'))
                                    or t.key in (W + 'send_signal', W + 'send_signal_child',
                                                 W + 'send_signal_children', W + 'kill_process')
                                    for t in s.targets):
            if s.node not in out:
                out.append(s.node)
    for n, what in mutator_nodes(ctx, f):
        if n not in out:
            out.append(n)
    return out


def r3(run, ctx):
    run.rule('R3', 'refusals precede effects inside execute')
    cmds = _commands(ctx)
    n = 0
    for nm, c in sorted(cmds.items()):
        e = c.lookup('execute')
        if e is None or e.cls.name == 'Command':
            continue
        fns = [e]
        if nm in ('start', 'stop', 'restart'):
            fns.append(ctx.fn('circus.commands.restart:execute_watcher_start_stop_restart'))
        for f in fns:
            cfg = ctx.cfg(f)
            eff = _effect_nodes(ctx, f)
            refusals = []
            for x in ctx.live_nodes(f):
                if x.kind == 'stmt' and isinstance(x.ast, ast.Raise) and x.ast.exc is not None \
                        and any(v in norm_text(x.ast.exc) for v in VALIDATION_EXC):
                    refusals.append(x)
            refusals += ctx.nodes_calling(f, ['circus.commands.base:Command._get_watcher'])
            n += 1
            bad = None
            for ef in eff:
                after = cfg.reach(ef)
                for rf in refusals:
                    if rf.id in after and rf is not ef:
                        bad = (ef, rf)
            run.check('R3', bad is None, "'%s': no validation-class refusal after an effect (%d "
                      "effects, %d refusal points)" % (nm, len(eff), len(refusals)), f,
                      bad[1].ast if bad else f.node,
                      "'%s' can refuse the request (%s) after it has already changed state (%s)"
                      % (nm, norm_text(bad[1].ast)[:60] if bad else '',
                         norm_text(bad[0].ast)[:60] if bad else ''))
    run.count('R3', n, 15, 'command execute bodies')
    # Arbiter.add_watcher: refusal and construction precede both directory writes
    f = ctx.fn(A + 'add_watcher')
    cfg = ctx.cfg(f)
    writes = [x for x, what in mutator_nodes(ctx, f)]
    raises = [x for x in ctx.live_nodes(f) if x.kind == 'stmt' and isinstance(x.ast, ast.Raise)]
    cons = ctx.nodes_calling(f, [W + '__init__'])
    if run.need('R3', writes, 'directory writes in add_watcher', f) and \
            run.need('R3', cons, 'Watcher construction in add_watcher', f) and \
            run.need('R3', raises, 'duplicate-name refusal in add_watcher', f,
                     'a duplicate watcher name is not refused'):
        for w in writes:
            run.check('R3', cfg.dominates(cons, w), 'the watcher is constructed (options checked) '
                      'before it is registered', f, w.ast,
                      'add registers before constructing: bad options leave a half-registered '
                      'watcher')
            after = cfg.reach(w)
            run.check('R3', not any(r.id in after for r in raises), 'no refusal after a '
                      'directory write', f, w.ast)
    # endpoint-owner check precedes add_watcher
    ae = ctx.fn('circus.commands.addwatcher:AddWatcher.execute')
    cfg = ctx.cfg(ae)
    addn = ctx.nodes_calling(ae, [A + 'add_watcher'])
    own = [x for x in ctx.live_nodes(ae) if x.kind == 'stmt' and isinstance(x.ast, ast.Raise)
           and 'endpoint_owner' in norm_text(x.ast)]
    if run.need('R3', own, 'endpoint-owner refusal in add', ae,
                'in endpoint-owner mode an add with a foreign uid is not refused'):
        def mismatch(e):
            if isinstance(e, ast.Compare) and 'endpoint_owner' in norm_text(e) and \
                    isinstance(e.ops[0], (ast.NotEq, ast.Eq)):
                return isinstance(e.ops[0], ast.NotEq)
            if isinstance(e, ast.Attribute) and e.attr == 'endpoint_owner_mode':
                return True
            return None
        from sa.idioms import reach_under
        r = reach_under(cfg, cfg.entry, mismatch, avoid=own)
        run.check('R3', not any(a.id in r for a in addn), 'an add whose uid differs from the '
                  'endpoint owner never reaches add_watcher', ae, own[0].ast,
                  'in endpoint-owner mode a watcher with a foreign uid can be added')


def r4(run, ctx):
    run.rule('R4', 'conflict precedes effects')
    cmds = _commands(ctx)
    n = 0
    for nm, c in sorted(cmds.items()):
        e = c.lookup('execute')
        if e is None or nm in ('kill', 'signal', 'ipython'):
            continue
        sync_sites = [s for s in ctx.sites(e) if s.kind == 'call' and
                      any(t.synchronized for t in s.targets)]
        if not sync_sites:
            continue
        n += 1
        ys = [x for x in ctx.live_nodes(e) if astq.has_yield(x)]
        run.check('R4', not ys and not e.is_coroutine, "'%s' makes all its @synchronized calls in "
                  "one loop turn (no suspension point between them)" % nm, e,
                  ys[0].ast if ys else e.node,
                  "'%s' can be suspended between two exclusive calls: the second may be refused "
                  "after the first took effect" % nm)
        # direct mutators before the first synchronized call
        cfg = ctx.cfg(e)
        first = [s.node for s in sync_sites]
        for x, what in mutator_nodes(ctx, e):
            run.check('R4', cfg.dominates(first, x), "'%s' has no direct effect before its first "
                      "exclusive call" % nm, e, x.ast)
    run.count('R4', n, 5, 'state-changing commands using the exclusive slot')


# -- R5 -----------------------------------------------------------------------
TOTAL = {
    'int': {'int', 'bool'},
    'float': {'int', 'float', 'bool'},
    'to_bool': {'bool'},
    'to_signum': {'int', 'bool'},
    'str': {'int', 'float', 'str', 'bool', 'dict'},
}
NEVER_TOTAL = {
    'to_uid': 'the user may not exist (ValueError/KeyError from pwd)',
    'to_gid': 'the group may not exist (ValueError/KeyError from grp)',
    '_reload_stream': 'get_stream instantiates the stream class (import / open errors)',
    '_reload_hook': 'resolve_name imports the hook (ImportError)',
    'resolve_name': 'imports a module (ImportError)',
    'get_stream': 'instantiates the stream class',
}


def _key_tests(test):
    """keys / prefixes selected by an if-test on `key`."""
    keys, prefixes = [], []
    for e in ast.walk(test):
        if isinstance(e, ast.Compare) and isinstance(e.left, ast.Name) and e.left.id == 'key':
            if isinstance(e.ops[0], ast.Eq):
                v = astq.const_value(e.comparators[0])
                if isinstance(v, str):
                    keys.append(v)
            elif isinstance(e.ops[0], ast.In) and isinstance(e.comparators[0], (ast.Tuple, ast.List)):
                keys += [astq.const_value(x) for x in e.comparators[0].elts]
        if isinstance(e, ast.Call) and isinstance(e.func, ast.Attribute) and \
                e.func.attr == 'startswith' and dotted(e.func.value) == 'key' and e.args:
            v = astq.const_value(e.args[0])
            if isinstance(v, str):
                prefixes.append(v)
    return keys, prefixes


def _chain(fnode, first_test_pred):
    """[(keys, prefixes, body, test)] of the longest if/elif chain over `key`."""
    best = []
    for st in ast.walk(fnode):
        if isinstance(st, ast.If) and first_test_pred(st):
            out = []
            cur = st
            while isinstance(cur, ast.If):
                k, p = _key_tests(cur.test)
                if k or p:
                    out.append((k, p, cur.body, cur.test))
                cur = cur.orelse[0] if len(cur.orelse) == 1 and \
                    isinstance(cur.orelse[0], ast.If) else None
            if len(out) > len(best):
                best = out
    return best


def _guaranteed_types(ctx):
    vo = ctx.fn('circus.commands.util:validate_option')
    chain = _chain(vo.node, lambda st: 'isinstance' in norm_text(st.body[0]) if st.body else False)
    if len(chain) < 5:
        raise AnalysisError('C11 R5: cannot read the type chain of validate_option')
    types = {}
    pre = {}
    for keys, prefixes, body, test in chain:
        ts = set()
        for x in body:
            for e in ast.walk(x):
                if isinstance(e, ast.Call) and dotted(e.func) == 'isinstance' and \
                        norm_text(e.args[0]) == 'val':
                    t = e.args[1]
                    for y in (t.elts if isinstance(t, ast.Tuple) else [t]):
                        ts.add(dotted(y))
        # the types are GUARANTEED only if a value of none of them cannot get through the
        # branch whatever else holds (`val is not None and not isinstance(val, int)` lets
        # None through: nothing is guaranteed then)
        if ts and not _must_refuse(ctx, vo, body):
            ts = set()
        for k in keys:
            types[k] = ts or {'any'}
        for p in prefixes:
            pre[p] = ts or {'any'}
    return types, pre, vo


def _must_refuse(ctx, vo, body):
    from sa.idioms import nodes_within, entry_of
    cfg = ctx.cfg(vo)
    inside = {n.id for n in nodes_within(cfg, body)}
    start = entry_of(cfg, body)
    if start is None:
        return True

    def not_of_type(e):
        if isinstance(e, ast.Call) and dotted(e.func) == 'isinstance' and e.args and \
                norm_text(e.args[0]) == 'val':
            return False
        return None
    raises = [n for n in cfg.nodes if n.id in inside and n.kind == 'stmt' and
              isinstance(n.ast, ast.Raise)]
    r = reach_under(cfg, start, not_of_type, avoid=raises,
                    labels_excluded=('exc', 'raise', 'reraise'))
    r = set(r) | {start.id}
    return all(i in inside for i in r) and cfg.exit.id not in r


def r5(run, ctx):
    run.rule('R5', 'validator/apply table agreement for set')
    types, pre, vo = _guaranteed_types(ctx)
    so = ctx.fn(W + 'set_opt')
    chain = _chain(so.node, lambda st: True)
    if len(chain) < 10:
        raise AnalysisError('C11 R5: cannot read the key chain of Watcher.set_opt')
    run.count('R5', len(chain), 10, 'set_opt key branches')
    run.extra['validated_types'] = {k: sorted(v) for k, v in types.items()}
    for keys, prefixes, body, test in chain:
        label = '/'.join(keys + [p + '*' for p in prefixes]) or norm_text(test)[:30]
        guar = set()
        for k in keys:
            guar |= types.get(k, {'any'})
        for p in prefixes:
            cands = [v for q, v in pre.items() if q.startswith(p) or p.startswith(q.rstrip('.'))]
            for v in cands:
                guar |= v
            if not cands:
                guar |= {'any'}
        # `isinstance(val, int) and not isinstance(val, str)` style: keep simple sets
        problems = []
        for st in body:
            for e in ast.walk(st):
                if isinstance(e, ast.Raise):
                    problems.append(('state-dependent raise in the apply phase', e))
                if isinstance(e, ast.Call):
                    name = astq.call_last(e)
                    argtxt = [norm_text(a) for a in e.args]
                    if name in NEVER_TOTAL:
                        problems.append(('%s: %s' % (name, NEVER_TOTAL[name]), e))
                    elif name in TOTAL and 'val' in argtxt:
                        if not guar or not (guar <= TOTAL[name]):
                            problems.append(('%s(val) is not total on the validated type %s'
                                             % (name, sorted(guar)), e))
                    elif isinstance(e.func, ast.Attribute) and dotted(e.func.value) == 'val':
                        need = {'split': {'str'}, 'items': {'dict'}, 'lower': {'str'}}.get(name)
                        if need and not (guar and guar <= need):
                            problems.append(('val.%s() needs %s but validation guarantees %s'
                                             % (name, sorted(need), sorted(guar) or ['nothing']), e))
        run.check('R5', not problems, "set_opt['%s'] cannot fail after validation" % label, so,
                  problems[0][1] if problems else test,
                  "option '%s' can still be refused while being applied (%s): in a multi-option "
                  "set the keys before it are already applied when the error is answered"
                  % (label, problems[0][0] if problems else ''),
                  construct="set_opt key %s: %s" % (label, problems[0][0].split(':')[0]
                                                    if problems else ''))
    # Set.execute applies key by key (which is why the table matters), Set.validate
    # validates every key first
    sv = ctx.fn('circus.commands.set:Set.validate')
    cfg = ctx.cfg(sv)
    von = ctx.nodes_calling(sv, [vo.key])
    if run.need('R5', von, 'validate_option call in Set.validate', sv,
                'set no longer validates its options'):
        hdr = [h for h in cfg.nodes if h.kind == 'iter' and von[0].id in cfg.branch_nodes(h, 'true')]
        okk = bool(hdr) and 'options.items()' in norm_text(hdr[0].ast.iter)
        if okk:
            start = [cfg.nodes[i] for i, lab in cfg.succ[hdr[0].id] if lab == 'true']
            okk = hdr[0].id not in cfg.reach(start, avoid=von, include_src=True)
            # the loop is left only through its header (no break / return inside)
            okk = okk and cfg.exit.id not in cfg.reach(start, avoid=[hdr[0]], include_src=True,
                                                       labels_excluded=('exc', 'raise'))
        run.check('R5', okk, 'every option of the request is validated (before any is applied)',
                  sv, von[0].ast, 'some options of a set request escape validation')
    # what is checked is what will be applied: the validator does not replace the value it was
    # given by a converted one (the request keeps the raw value; a conversion that succeeds in
    # the validator says nothing about the raw value set_opt receives)
    params = [a.arg for a in vo.node.args.args]
    if len(params) >= 2:
        vname = params[1]
        rebinds = [n for n in ctx.live_nodes(vo) if n.kind == 'stmt' and
                   isinstance(n.ast, (ast.Assign, ast.AugAssign, ast.AnnAssign)) and
                   any(isinstance(t, ast.Name) and t.id == vname for t in astq.attr_targets(n.ast))]
        run.check('R5', not rebinds, 'validate_option checks the value it was given', vo,
                  rebinds[0].ast if rebinds else vo.node,
                  'validate_option replaces `%s` by a converted value before checking it: the '
                  'checks approve the converted value while the request still carries the raw '
                  'one, which is what set_opt is given - an ill-typed value passes validation '
                  'and fails while being applied, after earlier options were set' % vname,
                  construct='VALIDATED-VALUE-REBOUND')
    av = ctx.fn('circus.commands.addwatcher:AddWatcher.validate')
    run.need('R5', ctx.nodes_calling(av, [vo.key]), 'validate_option call in AddWatcher.validate', av,
             'add no longer validates its options')
    # the valid-key gate: a key that is in no table never leaves validate_option normally
    cfg = ctx.cfg(vo)

    from sa.dataflow import reaching_defs
    rdv = reaching_defs(ctx, vo)
    gate = [t for t in cfg.nodes if t.kind == 'test' and any(
        isinstance(x, ast.Compare) and norm_text(x.left) == 'key' and
        isinstance(x.ops[0], (ast.In, ast.NotIn)) for x in ast.walk(t.ast))]

    def unknown_key(e):
        """the key is in no table: not among the valid keys (a tuple of >= 10 literal
        names, possibly through a local) and matches no valid prefix"""
        if isinstance(e, ast.Compare) and len(e.ops) == 1 and norm_text(e.left) == 'key' and \
                isinstance(e.ops[0], (ast.In, ast.NotIn)) and gate:
            for a in rdv.expand(gate[0], e.comparators[0]):
                if isinstance(a.expr, (ast.Tuple, ast.List, ast.Set)) and len(a.expr.elts) >= 10:
                    return isinstance(e.ops[0], ast.NotIn)
        if isinstance(e, ast.Call) and dotted(e.func) == 'any' and e.args and \
                isinstance(e.args[0], (ast.GeneratorExp, ast.ListComp)) and \
                'key.startswith(' in norm_text(e.args[0].elt):
            return False
        # the same test kept in a nested helper
        if isinstance(e, ast.Call) and isinstance(e.func, ast.Name) and not e.args:
            for x in ast.walk(vo.node):
                if isinstance(x, ast.FunctionDef) and x.name == e.func.id and x is not vo.node \
                        and 'key.startswith(' in norm_text(x):
                    return False
        return None
    r = reach_under(cfg, cfg.entry, unknown_key)
    refusals = [n for n in cfg.nodes if n.id in r and n.kind == 'stmt' and
                isinstance(n.ast, ast.Raise) and 'MessageError' in norm_text(n.ast)]
    run.check('R5', cfg.exit.id not in r and bool(refusals),
              'unknown option keys are refused', vo, vo.node)


def r6(run, ctx):
    run.rule('R6', 'signal designations are parsed in validate and refused as MessageError')
    ts = ctx.fn('circus.util:to_signum')
    esc = Escapes(ctx).escapes(ts)
    run.check('R6', set(esc) <= {'ValueError'}, 'to_signum refuses only with ValueError', ts,
              ts.node, 'to_signum can refuse with %s, which the validators do not catch'
              % sorted(set(esc) - {'ValueError'}))
    for key in ('circus.commands.kill:Kill.validate', 'circus.commands.sendsignal:Signal.validate'):
        v = ctx.fn(key)
        sites = ctx.sites_calling(v, [ts.key])
        if not run.need('R6', sites, 'to_signum call in %s' % v.qualname, v,
                        'the signal designation is not checked before execute'):
            continue
        for s in sites:
            okh = False
            for t in ast.walk(v.node):
                if isinstance(t, ast.Try) and any(sub is s.call for st in t.body
                                                  for sub in ast.walk(st)):
                    for h in t.handlers:
                        names = ['*'] if h.type is None else [
                            (dotted(x) or '').split('.')[-1] for x in
                            (h.type.elts if isinstance(h.type, ast.Tuple) else [h.type])]
                        if 'ValueError' in names and any(
                                isinstance(b, ast.Raise) and 'MessageError' in norm_text(b)
                                for b in h.body):
                            okh = True
            run.check('R6', okh, "a bad designation is answered as a message error", v,
                      s.node.ast, 'a bad signal designation is not mapped to MessageError')
            tg = s.node.ast.targets[0] if isinstance(s.node.ast, ast.Assign) else None
            run.check('R6', tg is not None and norm_text(tg) == "props['signum']",
                      'the parsed number replaces the designation', v, s.node.ast)
    # getattr-style lookups inside to_signum must be under a handler that matches
    for n in ctx.live_nodes(ts):
        for c in n.calls():
            if dotted(c.func) == 'getattr' and len(c.args) == 2:
                run.fail('R6', ts, n.ast, '2-argument getattr raises AttributeError for an unknown '
                         'name; the enclosing handler and the validators expect KeyError/ValueError')


def r7(run, ctx):
    from rules import c10
    run.share(ctx, c10.r1, 'R1', 'R7', 'a request refused as conflicting leaves the exclusive '
              'slot untouched (shared with C10 R1): otherwise the refusal itself changes the '
              'daemon and the next conflicting request is admitted')


def r8(run, ctx):
    from rules import c18
    run.rule('R8', 'a signal request with a childpid and no pid is refused in validate (shared '
             'with C18 R3): accepted, it fails part-way - after the child was signalled through '
             'its owner, the next worker raises - so an error reply follows an effect')
    c18.childpid_without_pid(run, ctx, 'R8')
