"""C03 - graceful termination: stop signal first, SIGKILL only after the grace period."""
import ast

from sa import astq
from sa.astq import norm_text, affine
from sa.idioms import (reach_under, path_under, ordering_assumption, combine,
                       attr_truth, edges_requiring, infeasible_edges)
from sa.project import dotted

EXPLANATION = (    "Escalation shape of Watcher.kill_process decided on its CFG: R1 the stop-"
    "signal send dominates the SIGKILL send, which is reachable only through "
    "the wait loop; R2 the loop/escalation guards as orderings of waited vs "
    "graceful_timeout (loop only under <, SIGKILL only under >=, SIGKILL "
    "mandatory under >= for a live worker), the waited counter grows by the "
    "slept constant on every iteration; R3 a liveness test lies between the "
    "last suspension point and the SIGKILL send; R4 per-request signum / "
    "graceful_timeout overrides flow unmodified from Kill.execute into the "
    "loop and fall back to the watcher policy only when None; R5 with "
    "stop_children the stop signal goes through the children-iterating sender "
    "and the SIGKILL is recursive; R6 every termination cause goes through "
    "kill_process and no other watcher code sends a terminating signal. "
    "R7 (shared with C04 R2) a worker is untracked only after its termination routine reported completion or it is dead, because an untracked pid is never signalled. "
    "R8 (shared with C02 R2) kill_process returns true only after Process.stop() and never leaves its stopping flag set. "
    "Decides these necessary conditions, not wall-clock accuracy.")
ASSUMPTIONS = ["posix platform (hasattr(signal,'SIGKILL') true)"]

W = 'circus.watcher:Watcher.'
P = 'circus.process:Process.'


def is_waited(e):
    return isinstance(e, ast.Name) and e.id == 'waited'


def is_timeout(e):
    return isinstance(e, ast.Name) and e.id == 'graceful_timeout'


def alive_atom(e):
    if isinstance(e, ast.Call) and astq.call_last(e) == 'is_alive':
        return True
    return None


def _sends(ctx, f):
    senders = [W + 'send_signal', W + 'send_signal_process']
    kill, stop = [], []
    for s in ctx.sites_calling(f, senders):
        args = [dotted(a) or '' for a in s.call.args] + \
               [dotted(k.value) or '' for k in s.call.keywords]
        (kill if any(a.endswith('SIGKILL') for a in args) else stop).append(s)
    return stop, kill


def check(run, ctx):
    f = ctx.fn(W + 'kill_process')
    cfg = ctx.cfg(f)
    stop, kill = _sends(ctx, f)
    ok = run.need('R1', stop, 'stop-signal send in kill_process', f)
    ok &= run.need('R1', kill, 'SIGKILL send in kill_process', f)
    loops = [t for t in cfg.nodes if t.kind == 'test' and isinstance(t.stmt, ast.While)
             and astq.guard_orderings(t.ast, is_waited, is_timeout) != {'<', '=', '>'}]
    ok &= run.need('R2', loops, 'wait loop `while waited < graceful_timeout`', f)
    if not ok:
        return
    r1(run, ctx, f, cfg, stop, kill, loops)
    r2(run, ctx, f, cfg, stop, kill, loops)
    r3(run, ctx, f, cfg, kill)
    r4(run, ctx, f, cfg, stop, loops)
    r5(run, ctx, f, cfg, stop, kill)
    r6(run, ctx)
    from rules import c02
    run.share(ctx, c02.r2, 'R2', 'R8', 'kill_process reports completion (true) only after the '
              'termination routine ran to its end, and releases its re-entrancy flag on every '
              'exit (shared with C02 R2): callers drop the worker on a true result, and a dropped '
              'worker is never sent SIGKILL')
    from rules import c04
    run.share(ctx, c04.r2, 'R2', 'R7', 'a worker is untracked only after its termination routine '
              'reported completion or it is dead (shared with C04 R2): Watcher.send_signal only '
              'signals tracked pids, so untracking early drops the SIGKILL of an in-flight kill')


def r5_standalone(run, ctx):
    """R5 for properties that share it (C08: a shutdown must not hang on a worker whose
    SIGKILL was lost)."""
    f = ctx.fn(W + 'kill_process')
    cfg = ctx.cfg(f)
    stop, kill = _sends(ctx, f)
    if run.need('R5', stop, 'stop-signal send in kill_process', f) and \
            run.need('R5', kill, 'SIGKILL send in kill_process', f):
        r5(run, ctx, f, cfg, stop, kill)


def r1(run, ctx, f, cfg, stop, kill, loops):
    run.rule('R1', 'stop signal dominates SIGKILL; SIGKILL only through the wait loop')
    sn = [s.node for s in stop]
    for k in kill:
        run.check('R1', cfg.dominates(sn, k.node), 'a stop-signal send precedes SIGKILL on '
                  'every path', f, k.node.ast, 'SIGKILL can be sent without the stop signal '
                  'having been sent first',
                  path=ctx.path_text(f, cfg.path(cfg.entry, k.node, avoid=sn) or []))
        run.check('R1', cfg.dominates(loops, k.node), 'SIGKILL is reachable only through the '
                  'wait loop', f, k.node.ast, 'SIGKILL can be sent before the grace period '
                  'loop has run')
        for s in sn:
            run.check('R1', not cfg.reachable(k.node, s), 'no stop signal after SIGKILL',
                      f, k.node.ast)


def r2(run, ctx, f, cfg, stop, kill, loops):
    run.rule('R2', 'timeout guards as orderings of waited vs graceful_timeout')
    loop = loops[0]
    o = astq.guard_orderings(loop.ast, is_waited, is_timeout)
    run.check('R2', o == {'<'}, 'the wait loop continues only while waited < graceful_timeout',
              f, loop.ast, 'wait-loop guard is true under orderings %s' % sorted(o or []))
    body = cfg.branch_nodes(loop, 'true')
    sleeps = [n for n in cfg.nodes if n.id in body and astq.has_yield(n)]
    run.need('R2', sleeps, 'non-blocking sleep inside the wait loop', f)
    lt = ordering_assumption(is_waited, is_timeout, '<')
    for k in kill:
        r = reach_under(cfg, cfg.entry, lt)
        run.check('R2', k.node.id not in r, 'SIGKILL unreachable while waited < graceful_timeout',
                  f, k.node.ast, 'SIGKILL can be sent before graceful_timeout has elapsed',
                  path=ctx.path_text(f, path_under(cfg, cfg.entry, k.node, lt) or []))
    # escalation mandatory: waited >= timeout and worker alive -> every path from
    # the loop test to Process.stop passes the SIGKILL send
    pstop = ctx.nodes_calling(f, [P + 'stop'])
    kn = [k.node for k in kill]
    for o_ in ('=', '>'):
        assume = combine(ordering_assumption(is_waited, is_timeout, o_),
                         lambda e: alive_atom(e))
        r = reach_under(cfg, loop, assume, avoid=kn)
        bad = [p for p in pstop if p.id in r] or ([cfg.exit] if cfg.exit.id in r else [])
        run.check('R2', not bad, 'a live worker is always sent SIGKILL once waited %s '
                  'graceful_timeout' % ('==' if o_ == '=' else '>'), f, loop.ast,
                  'a worker that outlives the grace period can escape SIGKILL',
                  path=ctx.path_text(f, path_under(cfg, loop, bad[0], assume, avoid=kn) or [])
                  if bad else None)
    # variant: every path loop-body -> back edge adds the slept constant
    incs = [n for n in cfg.nodes if n.id in body and n.kind == 'stmt' and
            isinstance(n.ast, ast.AugAssign) and is_waited(n.ast.target) and
            isinstance(n.ast.op, ast.Add)]
    run.need('R2', incs, '`waited += <step>` in the wait loop', f)
    start = [cfg.nodes[i] for i, lab in cfg.succ[loop.id] if lab == 'true']
    r = cfg.reach(start, avoid=incs, include_src=True)
    run.check('R2', loop.id not in r, 'every iteration advances the waited counter', f,
              loop.ast, 'an iteration of the wait loop can repeat without advancing `waited`: '
              'the grace period never ends')
    for inc in incs:
        step = astq.const_value(inc.ast.value, None)
        run.check('R2', isinstance(step, (int, float)) and step > 0,
                  'the step is a positive constant', f, inc.ast)
        for sl in sleeps:
            durs = [astq.const_value(c.args[0], None) for c in sl.calls()
                    if astq.call_last(c) in ('tornado_sleep', 'sleep') and c.args]
            run.check('R2', durs and all(d == step for d in durs),
                      'the counter advances by exactly the slept duration', f, sl.ast,
                      'waited advances by %r per iteration but the loop sleeps %r: the grace '
                      'period is mis-measured' % (step, durs))


def r3(run, ctx, f, cfg, kill):
    run.rule('R3', 'liveness re-check between the last suspension point and SIGKILL')
    ys = [n for n in ctx.live_nodes(f) if astq.has_yield(n)]
    alive_edges = edges_requiring(cfg, alive_atom, True)
    for k in kill:
        bad = None
        for y in ys:
            r = cfg.reach(y, edges_excluded=alive_edges,
                          avoid=[n for n in ys if n is not y])
            if k.node.id in r:
                bad = y
                break
        run.check('R3', bad is None, 'after every sleep the worker is tested alive before '
                  'SIGKILL is sent', f, k.node.ast,
                  'a worker that exits during the final polling interval is still sent '
                  'SIGKILL (and a kill event is published for it)',
                  path=ctx.path_text(f, cfg.path(bad, k.node, edges_excluded=alive_edges)
                                     or []) if bad else None)


def r4(run, ctx, f, cfg, stop, loops):
    run.rule('R4', 'per-request overrides reach the signal send and the wait loop')
    params = [a.arg for a in f.node.args.args]
    run.check('R4', 'stop_signal' in params and 'graceful_timeout' in params,
              'kill_process takes stop_signal and graceful_timeout', f, f.node)
    for pname, attr in (('stop_signal', 'stop_signal'), ('graceful_timeout', 'graceful_timeout')):
        assigns = [n for n in ctx.live_nodes(f) if n.kind == 'stmt' and
                   isinstance(n.ast, (ast.Assign, ast.AugAssign)) and
                   any(isinstance(t, ast.Name) and t.id == pname
                       for t in astq.attr_targets(n.ast))]
        for n in assigns:
            val_ok = isinstance(n.ast, ast.Assign) and \
                isinstance(n.ast.value, ast.Attribute) and n.ast.value.attr == attr and \
                dotted(n.ast.value.value) == 'self'

            def is_none(e, pname=pname):
                if isinstance(e, ast.Compare) and isinstance(e.left, ast.Name) and \
                        e.left.id == pname and isinstance(e.ops[0], ast.Is) and \
                        astq.const_value(e.comparators[0], 0) is None:
                    return True
                return None
            from sa.idioms import guarded
            g = guarded(cfg, n, is_none, True)
            run.check('R4', val_ok and g, '%s is replaced only by the watcher policy and only '
                      'when None' % pname, f, n.ast,
                      'the per-request %s override is overwritten' % pname)
        if not assigns:
            run.fail('R4', f, f.node, 'no fallback to the watcher %s when the request gives '
                     'none' % attr, construct='missing fallback %s' % pname)
    for s in stop:
        sig_args = [a for a in s.call.args[1:]] + [k.value for k in s.call.keywords]
        run.check('R4', any(isinstance(a, ast.Name) and a.id == 'stop_signal' for a in sig_args),
                  'the first signal sent is the (possibly overridden) stop_signal', f,
                  s.node.ast, 'the first signal sent is not the requested/configured stop signal')
    ke = ctx.fn('circus.commands.kill:Kill.execute')
    sites = ctx.sites_calling(ke, [W + 'kill_process'])
    run.need('R4', sites, 'kill_process call in Kill.execute', ke)
    for s in sites:
        for kw, prop in (('stop_signal', 'signum'), ('graceful_timeout', 'graceful_timeout')):
            v = astq.kwarg(s.call, kw)
            ok = False
            if isinstance(v, ast.Name):
                # v = props.get('<prop>')
                for n in ast.walk(ke.node):
                    if isinstance(n, ast.Assign) and any(
                            isinstance(t, ast.Name) and t.id == v.id for t in n.targets):
                        c = n.value
                        ok = isinstance(c, ast.Call) and astq.call_last(c) == 'get' and \
                            c.args and astq.const_value(c.args[0]) == prop and \
                            (len(c.args) == 1 or astq.const_value(c.args[1], 0) is None)
            elif isinstance(v, ast.Call) and astq.call_last(v) == 'get':
                ok = v.args and astq.const_value(v.args[0]) == prop
            run.check('R4', bool(ok), "request property '%s' is passed as %s=" % (prop, kw),
                      ke, s.node.ast, "the kill request's %s is not handed to kill_process" % prop)


def r5(run, ctx, f, cfg, stop, kill):
    run.rule('R5', 'stop_children: children receive the stop signal and the SIGKILL')
    r = reach_under(cfg, cfg.entry, attr_truth('stop_children', True))
    via_children = [s for s in stop if any(t.key == W + 'send_signal_process' for t in s.targets)]
    plain = [s for s in stop if s not in via_children]
    run.need('R5', via_children, 'stop-signal send through send_signal_process', f)
    for s in plain:
        run.check('R5', s.node.id not in r, 'with stop_children the plain (parent-only) send '
                  'is not used', f, s.node.ast)
    sn = [s.node for s in via_children]
    kn = [k.node for k in kill]
    r2_ = reach_under(cfg, cfg.entry, attr_truth('stop_children', True), avoid=sn)
    run.check('R5', not any(k.id in r2_ for k in kn) and
              not any(n.id in r2_ for n in ctx.direct_nodes(f, astq.ev_setattr('stopping', True))),
              'with stop_children every path goes through the children-iterating sender',
              f, f.node)
    for k in kill:
        rec = astq.kwarg(k.call, 'recursive', 2)
        ok = any(t.key == W + 'send_signal_process' for t in k.targets) and \
            astq.const_value(rec, None) is True
        run.check('R5', ok, 'the SIGKILL goes to the whole process tree (recursive=True)', f,
                  k.node.ast, 'the final SIGKILL does not reach the worker\'s descendants')
    # send_signal_process iterates the children and signals each
    g = ctx.fn(W + 'send_signal_process')
    c2 = ctx.cfg(g)
    ch = [n for n in ctx.live_nodes(g) if any(astq.call_last(c) == 'children' for c in n.calls())]
    run.need('R5', ch, 'children enumeration in send_signal_process', g)
    for n in ch:
        for c in n.calls():
            if astq.call_last(c) == 'children':
                rec = astq.kwarg(c, 'recursive', 0)
                run.check('R5', isinstance(rec, ast.Name) and rec.id == 'recursive',
                          'the recursive flag reaches the children enumeration', g, n.ast)
    parent = ctx.nodes_calling(g, [W + 'send_signal'])
    childs = ctx.nodes_calling(g, [P + 'send_signal_child'])
    # children are found *through* their parents (send_signal_child looks the pid up among the
    # worker's descendants), so they must be signalled while the parents are still there:
    # children before the worker itself, deepest first, and the lookup must cover descendants
    for pn in parent:
        for cn in childs:
            run.check('R5', not c2.reachable(pn, cn), 'the children are signalled before the '
                      'worker itself', g, cn.ast,
                      'the worker is signalled first: once it is gone (SIGKILL) its children are '
                      're-parented and send_signal_child, which looks them up through the worker, '
                      'finds nothing - the final SIGKILL never reaches the children',
                      construct='child signalled after parent')
    sc = ctx.fn(P + 'send_signal_child')
    gc = [c for n in ctx.live_nodes(sc) for c in n.calls() if astq.call_last(c) == 'get_children']
    if run.need('R5', gc, 'children lookup in Process.send_signal_child', sc):
        for c in gc:
            rec = astq.kwarg(c, 'recursive', 1)
            run.check('R5', rec is not None and astq.const_value(rec, None) is True,
                      'send_signal_child finds the pid among all descendants of the worker', sc, c,
                      'send_signal_child only looks among direct children: the grandchildren '
                      'handed to it by the recursive SIGKILL are never signalled',
                      construct='child lookup not recursive')
    run.need('R5', parent, 'signal to the worker itself in send_signal_process', g)
    run.need('R5', childs, 'signal to each child in send_signal_process', g)
    # a child that vanished between enumeration and delivery (NoSuchProcess) must not stop
    # the others, and above all not the worker itself, from being signalled
    for cn in childs:
        after_exc = [c2.nodes[i] for i, lab in c2.succ[cn.id] if lab == 'exc'
                     and c2.nodes[i].kind == 'except']
        for hn in after_exc:
            r_ = c2.reach(hn, avoid=parent, labels_excluded=('exc', 'raise', 'reraise'),
                          include_src=True)
            run.check('R5', c2.exit.id not in r_, 'a vanished child does not keep the signal '
                      'from the worker itself', g, cn.ast,
                      'when one child is already gone (NoSuchProcess) send_signal_process returns '
                      'without signalling the remaining children and the worker: the final '
                      'SIGKILL is lost and the stop path waits for a worker that never dies',
                      construct='child failure skips the worker')
    # the child lookup fails with psutil's NoSuchProcess (which is NOT an OSError): some
    # handler around the per-child send must catch exactly that
    from sa.raises import caught_by
    for cn in childs:
        hs_ = [c2.nodes[i] for i, lab in c2.succ[cn.id] if lab == 'exc'
               and c2.nodes[i].kind == 'except']

        def names(h):
            t = h.ast.type
            if t is None:
                return ['*']
            elts = t.elts if isinstance(t, ast.Tuple) else [t]
            return [(dotted(e) or '?').split('.')[-1] for e in elts]
        run.check('R5', any(caught_by(names(h), 'NoSuchProcess') or
                            'NoSuchProcess' in names(h) or 'Error' in names(h) for h in hs_),
                  'a child that vanished (NoSuchProcess) is caught at the per-child send', g,
                  cn.ast, 'no handler around the per-child send catches NoSuchProcess (it is '
                  "psutil's own exception, not an OSError): one vanished child aborts the whole "
                  'fan-out, kill_process takes the escaping exception for "the worker is gone", '
                  'and the worker itself is never signalled',
                  construct='NOSUCHPROCESS-NOT-CAUGHT')
    for cn in childs:
        hdr = [h for h in c2.nodes if h.kind == 'iter' and cn.id in c2.branch_nodes(h, 'true')]
        after_exc = [c2.nodes[i] for i, lab in c2.succ[cn.id] if lab == 'exc'
                     and c2.nodes[i].kind == 'except']
        for hn in after_exc:
            r_ = c2.reach(hn, avoid=hdr, labels_excluded=('exc', 'raise', 'reraise'),
                          include_src=True)
            run.check('R5', bool(hdr) and c2.exit.id not in r_ and
                      not any(p_.id in r_ for p_ in parent),
                      'a vanished child does not keep the signal from the children after it',
                      g, cn.ast,
                      'when one child is already gone (NoSuchProcess) the loop over the '
                      'children ends: the children not yet visited never get the stop signal, '
                      'nor the final SIGKILL - they outlive the worker as orphans',
                      construct='child failure ends the fan-out')
    for n in childs:
        hdr = [h for h in c2.nodes if h.kind == 'iter' and n.id in c2.branch_nodes(h, 'true')]
        run.check('R5', bool(hdr) and 'children' in norm_text(hdr[0].ast.iter),
                  'each enumerated child is signalled', g, n.ast)
        it = hdr[0].ast.iter if hdr else None
        run.check('R5', isinstance(it, ast.Call) and dotted(it.func) == 'reversed',
                  'descendants are signalled deepest first (psutil lists parents before their '
                  'children)', g, n.ast, 'descendants are signalled top-down: killing a child '
                  'first orphans its own children, which are then no longer found',
                  construct='children not deepest-first')
        for c in n.calls():
            if astq.call_last(c) == 'send_signal_child':
                run.check('R5', len(c.args) >= 2 and isinstance(c.args[1], ast.Name) and
                          c.args[1].id == 'signum', 'children get the same signal', g, n.ast)


def r6(run, ctx):
    run.rule('R6', 'every termination cause uses kill_process; who may send signals')
    # callers of kill_process
    expected = {W + 'kill_processes', W + 'manage_processes', W + 'remove_expired_processes',
                W + '_reload', 'circus.commands.kill:Kill.execute', W + 'spawn_process'}
    callers = {c.key for c, s in ctx.callers_of([W + 'kill_process'], kinds=('call',))}
    run.count('R6', len(callers & expected), 3, 'callers of kill_process')
    # terminating primitives reachable from Watcher methods only via kill_process /
    # Watcher.send_signal*/ Process.stop
    prim = [P + 'send_signal', P + 'stop', P + 'send_signal_child', P + 'send_signal_children']
    allowed = {
        P + 'send_signal': {W + 'send_signal'},
        P + 'stop': {W + 'kill_process', W + 'reap_process'},
        P + 'send_signal_child': {W + 'send_signal_process', W + 'send_signal_child'},
        P + 'send_signal_children': {W + 'send_signal_children'},
    }
    n = 0
    for caller, s in ctx.callers_of(prim, kinds=('call',)):
        if not s.precise:
            continue
        if not caller.module.name.startswith(('circus.watcher', 'circus.arbiter',
                                              'circus.commands', 'circus.controller')):
            continue
        n += 1
        for t in s.targets:
            if t.key in allowed:
                run.check('R6', caller.key in allowed[t.key],
                          '%s is called only from its owner functions' % t.qualname,
                          caller, s.node.ast,
                          '%s sends a signal / terminates a worker outside the graceful '
                          'termination routine' % caller.qualname)
    run.count('R6', n, 3, 'call sites of process signal primitives')
    # terminations are awaited kill_process calls in the causes
    for key in (W + 'manage_processes', W + 'remove_expired_processes', W + 'kill_processes'):
        g = ctx.fn(key)
        sites = ctx.sites_calling(g, [W + 'kill_process'])
        run.need('R6', sites, 'kill_process call in %s' % g.qualname, g)
        for s in sites:
            from sa.idioms import call_consumed
            run.check('R6', call_consumed(g, s.node, s.call), 'termination is awaited', g,
                      s.node.ast)
    # max_age expiry and surplus pass no override (watcher policy applies)
    for key in (W + 'manage_processes', W + 'remove_expired_processes', W + '_reload'):
        g = ctx.fn(key)
        for s in ctx.sites_calling(g, [W + 'kill_process']):
            run.check('R6', len(s.call.args) == 1 and not s.call.keywords,
                      'internal terminations use the watcher policy', g, s.node.ast)
    # kill_processes forwards overrides
    g = ctx.fn(W + 'kill_processes')
    for s in ctx.sites_calling(g, [W + 'kill_process']):
        for kw in ('stop_signal', 'graceful_timeout'):
            v = astq.kwarg(s.call, kw)
            run.check('R6', isinstance(v, ast.Name) and v.id == kw,
                      'kill_processes forwards %s' % kw, g, s.node.ast)
