"""C20 - log files rotate by size without losing or reordering retained data."""
import ast

from sa import astq
from sa.astq import norm_text, affine
from sa.idioms import guarded, reach_under, attr_truth, none_test, positive_test
from sa.project import dotted, walk_local, AnalysisError

EXPLANATION = (
    "Rotation shape of FileStream decided on the source: R1 the value whose "
    "length is compared with max_bytes is derived from the same text that "
    "reaches file.write (every lengthening applied to the written text must "
    "also be applied to the measured one); R2 the rollover test, normalised, is "
    "'roll when position + length >= max_bytes' and is active only for "
    "max_bytes > 0; R3 the shift loop runs i = backup_count-1 .. 1 in "
    "descending order, renames .i to .(i+1) after removing an existing "
    "destination, then renames the base file to .1, all under backup_count > 0; "
    "R4 close precedes the first rename and reopen follows the last on every "
    "path, the file is opened in append mode and open()/close() reuse the same "
    "file name; R5 with a time_format every line gets the prefix, which "
    "contains the pid. Decides these necessary conditions, not file contents "
    "for all write sequences.")
ASSUMPTIONS = ["byte/character length differences after decoding are outside the claim"]

F = 'circus.stream.file_stream:FileStream.'
B = 'circus.stream.file_stream:_FileStreamBase.'


def check(run, ctx):
    run.each(ctx, [r1, r2, r3, r4, r5, r6])


def r1(run, ctx):
    run.rule('R1', 'the measured size is the written size')
    call = ctx.fn(F + '__call__')
    sr = ctx.sites_calling(call, [F + '_should_rollover'])
    wd = ctx.sites_calling(call, [B + 'write_data'])
    if not (run.need('R1', sr, '_should_rollover call in FileStream.__call__', call,
                     'the size is never checked: no rotation') and
            run.need('R1', wd, 'write_data call in FileStream.__call__', call)):
        return
    cfg = ctx.cfg(call)
    for w in wd:
        run.check('R1', cfg.dominates([s.node for s in sr], w.node), 'the size test precedes the '
                  'write', call, w.node.ast, 'data is written before the size test')
    ro = ctx.sites_calling(call, [F + '_do_rollover'])
    for r in ro:
        ok = any(r.node.id in cfg.branch_nodes(s.node, 'true') for s in sr if s.node.kind == 'test')
        run.check('R1', ok, 'the rollover happens exactly when the test says so', call, r.node.ast)
    # what write_data writes
    wf = ctx.fn(B + 'write_data')
    writes = [(n, c) for n in ctx.live_nodes(wf) for c in n.calls()
              if astq.call_last(c) == 'write' and '_file' in norm_text(c.func)]
    run.need('R1', writes, 'file.write in write_data', wf)
    wvar = norm_text(writes[0][1].args[0]) if writes else None
    lengthen = []
    for n in ctx.live_nodes(wf):
        if n.kind != 'stmt' or not isinstance(n.ast, (ast.Assign, ast.AugAssign)):
            continue
        tg = astq.attr_targets(n.ast)
        if not any(isinstance(t, ast.Name) and t.id == wvar for t in tg):
            continue
        v = n.ast.value
        if isinstance(n.ast, ast.AugAssign) and isinstance(n.ast.op, ast.Add):
            if not (isinstance(v, ast.Constant) and v.value == '\n'):
                lengthen.append(n)
        elif isinstance(v, ast.BinOp) and isinstance(v.op, ast.Add) and \
                any(isinstance(x, ast.Name) and x.id not in (wvar,) for x in ast.walk(v)
                    if isinstance(x, ast.Name)) and 'prefix' in norm_text(v):
            lengthen.append(n)
        elif isinstance(v, ast.Call) and astq.call_last(v) == 'replace' and len(v.args) == 2 and \
                'prefix' in norm_text(v.args[1]):
            lengthen.append(n)
    run.extra['lengthening_statements_in_write_data'] = [norm_text(n.ast) for n in lengthen]
    for s in sr:
        arg = s.call.args[0] if s.call.args else None
        raw = arg is not None and norm_text(arg) in ("data['data']", 'data["data"]')
        ok = not (raw and lengthen)
        run.check('R1', ok, 'the measured text includes everything write_data adds to it', call,
                  s.node.ast, "_should_rollover measures the raw payload %s while write_data "
                  "prefixes every line when a time_format is set: with time_format the active "
                  "file can pass max_bytes" % (norm_text(arg) if arg is not None else '?'),
                  construct='_should_rollover measures raw payload')


def r2(run, ctx):
    run.rule('R2', 'rollover comparison')
    f = ctx.fn(F + '_should_rollover')
    cfg = ctx.cfg(f)
    tests = [t for t in cfg.nodes if t.kind == 'test' and isinstance(t.ast, ast.Compare) and
             '_max_bytes' in norm_text(t.ast) and 'tell()' in norm_text(t.ast)]
    if not run.need('R2', tests, 'size comparison in _should_rollover', f):
        return
    t = tests[0]

    def is_size(e):
        return 'tell()' in norm_text(e) and 'len(' in norm_text(e)

    def is_max(e):
        return norm_text(e) == 'self._max_bytes'
    o = astq.compare_orderings(t.ast, is_size, is_max)
    run.check('R2', o == {'=', '>'}, 'roll when position + length >= max_bytes', f, t.ast,
              'the rollover test is true for orderings %s of (pos+len vs max_bytes): with `>` the '
              'active file can reach max_bytes' % sorted(o or []), construct='rollover ordering')
    if o is not None:
        side = t.ast.left if is_size(t.ast.left) else t.ast.comparators[0]
        af = affine(side, {'self._file.tell()': 'POS', 'len(raw_data)': 'LEN'})
        run.check('R2', af == {'POS': 1, 'LEN': 1}, 'the measured quantity is position + length '
                  'of the pending write', f, side, 'the measured quantity is %s' % norm_text(side))
    rets = [n for n in ctx.live_nodes(f) if n.kind == 'stmt' and isinstance(n.ast, ast.Return)]
    yes = [n for n in rets if astq.const_value(n.ast.value, None) in (1, True)]
    for n in yes:
        def pos(e):
            return positive_test(e, 'self._max_bytes')
        run.check('R2', guarded(cfg, n, pos, True) and n.id in cfg.branch_nodes(t, 'true'),
                  'rotation is requested only for max_bytes > 0 and a positive size test', f, n.ast)
    seeks = [n for n in ctx.live_nodes(f) if any(astq.call_last(c) == 'seek' and
                                                 [astq.const_value(a, None) for a in c.args] == [0, 2]
                                                 for c in n.calls())]
    run.check('R2', bool(seeks) and cfg.dominates(seeks, t), 'the position is taken at the end of '
              'the file', f, t.ast)
    init = ctx.fn(F + '__init__')
    from rules.common import attr_stores, is_call_of
    okint = True
    for attr, param in (('_max_bytes', 'max_bytes'), ('_backup_count', 'backup_count')):
        st = attr_stores(init.node, attr)
        okint = okint and bool(st) and all(is_call_of(init.node, v, 'int', param) for _, v in st)
    run.check('R2', okint,
              'max_bytes / backup_count are the configured integers', init, init.node)


def r3(run, ctx):
    run.rule('R3', 'shift loop')
    f = ctx.fn(F + '_do_rollover')
    cfg = ctx.cfg(f)
    loops = [h for h in cfg.nodes if h.kind == 'iter' and isinstance(h.ast.iter, ast.Call) and
             dotted(h.ast.iter.func) == 'range']
    if not run.need('R3', loops, 'range(...) shift loop in _do_rollover', f,
                    'older backups are never shifted: they are overwritten'):
        return
    h = loops[0]
    a = h.ast.iter.args
    ok = len(a) == 3 and affine(a[0], {'self._backup_count': 'BC'}) == {'BC': 1, '': -1} and \
        astq.const_value(a[1], None) == 0 and astq.const_value(a[2], None) == -1
    run.check('R3', ok, 'the index runs backup_count-1 .. 1 in descending order', f, h.ast.iter,
              'the shift loop runs over %s: ascending order or wrong bounds overwrite or skip a '
              'segment' % norm_text(h.ast.iter), construct='shift loop range')
    iv = norm_text(h.ast.target)
    body = cfg.branch_nodes(h, 'true')
    names = {}
    for n in cfg.nodes:
        if n.id in body and n.kind == 'stmt' and isinstance(n.ast, ast.Assign) and \
                isinstance(n.ast.targets[0], ast.Name):
            names[n.ast.targets[0].id] = n.ast.value

    from sa.dataflow import reaching_defs
    rd = reaching_defs(ctx, f)

    def suffix(v):
        # f'{self._filename}.{X}'  ->  affine of X
        if isinstance(v, ast.JoinedStr) and len(v.values) == 3 and \
                isinstance(v.values[0], ast.FormattedValue) and \
                norm_text(v.values[0].value) == 'self._filename' and \
                isinstance(v.values[1], ast.Constant) and v.values[1].value == '.' and \
                isinstance(v.values[2], ast.FormattedValue):
            return affine(v.values[2].value, {iv: 'I'})
        if isinstance(v, ast.BinOp) and isinstance(v.op, ast.Add) and \
                norm_text(v.left) == "self._filename + '.'" and isinstance(v.right, ast.Call) and \
                dotted(v.right.func) == 'str' and len(v.right.args) == 1:
            return affine(v.right.args[0], {iv: 'I'})
        return None

    def one_suffix(node, e):
        alts = rd.expand(node, e, stop=(iv,))
        vals = [suffix(a.expr) for a in alts]
        return vals[0] if len(vals) == 1 else None
    ren = [n for n in cfg.nodes if n.id in body and any(dotted(c.func) == 'os.rename'
                                                        for c in n.calls())]
    if run.need('R3', ren, 'os.rename in the shift loop', f):
        for n in ren:
            c = [c for c in n.calls() if dotted(c.func) == 'os.rename'][0]
            s_, d_ = c.args
            ss, ds = one_suffix(n, s_), one_suffix(n, d_)
            run.check('R3', ss == {'I': 1} and ds == {'I': 1, '': 1}, 'each step renames .i to '
                      '.(i+1)', f, n.ast, 'the shift renames suffix %s to %s' % (ss, ds),
                      construct='shift rename step')
            rm = [x for x in cfg.nodes if x.id in body and any(
                dotted(cc.func) in ('os.remove', 'os.unlink') and norm_text(cc.args[0]) == norm_text(d_)
                for cc in x.calls())]
            run.check('R3', bool(rm) and all(cfg.reachable(x, n) for x in rm) and
                      not any(cfg.reachable(n, x) and not cfg.reachable(x, n) for x in rm),
                      'an existing destination is removed before the rename', f, n.ast)
    # base file -> .1 after the loop
    after = cfg.branch_nodes(h, 'false')
    base = [n for n in cfg.nodes if n.id in after and n.id not in body and any(
        dotted(c.func) == 'os.rename' and norm_text(c.args[0]) == 'self._filename'
        for c in n.calls())]
    if run.need('R3', base, 'rename of the active file after the loop', f,
                'the active file is not kept as backup .1'):
        for n in base:
            c = [c for c in n.calls() if dotted(c.func) == 'os.rename'][0]
            d_ = c.args[1]
            dv = None
            if isinstance(d_, ast.Name):
                cands = [x for x in cfg.nodes if x.id in after and x.kind == 'stmt' and
                         isinstance(x.ast, ast.Assign) and
                         norm_text(x.ast.targets[0]) == d_.id and cfg.dominates([x], n)]
                dv = cands[-1].ast.value if cands else None
            else:
                dv = d_
            run.check('R3', dv is not None and norm_text(dv) in ("self._filename + '.1'",
                                                                 "'%s.1' % self._filename",
                                                                 "f'{self._filename!s}.1'",
                                                                 "f'{self._filename}.1'"),
                      'the active file becomes backup .1', f, n.ast,
                      'the active file is renamed to %s' % (norm_text(dv) if dv is not None else '?'))
    def bc_pos(e):
        return positive_test(e, 'self._backup_count')
    for n in ren + base:
        run.check('R3', guarded(cfg, n, bc_pos, True), 'files are shifted only with '
                  'backup_count > 0', f, n.ast)


def r4(run, ctx):
    run.rule('R4', 'close -> rename -> reopen')
    f = ctx.fn(F + '_do_rollover')
    cfg = ctx.cfg(f)
    closes = [n for n in ctx.live_nodes(f) if any(astq.call_last(c) == 'close' and
                                                  '_file' in norm_text(c.func) for c in n.calls())]
    renames = [n for n in ctx.live_nodes(f) if any(dotted(c.func) == 'os.rename' for c in n.calls())]
    opens = [n for n in ctx.live_nodes(f) if any(norm_text(c.func) == 'self._open' for c in n.calls())]
    ok = run.need('R4', closes, 'file close in _do_rollover', f)
    ok &= run.need('R4', opens, 'reopen in _do_rollover', f, 'after a rollover nothing is open: '
                   'subsequent writes fail or are lost')
    if ok:
        from sa.idioms import combine

        def _present(e):
            v = none_test(e, 'self._file')
            return None if v is None else (not v)
        have_file = combine(_present, attr_truth('_file', True))
        for r in renames:
            rr = reach_under(cfg, cfg.entry, have_file, avoid=closes)
            run.check('R4', r.id not in rr, 'the file is closed before any rename', f, r.ast,
                      'a file is renamed while still open for writing')
            run.check('R4', not any(cfg.reachable(o, r) for o in opens), 'the reopen comes after '
                      'the last rename', f, r.ast)
        run.check('R4', cfg.must_pass(cfg.entry, [cfg.exit], opens, labels_excluded=('exc',)),
                  'every rollover ends with the active file reopened', f, opens[0].ast,
                  'a rollover path leaves the stream without an open file')
        for o in opens:
            run.check('R4', isinstance(o.ast, ast.Assign) and
                      norm_text(o.ast.targets[0]) == 'self._file', 'the reopened file becomes '
                      'the active one', f, o.ast)
    op = ctx.fn(B + '_open')
    modes = [c for n in ctx.live_nodes(op) for c in n.calls() if dotted(c.func) == 'open']
    run.check('R4', len(modes) == 1 and norm_text(modes[0].args[0]) == 'self._filename' and
              len(modes[0].args) > 1 and str(astq.const_value(modes[0].args[1], '')).startswith('a'),
              'the file is opened in append mode under its configured name', op, op.node,
              'the log file is opened with mode %s: existing content is truncated on (re)open'
              % (norm_text(modes[0].args[1]) if modes and len(modes[0].args) > 1 else '?'))
    o2 = ctx.fn(B + 'open')
    from rules.common import attr_stores
    cfgo = ctx.cfg(o2)
    reopen = [n for n in ctx.live_nodes(o2) if n.kind == 'stmt' and any(
        st is n.ast and isinstance(v, ast.Call) and norm_text(v.func) == 'self._open'
        for st, v in attr_stores(o2.node, '_file'))]

    def closed(e):
        return True if norm_text(e) == 'self._file.closed' else None

    def usable(e):
        # the stream holds a file object and it is open
        if norm_text(e) == 'self._file.closed':
            return False
        v = none_test(e, 'self._file')
        return None if v is None else (not v)
    in_use = reach_under(cfgo, cfgo.entry, usable, labels_excluded=('exc', 'raise', 'reraise'))
    run.check('R4', bool(reopen) and not any(n.id in in_use for n in reopen) and
              cfgo.exit.id not in reach_under(cfgo, cfgo.entry, closed, avoid=reopen,
                                              labels_excluded=('exc', 'raise', 'reraise')),
              'open() reopens the same file when closed (and only then)', o2, o2.node)
    c2 = ctx.fn(B + 'close')
    run.check('R4', 'self._file.close()' in norm_text(c2.node), 'close() closes the file', c2,
              c2.node)
    wf = ctx.fn(B + 'write_data')
    cfgw = ctx.cfg(wf)
    wr = [n for n in ctx.live_nodes(wf) if any(astq.call_last(c) == 'write' for c in n.calls())]
    fl = [n for n in ctx.live_nodes(wf) if any(astq.call_last(c) == 'flush' for c in n.calls())]
    run.check('R4', bool(fl) and cfgw.must_pass(cfgw.entry, [cfgw.exit], fl, labels_excluded=('exc',)),
              'every write is flushed', wf, wf.node)


def flat(t):
    return t.replace('(', '').replace(')', '').replace(' ', '')


def r5(run, ctx):
    run.rule('R5', 'line prefix')
    wf = ctx.fn(B + 'write_data')
    cfg = ctx.cfg(wf)
    t = norm_text(wf.node)

    def tf(e):
        r = none_test(e, 'self._time_format')
        return None if r is None else (not r)
    from sa.dataflow import reaching_defs
    rd = reaching_defs(ctx, wf)
    pre = []
    for n in ctx.live_nodes(wf):
        if n.kind == 'stmt' and isinstance(n.ast, ast.Assign) and \
                isinstance(n.ast.value, ast.JoinedStr):
            pre.append(n)
    if run.need('R5', pre, 'prefix construction in write_data', wf):
        for alt in rd.expand(pre[0], pre[0].ast.value):
            parts = astq.fstring_parts(alt.expr) or []
            shape = [p if isinstance(p, str) else '{}' for p in parts]
            vals = [p[0] for p in parts if not isinstance(p, str)]
            stamp_ok = len(vals) == 2 and vals[0].endswith('.strftime(self._time_format)') and (
                vals[0].startswith("self.fromtimestamp(data['timestamp'])") or
                vals[0].startswith('self.now()'))
            run.check('R5', shape == ['{}', ' [', '{}', '] | '] and stamp_ok and
                      vals[1] == "data['pid']", 'the prefix holds the timestamp and the pid of '
                      'the record', wf, pre[0].ast, 'the line prefix is %s' % alt.text()[:160],
                      construct='line prefix shape')
        run.check('R5', guarded(cfg, pre[0], tf, True), 'the prefix is built only with a '
                  'time_format', wf, pre[0].ast)
    # what is handed to the first write(): the payload itself, or - with a time_format -
    # prefix + every line; decided on the expansions of the written expression
    pname = norm_text(pre[0].ast.targets[0]) if pre else 'prefix'
    writes = [(n, c) for n in ctx.live_nodes(wf) for c in n.calls()
              if astq.call_last(c) == 'write' and c.args]
    handlers = [hn for hn in cfg.nodes if hn.kind == 'except']
    first_w = [(n, c) for n, c in writes if not any(cfg.dominates([hn], n) for hn in handlers)]
    want_plain = "to_str(data['data'])"
    want_pref = ("(%s + to_str(data['data']).rstrip('\\n')).replace('\\n', '\\n' + %s) + '\\n'"
                 % (pname, pname))
    # text the file's encoding rejects must still be written (replaced), not lost: the
    # fallback handler has to catch the encoding error of the first write
    ENC_OK = {'*', 'Exception', 'BaseException', 'UnicodeError', 'UnicodeEncodeError', 'ValueError'}
    for t in ast.walk(wf.node):
        if isinstance(t, ast.Try) and any(
                isinstance(c, ast.Call) and astq.call_last(c) == 'write'
                for st in t.body for c in ast.walk(st)):
            caught = set()
            for h in t.handlers:
                caught |= {'*'} if h.type is None else {
                    (dotted(x) or '').split('.')[-1] for x in
                    (h.type.elts if isinstance(h.type, ast.Tuple) else [h.type])}
            rewrites = [h for h in t.handlers if any(
                isinstance(c, ast.Call) and astq.call_last(c) == 'write' for st in h.body
                for c in ast.walk(st))]
            if rewrites:
                run.check('R5', bool(caught & ENC_OK), 'the replace-and-retry fallback catches the '
                          'encoding error of the first write', wf, t.handlers[0],
                          'the fallback only catches %s: a chunk the file encoding rejects raises '
                          'UnicodeEncodeError past it, after the rollover decision was already '
                          'taken - the chunk is lost and the retained data has a hole'
                          % sorted(caught), construct='fallback misses UnicodeEncodeError')
    seen = set()
    if run.need('R5', first_w, 'write of the record text', wf):
        for n, c in first_w:
            for alt in rd.expand(n, c.args[0], stop=(pname,)):
                t = alt.text()
                site = alt.used[0].ast if alt.used else n.ast
                if t == want_plain:
                    seen.add('plain')
                    run.check('R5', not rd.feasible(alt, lambda e: tf(e)),
                              'without a time_format the text written is exactly the payload '
                              '(and only then)', wf, site,
                              'with a time_format a record can be written without its prefix',
                              construct='unprefixed write with time_format')
                elif flat(t) == flat(want_pref):
                    seen.add('prefixed')
                    run.check('R5', not rd.feasible(alt, lambda e: (
                        None if tf(e) is None else (not tf(e)))),
                        'the prefix is added only with a time_format', wf, site,
                        'without a time_format the file is not an exact copy of the payload',
                        construct='prefixed write without time_format')
                else:
                    run.fail('R5', wf, site, 'with a time_format not every line carries the '
                             'prefix, or the payload is altered: the text written is %s' % t[:160],
                             construct='prefix every line')
        run.check('R5', seen == {'plain', 'prefixed'}, 'first line, every following line and the '
                  'final newline: prefix + line for every line; the bare payload otherwise', wf,
                  wf.node, 'forms of the written text found: %s' % sorted(seen),
                  construct='written text forms')


DELETERS = ('os.remove', 'os.unlink', 'os.rmdir', 'os.removedirs', 'shutil.rmtree',
            'os.truncate', 'shutil.move')


def r6(run, ctx):
    run.rule('R6', 'a rollover deletes nothing but the destination of the rename that follows')
    from sa.dataflow import reaching_defs
    f = ctx.fn(F + '_do_rollover')
    cfg = ctx.cfg(f)
    rd = reaching_defs(ctx, f)
    dels = ctx.nodes(f, astq.ev_calltext(*DELETERS))
    dels += [n for n in ctx.live_nodes(f) if n not in dels and
             any(astq.call_last(c) in ('unlink', 'rmtree') for c in n.calls())]
    renames = []
    for n in ctx.live_nodes(f):
        for c in n.calls():
            if dotted(c.func) in ('os.rename', 'os.replace') and len(c.args) == 2:
                renames.append((n, c))
    run.count('R6', len(dels), 2, 'deletions in FileStream._do_rollover')

    def texts(node, e):
        return {a.text() for a in rd.expand(node, e)} | {norm_text(e)}
    def beyond_count(e):
        # int(<suffix>) > self._backup_count (numbers compared as numbers): a file that is no
        # backup of this configuration any more
        if isinstance(e, ast.Compare) and len(e.ops) == 1:
            a, b, op = e.left, e.comparators[0], type(e.ops[0])
            if norm_text(a) == 'self._backup_count':
                a, b = b, a
                op = {ast.Lt: ast.Gt, ast.LtE: ast.GtE}.get(op)
            if norm_text(b) == 'self._backup_count' and op is ast.Gt:
                num = a
                if isinstance(a, ast.Name):
                    alts = rd.expand(stmt_of[id(e)], a) if id(e) in stmt_of else []
                    num = alts[0].expr if len(alts) == 1 else a
                if isinstance(num, ast.Call) and dotted(num.func) == 'int':
                    return True
        return None
    stmt_of = {}
    for n in cfg.nodes:
        if n.kind == 'test':
            for e in ast.walk(n.ast):
                stmt_of[id(e)] = n
    def oldest(node, e):
        # <filename>.<backup_count>: the oldest backup - dropping it early shortens the tail
        # but keeps it contiguous
        for a in rd.expand(node, e):
            v = a.expr
            num = None
            if isinstance(v, ast.JoinedStr) and len(v.values) == 3 and \
                    isinstance(v.values[0], ast.FormattedValue) and \
                    norm_text(v.values[0].value) == 'self._filename' and \
                    isinstance(v.values[1], ast.Constant) and v.values[1].value == '.' and \
                    isinstance(v.values[2], ast.FormattedValue):
                num = v.values[2].value
            elif isinstance(v, ast.BinOp) and isinstance(v.op, ast.Add) and \
                    norm_text(v.left) == "self._filename + '.'" and \
                    isinstance(v.right, ast.Call) and dotted(v.right.func) == 'str' and \
                    len(v.right.args) == 1:
                num = v.right.args[0]
            elif isinstance(v, ast.BinOp) and isinstance(v.op, ast.Mod) and \
                    astq.const_value(v.left, None) in ('%s.%d', '%s.%s') and \
                    isinstance(v.right, ast.Tuple) and len(v.right.elts) == 2 and \
                    norm_text(v.right.elts[0]) == 'self._filename':
                num = v.right.elts[1]
            if num is None or affine(num, {'self._backup_count': 'BC'}) != {'BC': 1}:
                return False
        return True
    for x in dels:
        direct = [c for c in x.calls() if dotted(c.func) in DELETERS or
                  astq.call_last(c) in ('unlink', 'rmtree')]
        ok = bool(direct)
        if ok and all(dotted(c.func) in ('os.remove', 'os.unlink') and len(c.args) == 1 and
                      oldest(x, c.args[0]) for c in direct):
            run.check('R6', True, 'the oldest backup may be dropped', f, x.ast)
            continue
        if ok and all(dotted(c.func) in ('os.remove', 'os.unlink') for c in direct) and \
                guarded(cfg, x, beyond_count, True):
            run.check('R6', True, 'a file numbered beyond backup_count may be swept', f, x.ast)
            continue
        for c in direct:
            if dotted(c.func) not in ('os.remove', 'os.unlink') or len(c.args) != 1:
                ok = False
                continue
            t = texts(x, c.args[0])
            pair = [n for n, rc in renames if n is not x and cfg.reachable(x, n) and
                    texts(n, rc.args[1]) & t]
            ok = ok and bool(pair) and cfg.exit.id not in cfg.reach(
                x, avoid=pair, labels_excluded=('exc', 'raise', 'reraise'))
        run.check('R6', ok, 'the file removed is the destination of the rename that follows', f,
                  x.ast, 'a rollover removes a file that no following rename replaces: a numbered '
                  'backup disappears without its successor taking the number, so oldest-to-newest '
                  'is no longer a contiguous tail (string comparison of suffixes, a stale-file '
                  'sweep, a wrong name)', construct='UNPAIRED-REMOVAL')
