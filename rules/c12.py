"""C12 - reloadconfig converges to the file and disturbs only what changed."""
import ast

from sa import astq
from sa.astq import norm_text
from sa.idioms import guarded, reach_under, attr_truth, combine
from sa.project import dotted, walk_local, AnalysisError

EXPLANATION = (    "Shape of Arbiter.reload_from_config decided on its CFG and def-use chains: "
    "R1 the value that decides `changed` depends on added and removed option "
    "keys as well as changed ones; R2 every branch that changes a live watcher "
    "leaves the baseline the next reload diffs against equal to the new file "
    "(the numprocesses-only branch must update w._cfg); R3 set provenance - "
    "names enter the deleted/added sets only from current-new, new-current, the "
    "socket-change sets, or under `changed`, `changed` is false for a "
    "numprocesses-only diff, and the only watcher-affecting calls are "
    "set_numprocesses in that branch, _stop over deleted names and "
    "start_watcher over added names; R5 both sides of the comparison are "
    "normalised the same way (parse_env_dict, the same env-exception filter) and "
    "get_config sorts its lists; R6 an [circus]-section change restarts "
    "everything and returns before the per-watcher logic."
    "R2 also requires helpers that modify their dict argument (get_stream) to be given a copy, so that building a watcher does not damage the remembered baseline. "
    "Decides these "
    "necessary conditions, not equality with a fresh start for all files.")
ASSUMPTIONS = ["the [circus] and socket sections are held fixed (property text)"]

A = 'circus.arbiter:Arbiter.'
W = 'circus.watcher:Watcher.'


def check(run, ctx):
    run.each(ctx, [r1, r2, r3, r5, r6, r7, r8, r9, r10])


def _f(ctx):
    return ctx.fn(A + 'reload_from_config')


def r7(run, ctx):
    from rules import c16
    run.share(ctx, c16.r1, 'R1', 'R7', 'two parses of the file give two independent '
              'configurations (shared with C16 R1, the freshness obligations): reload_from_config '
              'compares the new parse with the one the watcher was built from, and nested option '
              'dicts (rlimits, hooks, stream options) that are one shared object always compare '
              'equal - edits to them are never applied',
              keep=lambda key: 'share nested containers' in key)


def r1(run, ctx):
    run.rule('R1', 'change detection is complete')
    f = _f(ctx)
    used = set()
    differ_nodes = []
    for n in ctx.live_nodes(f):
        for c in n.calls():
            if astq.call_last(c) in ('changed', 'added', 'removed', 'unchanged') and \
                    isinstance(c.func, ast.Attribute):
                v = c.func.value
                if isinstance(v, ast.Call) and astq.call_last(v) == 'DictDiffer':
                    used.add(astq.call_last(c))
                    differ_nodes.append(n)
                elif isinstance(v, ast.Name):
                    for a in walk_local(f.node):
                        if isinstance(a, ast.Assign) and isinstance(a.value, ast.Call) and \
                                astq.call_last(a.value) == 'DictDiffer' and any(
                                    isinstance(t, ast.Name) and t.id == v.id for t in a.targets):
                            used.add(astq.call_last(c))
                            differ_nodes.append(n)
    whole = [n for n in ctx.live_nodes(f) if n.kind in ('test', 'stmt') and any(
        isinstance(e, ast.Compare) and {'new_watcher_cfg', 'old_watcher_cfg'} <=
        astq.names_in(e) for e in n.walk())]
    if not differ_nodes and not whole:
        raise AnalysisError('C12 R1: no per-watcher comparison found in reload_from_config')
    ok = bool(whole) or {'changed', 'added', 'removed'} <= used
    run.check('R1', ok, 'the per-watcher diff consults changed, added and removed keys', f,
              differ_nodes[0].ast if differ_nodes else f.node,
              'only DictDiffer.%s() is consulted: adding an option that has no default '
              '(max_age, stdin_socket, virtualenv, ...) or deleting one is not noticed by '
              'reloadconfig' % '/'.join(sorted(used)),
              construct='DictDiffer consults only %s' % '/'.join(sorted(used)).upper())
    dd = ctx.p.cls('circus.util:DictDiffer')
    ch = dd.methods['changed']
    run.check('R1', 'self.intersect' in norm_text(ch.node) and '!=' in norm_text(ch.node),
              'DictDiffer.changed compares values of common keys', ch, ch.node)


def _np_branch(ctx, f):
    cfg = ctx.cfg(f)
    sn = [s.node for s in ctx.sites_calling(f, [W + 'set_numprocesses'])]
    return cfg, sn


def r2(run, ctx):
    run.rule('R2', 'the baseline follows every applied change')
    f = _f(ctx)
    cfg, sn = _np_branch(ctx, f)
    if not run.need('R2', sn, 'set_numprocesses call (numprocesses-only branch)', f,
                    'a numprocesses-only edit is not applied by reloadconfig'):
        return
    upd = []
    for n in ctx.live_nodes(f):
        if n.kind == 'stmt':
            for t in astq.attr_targets(n.ast):
                base = t
                while isinstance(base, ast.Subscript):
                    base = base.value
                if isinstance(base, ast.Attribute) and base.attr == '_cfg' and \
                        isinstance(base.value, ast.Name) and base.value.id == 'w':
                    upd.append(n)
        for c in n.calls():
            if astq.call_last(c) == 'update' and '_cfg' in norm_text(c.func):
                upd.append(n)
    for s in sn:
        hdr = [h for h in cfg.nodes if h.kind == 'iter' and s.id in cfg.branch_nodes(h, 'true')]
        r = cfg.reach(s, avoid=upd, labels_excluded=('exc',))
        escaped = bool(hdr) and hdr[0].id in r or cfg.exit.id in r
        run.check('R2', not escaped, 'after set_numprocesses the remembered configuration '
                  '(w._cfg) is updated before the next watcher is examined', f, s.ast,
                  'the numprocesses-only branch leaves w._cfg stale: reverting the edit '
                  '(2 -> 3 -> 2) diffs equal against the old baseline and the watcher stays at 3')
    for u in upd:
        if isinstance(u.ast, ast.Assign) and isinstance(u.ast.targets[0], ast.Subscript):
            k = astq.const_value(u.ast.targets[0].slice)
            run.check('R2', k == 'numprocesses' and "['numprocesses']" in norm_text(u.ast.value),
                      'the baseline takes the value from the new file', f, u.ast)
    # set_numprocesses is awaited and takes the new file's value
    for s in ctx.sites_calling(f, [W + 'set_numprocesses']):
        run.check('R2', astq.call_is_yielded(s.node, s.call) and
                  astq.has_pattern(s.call, "$n['numprocesses']"),
                  'the new target comes from the new file and is awaited', f, s.node.ast)
    # the remembered configuration must not be damaged by constructing the watcher:
    # every helper that mutates its dict argument gets a copy
    from rules.common import is_fresh_container
    init = ctx.fn(W + '__init__')
    for s in ctx.sites(init):
        if s.kind != 'call' or not s.precise:
            continue
        for t in s.targets:
            if t.cls is not None or not t.node.args.args:
                continue
            p0 = t.node.args.args[0].arg
            mutates = any(
                (isinstance(x, ast.Call) and isinstance(x.func, ast.Attribute) and
                 x.func.attr in ('pop', 'popitem', 'clear', 'update', 'setdefault') and
                 dotted(x.func.value) == p0) or
                (isinstance(x, ast.Delete) and any(isinstance(y, ast.Subscript) and
                                                   dotted(y.value) == p0 for y in x.targets)) or
                (isinstance(x, ast.Assign) and any(isinstance(y, ast.Subscript) and
                                                   dotted(y.value) == p0 for y in x.targets))
                for x in ast.walk(t.node))
            if not mutates or not s.call.args:
                continue
            arg = s.call.args[0]
            src = arg
            if isinstance(arg, ast.Attribute) and dotted(arg.value) == 'self':
                defs = [a for a in walk_local(init.node) if isinstance(a, ast.Assign) and any(
                    isinstance(tt, ast.Attribute) and tt.attr == arg.attr and
                    dotted(tt.value) == 'self' for tt in a.targets)]
                src = defs[0].value if defs else arg
            run.check('R2', is_fresh_container(src), '%s (which modifies its argument) is given a '
                      'copy of the constructor argument' % t.qualname, init, s.node.ast,
                      '%s modifies the very dict object the caller passed in (%s): building a '
                      'watcher from a configuration damages the remembered baseline (w._cfg shares '
                      'it), so every later reloadconfig sees a difference and recreates the '
                      'watcher' % (t.qualname, norm_text(src)),
                      construct='%s mutates caller dict via %s' % (t.name, norm_text(src)))
    # delete+add replaces the watcher object (fresh _cfg)
    lf = ctx.fn(W + 'load_from_config')
    run.check('R2', astq.has_pattern(lf.node, '$w._cfg = $c') and
              (astq.has_pattern(lf.node, '$c = $config.copy()') or
               astq.has_pattern(lf.node, '$c = dict($config)') or
               astq.has_pattern(lf.node, '$c = copy.copy($config)')), 'a (re)created watcher remembers the configuration it was '
              'built from', lf, lf.node)


def r3(run, ctx):
    run.rule('R3', 'set provenance: only changed names are disturbed')
    f = _f(ctx)
    cfg, sn = _np_branch(ctx, f)
    src = {}
    for a in walk_local(f.node):
        if isinstance(a, ast.Assign) and len(a.targets) == 1 and isinstance(a.targets[0], ast.Name):
            src.setdefault(a.targets[0].id, []).append(a)
    # the three name sets as functions of (running now, in the new file, uses a changed
    # socket): decided by evaluating the set algebra for one element of each class
    CLASSES = (
        ('an unchanged watcher', dict(current_wn=True, new_wn=True, wn_with_changed_socket=False),
         dict(added_wn=False, deleted_wn=False, maybechanged_wn=True)),
        ('a watcher removed from the file', dict(current_wn=True, new_wn=False, wn_with_changed_socket=False),
         dict(added_wn=False, deleted_wn=True, maybechanged_wn=False)),
        ('a watcher new in the file', dict(current_wn=False, new_wn=True, wn_with_changed_socket=False),
         dict(added_wn=True, deleted_wn=False, maybechanged_wn=False)),
        ('a running watcher whose socket section changed',
         dict(current_wn=True, new_wn=True, wn_with_changed_socket=True),
         dict(added_wn=True, deleted_wn=True)),
    )
    for name in ('added_wn', 'deleted_wn', 'maybechanged_wn'):
        defs = src.get(name, [])
        if not defs:
            raise AnalysisError('C12 R3: set %s not found in reload_from_config' % name)
        run.check('R3', len(defs) == 1, '%s is defined once' % name, f, defs[0])
    for label, env0, want in CLASSES:
        env = dict(env0)
        for name in ('added_wn', 'deleted_wn', 'maybechanged_wn'):
            got = _set_member(src[name][0].value, env)
            env[name] = got
            if name in want:
                run.check('R3', got is None or got == want[name],
                          '%s: %s %s' % (label, 'in' if want[name] else 'not in', name), f,
                          src[name][0],
                          '%s = %s: %s is %s it - watchers are disturbed (or left alone) for '
                          'reasons other than a name / socket difference'
                          % (name, norm_text(src[name][0].value), label,
                             'not in' if want[name] else 'in'),
                          construct='NAME-SET %s' % name)
    for nm in ('current_wn', 'new_wn'):
        if nm not in src:
            raise AnalysisError('C12 R3: %s not found' % nm)

    def diff_nonempty(e):
        """truth of e when the per-watcher diff is non-empty"""
        if isinstance(e, ast.Compare) and len(e.ops) == 1 and isinstance(e.left, ast.Call) and \
                dotted(e.left.func) == 'len' and norm_text(e.left.args[0]) == 'diff':
            k = astq.const_value(e.comparators[0], None)
            op = type(e.ops[0])
            if (op, k) in ((ast.Gt, 0), (ast.GtE, 1), (ast.NotEq, 0)):
                return True
            if (op, k) in ((ast.Eq, 0), (ast.LtE, 0), (ast.Lt, 1)):
                return False
        if isinstance(e, ast.Name) and e.id == 'diff':
            return True
        if isinstance(e, ast.Compare) and len(e.ops) == 1 and norm_text(e.left) == 'diff' and \
                norm_text(e.comparators[0]) == 'set()':
            return isinstance(e.ops[0], ast.NotEq)
        return None

    def np_only(e):
        if isinstance(e, ast.Compare) and isinstance(e.left, ast.Name) and e.left.id == 'diff' \
                and len(e.ops) == 1 and isinstance(e.ops[0], (ast.Eq, ast.NotEq)) and \
                isinstance(e.comparators[0], ast.Set) and \
                [astq.const_value(x) for x in e.comparators[0].elts] == ['numprocesses']:
            return isinstance(e.ops[0], ast.Eq)
        return None
    adds = []
    for n in ctx.live_nodes(f):
        for c in n.calls():
            if astq.call_last(c) in ('add', 'update') and isinstance(c.func, ast.Attribute) and \
                    dotted(c.func.value) in ('deleted_wn', 'added_wn', 'changed_wn'):
                adds.append(n)
    run.need('R3', adds, 'changed watchers are scheduled for delete+add', f,
             'a watcher whose options changed is never replaced')
    diffs = [n for n in ctx.live_nodes(f) if n.kind == 'stmt' and isinstance(n.ast, ast.Assign) and
             norm_text(n.ast.targets[0]) == 'diff']
    run.count('R3', len(diffs), 1, 'per-watcher diff')
    for n in adds:
        run.check('R3', guarded(cfg, n, diff_nonempty, True) and guarded(cfg, n, np_only, False),
                  'a watcher is scheduled for replacement only when its options differ in more '
                  'than numprocesses', f, n.ast,
                  'a watcher is stopped and recreated although nothing but (at most) '
                  'numprocesses changed')
    # ... and whenever they do: with a non-empty diff that is not numprocesses alone, the
    # next iteration / the end of the loop is not reached without scheduling it
    for d in diffs:
        asm = combine(lambda e: diff_nonempty(e), lambda e: (
            None if np_only(e) is None else (not np_only(e))))
        hdr = [h for h in cfg.nodes if h.kind == 'iter' and d.id in cfg.branch_nodes(h, 'true')]
        if hdr and adds:
            r = reach_under(cfg, d, asm, avoid=adds, labels_excluded=('exc',))
            run.check('R3', hdr[-1].id not in r and cfg.exit.id not in r,
                      'a watcher whose options differ is always scheduled for replacement', f,
                      d.ast, 'a changed watcher can be skipped')
    for s in sn:
        run.check('R3', guarded(cfg, s, np_only, True), 'set_numprocesses is used exactly when '
                  'numprocesses is the only difference', f, s.ast)
    # watcher-affecting calls and their loops
    stops = ctx.sites_calling(f, [W + '_stop'])
    starts = ctx.sites_calling(f, [A + 'start_watcher'])
    run.need('R3', stops, 'Watcher._stop over deleted names', f, 'removed sections keep running')
    run.need('R3', starts, 'start_watcher over added names', f, 'added sections are not started')
    for s, setname in [(x, 'deleted_wn') for x in stops] + [(x, 'added_wn') for x in starts]:
        hdr = [h for h in cfg.nodes if h.kind == 'iter' and s.node.id in cfg.branch_nodes(h, 'true')]
        inner = [h for h in hdr if norm_text(h.ast.iter) == setname]
        run.check('R3', bool(inner), '%s is applied to the names in %s only' % (s.name, setname),
                  f, s.node.ast, '%s is applied to watchers outside %s' % (s.name, setname))
        run.check('R3', astq.call_is_yielded(s.node, s.call), '%s is awaited' % s.name, f,
                  s.node.ast)
    allowed = {W + 'set_numprocesses', W + '_stop', A + 'start_watcher', A + '_restart',
               W + 'initialize', W + 'load_from_config', W + '__init__'}
    for s in ctx.sites(f):
        if s.kind == 'call' and any(t.key.startswith(W) and (t.is_coroutine or t.synchronized)
                                    and t.key not in allowed for t in s.targets):
            run.fail('R3', f, s.node.ast, 'reloadconfig calls %s on a watcher outside the three '
                     'planned actions' % s.name)


def r5(run, ctx):
    run.rule('R5', 'both sides of the comparison are normalised the same way')
    f = _f(ctx)
    txt = norm_text(f.node)
    run.check('R5', astq.has_pattern(txt, "$n['env'] = parse_env_dict($n['env'])"),
              "the new side's env goes through parse_env_dict", f, f.node)
    lf = ctx.fn(W + 'load_from_config')
    t2 = norm_text(lf.node)
    copies = [k for k in ('.copy()', 'dict(config)', 'copy.copy(', 'copy.deepcopy(') if k in t2]
    run.check('R5', astq.has_pattern(t2, "$c['env'] = parse_env_dict($c['env'])") and
              bool(copies) and t2.index("parse_env_dict") < min(t2.index(k) for k in copies),
              "the remembered side's env went through parse_env_dict before it was stored", lf,
              lf.node, 'the baseline keeps the raw env while the new side is parsed: every '
              'reload sees a difference')
    loops = [n for n in ast.walk(f.node) if isinstance(n, ast.For) and
             norm_text(n.iter) == '_ENV_EXCEPTIONS']
    # ... or both sides' env rebuilt without the excepted keys (a filtering comprehension)
    rebuilt = set()
    for st in ast.walk(f.node):
        if isinstance(st, ast.Assign) and len(st.targets) == 1 and \
                isinstance(st.targets[0], ast.Subscript) and \
                astq.const_value(st.targets[0].slice, None) == 'env':
            for c in ast.walk(st.value):
                if isinstance(c, ast.comprehension) and any(
                        isinstance(i, ast.Compare) and len(i.ops) == 1 and
                        isinstance(i.ops[0], ast.NotIn) and
                        norm_text(i.comparators[0]) == '_ENV_EXCEPTIONS' for i in c.ifs):
                    rebuilt.add(norm_text(st.targets[0].value))
    if len(rebuilt) >= 2:
        run.check('R5', True, 'the env exceptions are dropped from both sides', f, f.node)
    elif run.need('R5', loops, 'env-exception filter loop', f):
        body = ' '.join(norm_text(x) for x in loops[0].body)
        dels = set(astq.pattern_regex("del $d['env'][$k]").findall(body))
        run.check('R5', len(dels) >= 2,
                  'the env exceptions are dropped from both sides', f, loops[0])
    run.check('R5', astq.has_pattern(txt, '$o = $w._cfg.copy()') or
              astq.has_pattern(txt, '$o = dict($w._cfg)') or
              astq.has_pattern(txt, '$o = copy.copy($w._cfg)') or
              astq.has_pattern(txt, '$o = copy.deepcopy($w._cfg)'), 'the baseline is compared through a '
              'copy (the filter does not damage it)', f, f.node)
    gc = ctx.fn('circus.config:get_config')
    t3 = norm_text(gc.node)
    run.check('R5', all(('%s.sort(key=name)' % x) in t3 for x in ('watchers', 'plugins', 'sockets')),
              'get_config returns name-sorted lists', gc, gc.node)
    gw = ctx.fn(A + 'get_watcher_config')
    run.check('R5', (astq.has_pattern(gw.node, "$i['name'] == name") or astq.has_pattern(gw.node, "name == $i['name']")) and
              (astq.has_pattern(gw.node, 'return $i.copy()') or
               astq.has_pattern(gw.node, 'return dict($i)') or
               astq.has_pattern(gw.node, 'return copy.copy($i)') or
               astq.has_pattern(gw.node, 'return copy.deepcopy($i)')),
              'the new side is a copy of the section with that name', gw, gw.node)


def r6(run, ctx):
    run.rule('R6', 'an arbiter-section change restarts everything')
    f = _f(ctx)
    cfg = ctx.cfg(f)
    tests = [t for t in cfg.nodes if t.kind == 'test' and 'get_arbiter_config' in norm_text(t.ast)
             and 'self._cfg' in norm_text(t.ast)]
    if not run.need('R6', tests, 'comparison of the [circus] section with the remembered one', f):
        return
    t = tests[0]
    rs = [s.node for s in ctx.sites_calling(f, [A + '_restart']) if astq.call_is_yielded(s.node, s.call)]
    run.need('R6', rs, 'awaited _restart', f)
    # the branch taken when the two sections differ
    differ = None
    if isinstance(t.ast, ast.Compare) and len(t.ast.ops) == 1:
        differ = {ast.NotEq: 'true', ast.Eq: 'false'}.get(type(t.ast.ops[0]))
    if differ is None:
        raise AnalysisError('C12 R6: unrecognised arbiter-section comparison %s' % norm_text(t.ast))
    tb = cfg.branch_nodes(t, differ) - cfg.branch_nodes(t, 'false' if differ == 'true' else 'true')
    for r in rs:
        run.check('R6', r.id in tb, 'the restart belongs to the changed-arbiter branch', f, r.ast)
        after = cfg.reach(r, labels_excluded=('exc',))
        work = [n for n in cfg.nodes if n.id in after and n.kind == 'iter']
        run.check('R6', not work, 'after the restart nothing else is done', f, r.ast)
    for s in ctx.sites_calling(f, [W + '_stop', W + 'set_numprocesses', A + 'start_watcher']):
        run.check('R6', cfg.dominates([t], s.node), 'the per-watcher logic runs only after the '
                  'arbiter-section test', f, s.node.ast)
    gn = [s.node for s in ctx.sites_calling(f, ['circus.config:get_config'])]
    run.check('R6', bool(gn) and cfg.dominates(gn, t), 'the file is parsed afresh on every reload',
              f, t.ast)


def r8(run, ctx):
    from rules import c01
    run.share(ctx, c01.r3, 'R3', 'R8', 'a numprocesses edit is applied by the process manager '
              '(shared with C01 R3, deficit and surplus are exact): the numprocesses-only branch '
              'of reload_from_config just calls set_numprocesses - if the surplus selection '
              'is off for some target (e.g. an empty slice for 0) the daemon does not run what '
              'the file says and later reloads see nothing to do')


def _set_member(e, env):
    """membership of one element in a set expression built with | & - from named sets"""
    if isinstance(e, ast.Name):
        return env.get(e.id)
    if isinstance(e, ast.BinOp):
        a, b = _set_member(e.left, env), _set_member(e.right, env)
        if a is None or b is None:
            return None
        if isinstance(e.op, ast.BitOr):
            return a or b
        if isinstance(e.op, ast.BitAnd):
            return a and b
        if isinstance(e.op, ast.Sub):
            return a and not b
    return None


def r9(run, ctx):
    run.rule('R9', 'an edited socket section is applied: its watchers are stopped and re-created')
    from sa.dataflow import reaching_defs
    f = _f(ctx)
    cfg = ctx.cfg(f)
    rd = reaching_defs(ctx, f)
    # (a) no test asks whether a SET is an element of a set of names (never true: the guard
    # "watchers using a deleted socket" then fires for every socket that merely changed)
    n = 0
    for t in cfg.nodes:
        if t.kind != 'test':
            continue
        for e in ast.walk(t.ast):
            if isinstance(e, ast.Compare) and len(e.ops) == 1 and \
                    isinstance(e.ops[0], (ast.In, ast.NotIn)) and isinstance(e.left, ast.Name):
                n += 1
                alts = rd.expand(t, e.left)
                is_set = bool(alts) and all(
                    isinstance(a.expr, (ast.Set, ast.SetComp)) or
                    (isinstance(a.expr, ast.Call) and dotted(a.expr.func) in ('set', 'frozenset'))
                    or (isinstance(a.expr, ast.BinOp) and
                        isinstance(a.expr.op, (ast.BitOr, ast.BitAnd, ast.Sub)))
                    for a in alts)
                run.check('R9', not is_set, 'membership tests are asked of names, not of sets',
                          f, t.ast, 'reload_from_config tests whether the SET %s is an element '
                          'of %s: that is never true, so the "socket is deleted" error is raised '
                          'for every watcher whose socket section merely changed - the edit is '
                          'refused after the old socket was already closed'
                          % (e.left.id, norm_text(e.comparators[0])), construct='SET-IN-SET')
    # (b) a watcher re-created because its socket changed is removed first
    SETS = ('current_wn', 'new_wn', 'wn_with_changed_socket')
    env = {'current_wn': True, 'new_wn': True, 'wn_with_changed_socket': True}
    loops = {}
    for h in cfg.nodes:
        if h.kind == 'iter' and isinstance(h.ast.iter, ast.Name) and \
                h.ast.iter.id in ('deleted_wn', 'added_wn'):
            loops[h.ast.iter.id] = h
    if run.need('R9', list(loops) if len(loops) == 2 else [], 'the delete and add loops over watcher names', f):
        res = {}
        for nm, h in loops.items():
            vals = [_set_member(a.expr, env) for a in rd.expand(h, h.ast.iter, stop=SETS)]
            res[nm] = vals
        added = any(v is True for v in res['added_wn'])
        removed = all(v is True for v in res['deleted_wn']) and bool(res['deleted_wn'])
        unknown = any(v is None for v in res['added_wn'] + res['deleted_wn'])
        run.check('R9', unknown or not added or removed,
                  'a running watcher that is re-created for a changed socket is stopped and '
                  'removed first', f, loops['deleted_wn'].ast.iter,
                  'a watcher whose socket section changed is added again without being stopped: '
                  'two watchers of that name, the old workers keep the closed socket',
                  construct='RECREATED-NOT-REMOVED')
    run.count('R9', n, 1, 'membership tests in reload_from_config')


def r10(run, ctx):
    run.rule('R10', 'reloadconfig leaves the watchers created through the API alone')
    from rules.common import reload_spares_ignored
    reload_spares_ignored(run, ctx, 'R10', 'watchers')
