"""C04 - process accounting is exact."""
import ast

from sa import astq
from sa.astq import ev_setattr, ev_hook, ev_notify, norm_text
from sa.idioms import (guarded, call_consumed, is_discarded, reach_under, combine,
                       attr_truth, edges_requiring)
from sa.raises import Escapes
from sa.project import dotted, walk_local

EXPLANATION = (    "Bookkeeping shape decided on CFG/call graph: R1 in spawn_process the new "
    "child is put into the process table before any hook, event, yield or "
    "return; R2 every removal from the table is inside reap_process, or "
    "control-dependent on the truthy result of an awaited kill_process, or on a "
    "DEAD/UNEXISTING status test; R3 Arbiter.reap_processes waits for any child "
    "(waitpid(-1, WNOHANG)) in a loop that is not conditioned on watcher "
    "membership; R4 after a transient status ('starting'/'stopping') is written "
    "no in-package explicit raise can leave the function without a stable "
    "status being written; R5 list/numprocesses/stats/status read the one "
    "process table and status field; R6 a refused adoption (after_spawn false) "
    "removes the entry it registered and returns False. Shared with C02 R4: "
    "'stopped' only after kill+reap."
    "R2 also requires the dead-entry sweep to cover both dead statuses and the wait status to come from waitpid only; R3 also requires the reap receiver to be the pid-map lookup; R6 also requires the kill of a refused child to be issued while it is still tracked. "
    "Decides these necessary conditions, not "
    "agreement with the kernel's process table.")
ASSUMPTIONS = ["posix platform",
               "exceptions modelled: explicit `raise X(...)` statements of the package "
               "reachable through resolved calls and callback references; table "
               "exception: reap_process's RuntimeError('Unknown process exit status') is "
               "unreachable because waitpid is called without WUNTRACED"]

W = 'circus.watcher:Watcher.'
A = 'circus.arbiter:Arbiter.'
P = 'circus.process:Process.'


def check(run, ctx):
    run.each(ctx, [r1, r2, r3, r4, r5, r6, r7, r8, r9, r10, r11, r12, r13, r14])


def r10(run, ctx):
    run.rule('R10', "a watcher's process table is written by the watcher alone")
    # R1-R9 reason about the methods of Watcher; they say nothing about the table if other
    # code inserts into it or pops from it (no status test, no event, no reap, no kill)
    from rules.common import mutator_nodes
    n = 0
    for f in ctx.p.all_functions():
        if not f.module.name.startswith('circus.') or f.module.name.startswith('circus.tests'):
            continue
        owner = f.cls.key if f.cls is not None else (
            f.outer_cls.key if getattr(f, 'outer_cls', None) is not None else None)
        if owner == 'circus.watcher:Watcher':
            n += 1
            continue
        for node, what in mutator_nodes(ctx, f):
            if 'processes' in what and 'numprocesses' not in what:
                run.fail('R10', f, node.ast, '%s %s from outside Watcher: the entry bypasses '
                         'registration, status tests, events and reaping (a worker put into a '
                         'stopped watcher is never managed; one taken out is never reaped)'
                         % (f.qualname, what), construct='process table written outside Watcher')
    run.count('R10', n, 20, 'Watcher methods (the only writers)')


def r9(run, ctx):
    run.rule('R9', "the arbiter's _stopping flag is only raised on the way down")
    # manage_watchers (zombie sweep, dead-entry sweep, respawn) returns at once while
    # _stopping is set: raising it is final unless it is lowered again
    acls = ctx.p.cls('circus.arbiter:Arbiter')
    n = 0
    for m in acls.methods.values():
        if m.name == '__init__':
            continue
        cfg = ctx.cfg(m)
        ups = ctx.direct_nodes(m, ev_setattr('_stopping', True))
        downs = ctx.direct_nodes(m, ev_setattr('_stopping', False))
        from rules.common import loop_stop_nodes
        going_down = [x for x, _ in loop_stop_nodes(ctx, m)]
        for u in ups:
            n += 1
            r = cfg.reach(u, avoid=downs + going_down, labels_excluded=('exc', 'raise', 'reraise'))
            run.check('R9', cfg.exit.id not in r, '%s raises _stopping only when the arbiter is '
                      'shut down (or lowers it again)' % m.qualname, m, u.ast,
                      '%s can return with _stopping left set although the arbiter keeps running: '
                      'every later periodic check returns at once - dead workers stay listed, '
                      'zombies are never collected, nothing is respawned' % m.qualname,
                      construct='_stopping left set')
    run.count('R9', n, 2, 'writes of Arbiter._stopping = True')


def r8(run, ctx):
    from rules import c02
    run.share(ctx, c02.r2, 'R2', 'R8', 'the result of kill_process means "terminated, may be '
              'forgotten" (shared with C02 R2): it is true only after Process.stop(), never for a '
              'kill that is merely in flight - otherwise R2\'s "removal after a true kill result" '
              'untracks live workers')


def registrations(ctx, f):
    out = []
    for n in ctx.live_nodes(f):
        if n.kind == 'stmt' and isinstance(n.ast, ast.Assign):
            for t in n.ast.targets:
                if isinstance(t, ast.Subscript) and isinstance(t.value, ast.Attribute) \
                        and t.value.attr == 'processes' and dotted(t.value.value) == 'self':
                    out.append(n)
    return out


def removals(ctx, f):
    out = []
    for n in ctx.live_nodes(f):
        hit = False
        for c in n.calls():
            if isinstance(c.func, ast.Attribute) and c.func.attr in ('pop', 'popitem', 'clear') \
                    and isinstance(c.func.value, ast.Attribute) and \
                    c.func.value.attr == 'processes':
                hit = True
        if n.kind == 'stmt' and isinstance(n.ast, ast.Delete):
            for t in n.ast.targets:
                if isinstance(t, ast.Subscript) and isinstance(t.value, ast.Attribute) \
                        and t.value.attr == 'processes':
                    hit = True
        if n.kind == 'stmt' and isinstance(n.ast, ast.Assign):
            for t in n.ast.targets:
                if isinstance(t, ast.Attribute) and t.attr == 'processes':
                    hit = True
        if hit:
            out.append(n)
    return out


def r1(run, ctx):
    run.rule('R1', 'register-before-anything in spawn_process')
    f = ctx.fn(W + 'spawn_process')
    cfg = ctx.cfg(f)
    cons = ctx.nodes_calling(f, [P + '__init__'])
    regs = registrations(ctx, f)
    ok = run.need('R1', cons, 'Process construction', f)
    ok &= run.need('R1', regs, 'registration self.processes[pid] = process', f)
    if not ok:
        return
    hooks = ctx.direct_nodes(f, astq.Ev('callattr', frozenset(['call_hook'])))
    events = ctx.direct_nodes(f, ev_notify('spawn'))
    ys = [n for n in ctx.live_nodes(f) if astq.has_yield(n)]
    rets = [n for n in ctx.live_nodes(f) if n.kind == 'stmt' and isinstance(n.ast, ast.Return)]
    for c in cons:
        r = cfg.reach(c, avoid=regs, labels_excluded=('exc',))
        for kind, ns in (('hook call', hooks), ('spawn event', events), ('suspension', ys),
                         ('return', rets)):
            bad = [n for n in ns if n.id in r]
            run.check('R1', not bad, 'no %s between construction and registration' % kind,
                      f, (bad[0].ast if bad else c.ast),
                      'a started child can be observed/abandoned before it is tracked: %s '
                      'reachable between Process(...) and the table insert' % kind,
                      path=ctx.path_text(f, cfg.path(c, bad[0], avoid=regs,
                                                     labels_excluded=('exc',)) or [])
                      if bad else None)
        run.check('R1', cfg.exit.id not in r, 'the normal continuation of a successful '
                  'construction always registers the child', f, c.ast)
    # key is the child's pid, value the process
    for n in regs:
        t = n.ast.targets[0]
        run.check('R1', norm_text(t.slice).endswith('.pid') and
                  norm_text(n.ast.value) == norm_text(t.slice)[:-4],
                  'table key is the pid of the stored process', f, n.ast)
    from sa.idioms import infeasible_edges

    def proc_none(e):
        if isinstance(e, ast.Compare) and isinstance(e.left, ast.Name) and \
                e.left.id == 'process' and isinstance(e.ops[0], ast.Is) and \
                astq.const_value(e.comparators[0], 0) is None:
            return True
        return None
    # exception edges: only a failed construction is modelled (process stays None);
    # add_redirections is trusted total (it only reads fds of pipes just created)
    ex = {(n.id, 'exc') for n in cfg.nodes if n not in cons} | infeasible_edges(cfg, proc_none)
    r = cfg.reach(cfg.entry, avoid=regs, edges_excluded=ex)
    for e in events:
        run.check('R1', e.id not in r, 'spawn event only after registration', f, e.ast,
                  'a spawn event can be published for a child that is not in the table')


def _kill_result_names(ctx, f):
    """names bound from an awaited kill_process (list) result"""
    names = set()
    for s in ctx.sites_calling(f, [W + 'kill_process']):
        if astq.call_is_yielded(s.node, s.call) and isinstance(s.node.ast, ast.Assign):
            for t in s.node.ast.targets:
                if isinstance(t, ast.Name):
                    names.add(t.id)
    # ... and the names that stand for one element of such a list:
    # for r in results / for p, r in zip(procs, results)
    for n in walk_local(f.node):
        if isinstance(n, (ast.For, ast.comprehension)):
            it, tg = n.iter, n.target
            if isinstance(it, ast.Name) and it.id in names and isinstance(tg, ast.Name):
                names.add(tg.id)
            if isinstance(it, ast.Call) and dotted(it.func) == 'zip' and \
                    isinstance(tg, ast.Tuple) and len(tg.elts) == len(it.args):
                for a, t in zip(it.args, tg.elts):
                    if isinstance(a, ast.Name) and a.id in names and isinstance(t, ast.Name):
                        names.add(t.id)
    return names


def r2(run, ctx):
    run.rule('R2', 'every unregistration is justified')
    wcls = ctx.p.cls('circus.watcher:Watcher')
    n_sites = 0

    from rules.common import dead_test as dead, dead_status_set
    for m in wcls.methods.values():
        if m.name == '__init__':
            continue
        cfg = ctx.cfg(m)
        rem = removals(ctx, m)
        if not rem:
            continue
        knames = _kill_result_names(ctx, m)

        def kill_ok(e, knames=knames):
            base = e
            while isinstance(base, ast.Subscript):
                base = base.value
            if isinstance(base, ast.Name) and base.id in knames:
                return True
            if isinstance(e, (ast.Yield, ast.Await)) and e.value is not None and \
                    'kill_process' in norm_text(e.value):
                return True
            return None
        for n in rem:
            n_sites += 1
            if m.name == 'reap_process':
                run.ok('R2', 'removal inside reap_process (followed by waitpid)', m.where(n.ast))
                continue
            a = guarded(cfg, n, dead, True)
            b = guarded(cfg, n, kill_ok, True)
            run.check('R2', a or b, 'removal is conditioned on a dead status or on the truthy '
                      'result of an awaited kill_process', m, n.ast,
                      'a process is dropped from the table although it may still be alive: '
                      'it becomes untracked (no kill awaited, no dead-status test)')
    run.count('R2', n_sites, 3, 'removal sites on Watcher.processes')
    # the dead-entry sweep of manage_processes drops entries of BOTH dead statuses
    mp = ctx.fn(W + 'manage_processes')
    cfgm = ctx.cfg(mp)
    spawn = ctx.nodes_calling(mp, [W + 'spawn_processes', W + 'spawn_process'])
    covered = set()
    for n in removals(ctx, mp):
        if any(cfgm.reachable(sn, n) for sn in spawn):
            continue     # only the initial sweep (before the spawn phase)
        for t in cfgm.nodes:
            if t.kind == 'test' and n.id in cfgm.branch_nodes(t, 'true') and \
                    n.id not in cfgm.branch_nodes(t, 'false'):
                ds = dead_status_set(t.ast)
                if ds:
                    covered |= ds
    run.check('R2', covered >= {'DEAD_OR_ZOMBIE', 'UNEXISTING'}, 'the sweep drops zombie/dead AND '
              'already-reaped (UNEXISTING) entries', mp, mp.node,
              'the dead-entry sweep only covers %s: a worker that died and was already reaped '
              '(e.g. after a kill request) stays listed for ever and is never replaced'
              % sorted(covered), construct='sweep covers %s' % sorted(covered))
    # reap_process: the pop is followed by the wait loop on every path
    f = ctx.fn(W + 'reap_process')
    cfg = ctx.cfg(f)
    rem = removals(ctx, f)
    waits = [n for n in ctx.live_nodes(f)
             if any(dotted(c.func) == 'os.waitpid' for c in n.calls())]
    run.need('R2', waits, 'os.waitpid in reap_process', f)

    def status_given(e):
        if isinstance(e, ast.Compare) and isinstance(e.left, ast.Name) and \
                e.left.id == 'status' and isinstance(e.ops[0], ast.Is) and \
                astq.const_value(e.comparators[0], 0) is None:
            return True
        return None
    for n in rem:
        r = reach_under(cfg, n, status_given, avoid=waits)
        run.check('R2', cfg.exit.id not in r, 'reap_process waits for the child it untracks '
                  '(when no status was supplied)', f, n.ast)
    # the wait status is only ever what waitpid / Popen.wait returned (or None = retry)
    for n in ctx.live_nodes(f):
        if n.kind == 'stmt' and isinstance(n.ast, ast.Assign):
            for t in astq.attr_targets(n.ast):
                if isinstance(t, ast.Name) and t.id == 'status':
                    v = n.ast.value
                    ok = astq.const_value(v, 0) is None or (
                        isinstance(v, ast.Call) and (dotted(v.func) == 'os.waitpid' or
                                                     astq.call_last(v) == 'wait'))
                    run.check('R2', ok, 'the wait status comes from waitpid only', f, n.ast,
                              'reap_process fabricates a wait status (%s): the child is untracked '
                              'without having been waited for' % norm_text(v))


def r3(run, ctx):
    run.rule('R3', 'zombies are swept unconditionally')
    f = ctx.fn(A + 'reap_processes')
    cfg = ctx.cfg(f)
    waits = []
    for n in ctx.live_nodes(f):
        for c in n.calls():
            if dotted(c.func) == 'os.waitpid':
                waits.append((n, c))
    run.need('R3', waits, 'os.waitpid in Arbiter.reap_processes', f)
    for n, c in waits:
        a0 = astq.const_value(c.args[0], None) if c.args else None
        a1 = dotted(c.args[1]) if len(c.args) > 1 else None
        run.check('R3', a0 == -1, 'waits for any child (pid -1)', f, n.ast,
                  'only specific pids are waited for: children not (or no longer) in a '
                  'watcher table stay zombies')
        run.check('R3', a1 == 'os.WNOHANG', 'non-blocking wait', f, n.ast)
        # loop: n reaches itself, also when the pid is not a tracked one
        def not_member(e):
            if isinstance(e, ast.Compare) and isinstance(e.ops[0], (ast.In, ast.NotIn)) and \
                    isinstance(e.left, ast.Name) and e.left.id == 'pid':
                return isinstance(e.ops[0], ast.NotIn)
            if isinstance(e, ast.Name) and e.id == 'pid':
                return True
            return None
        r = reach_under(cfg, n, not_member, labels_excluded=('exc',))
        run.check('R3', n.id in r, 'the sweep continues after reaping a child that no watcher '
                  'tracks', f, n.ast, 'the zombie sweep stops at (or skips) children that '
                  'are not in a watcher table')
        # not conditioned on watcher membership / emptiness
        tests = [t for t in cfg.nodes if t.kind == 'test' and cfg.dominates([t], n)
                 and not isinstance(t.stmt, ast.While)]
        bad = [t for t in tests if 'watchers_pids' in norm_text(t.ast) or
               'watchers' in norm_text(t.ast)]
        run.check('R3', not bad, 'the sweep is not conditioned on watcher membership', f,
                  (bad[0].ast if bad else n.ast))
    reaps = ctx.nodes_calling(f, [W + 'reap_process'])
    run.need('R3', reaps, 'reap_process call for tracked pids', f)
    # the status goes to the watcher that owns the pid: the receiver is looked up in the
    # pid -> watcher map inside the same iteration
    for rn in reaps:
        for c in rn.calls():
            if astq.call_last(c) != 'reap_process' or not isinstance(c.func, ast.Attribute):
                continue
            recv = c.func.value
            ok = False
            if isinstance(recv, ast.Subscript) and norm_text(recv.slice) == 'pid':
                ok = True
            elif isinstance(recv, ast.Name):
                def lookup_of_pid(v):      # M[pid] or M.get(pid)
                    return (isinstance(v, ast.Subscript) and norm_text(v.slice) == 'pid') or \
                        (isinstance(v, ast.Call) and isinstance(v.func, ast.Attribute) and
                         v.func.attr == 'get' and len(v.args) == 1 and
                         norm_text(v.args[0]) == 'pid')
                defs = [x for x in cfg.nodes if x.kind == 'stmt' and isinstance(x.ast, ast.Assign)
                        and any(isinstance(t, ast.Name) and t.id == recv.id for t in x.ast.targets)
                        and lookup_of_pid(x.ast.value)]
                wn = [w_[0] for w_ in waits]
                ok = bool(defs) and cfg.dominates(defs, rn) and \
                    all(any(cfg.reachable(w0, dn) for w0 in wn) for dn in defs)
            run.check('R3', ok, 'the collected status is handed to the watcher that owns the pid '
                      '(looked up in the pid map in the same iteration)', f, rn.ast,
                      'reap_process is called on %s, which is not the pid-map entry for this pid '
                      '(a stale loop variable?): the owning watcher never reaps the worker, no '
                      'reap event is published and the hooks do not run' % norm_text(recv),
                      construct='reap receiver %s' % ('lookup' if ok else 'not looked up'))
    maps = [x for x in ctx.live_nodes(f) if x.kind == 'stmt' and isinstance(x.ast, ast.Assign) and
            isinstance(x.ast.targets[0], ast.Subscript) and
            norm_text(x.ast.targets[0].slice).endswith('.pid')]
    run.need('R3', maps, 'pid -> watcher map in Arbiter.reap_processes', f)
    for rn in reaps:
        for c in rn.calls():
            if astq.call_last(c) == 'reap_process':
                run.check('R3', len(c.args) == 2, 'the collected wait status is handed to '
                          'reap_process', f, rn.ast)


_STABLE = {}


def _stable_ev(ctx):
    """Event: the node writes a stable status, or is the early `return` taken
    because the status already is 'stopped'."""
    if id(ctx) in _STABLE:
        return _STABLE[id(ctx)]
    from sa.idioms import status_test
    base = ev_setattr('_status', 'stopped', 'active')

    def pred(node, finfo):
        if base(node, finfo):
            return True
        if node.kind == 'stmt' and isinstance(node.ast, ast.Return):
            return guarded(ctx.cfg(finfo), node, lambda e: status_test(e, 'stopped'), True)
        return False
    ev = astq.ev_pred('stable-status', pred)
    # a path taken only because the status already is 'stopped' needs no write
    from sa.idioms import edges_requiring
    ev.vacuous = lambda cfg: edges_requiring(cfg, lambda e: status_test(e, 'stopped'), True)
    _STABLE[id(ctx)] = ev
    return ev


def r4(run, ctx):
    run.rule('R4', 'transient statuses are exception-safe')
    esc = Escapes(ctx, ignore=[(W + 'reap_process', 'RuntimeError')])
    wcls = ctx.p.cls('circus.watcher:Watcher')
    n_tr = 0
    for m in wcls.methods.values():
        cfg = ctx.cfg(m)
        for status in ('starting', 'stopping'):
            for tn in ctx.direct_nodes(m, ev_setattr('_status', status)):
                n_tr += 1
                stable_must = [n for n in ctx.live_nodes(m)
                               if ctx.sm.node_must(n, m, _stable_ev(ctx))]
                # normal exits
                r = cfg.reach(tn, avoid=stable_must, labels_excluded=('exc', 'raise', 'reraise'))
                run.check('R4', cfg.exit.id not in r, "after status '%s' every normal exit "
                          "writes a stable status" % status, m, tn.ast,
                          "the operation can end leaving the watcher '%s'" % status,
                          path=ctx.path_text(m, cfg.path(tn, cfg.exit, avoid=stable_must,
                                                         labels_excluded=('exc', 'raise',
                                                                          'reraise')) or []))
                # exceptional exits through modelled raisers
                after = cfg.reach(tn, avoid=stable_must)
                wit = None
                for n in cfg.nodes:
                    if n.id in after and n.id != cfg.raise_exit.id:
                        ne = esc.node_escapes(m, n)
                        if ne:
                            # does the exception edge of n reach raise_exit without
                            # a stable status assignment?
                            rr = cfg.reach(n, avoid=stable_must)
                            if cfg.raise_exit.id in rr:
                                exc = sorted(ne)[0]
                                pick = 'Exception' if 'Exception' in ne else exc
                                wit = (n, pick, ne[pick])
                                break
                run.check('R4', wit is None, "after status '%s' no modelled exception leaves "
                          "the function without a stable status" % status, m, tn.ast,
                          "an exception raised while the watcher is '%s' leaves it in that "
                          "transient status for good%s" % (
                              status, (': %s escapes' % wit[1]) if wit else ''),
                          path=wit[2] if wit else None)
    run.count('R4', n_tr, 2, 'transient status writes')


def r5(run, ctx):
    run.rule('R5', 'reports read the one table')
    f = ctx.fn(W + '__len__')
    run.check('R5', any('self.processes' in norm_text(n.ast) for n in ctx.live_nodes(f)
                        if n.kind == 'stmt' and isinstance(n.ast, ast.Return)),
              'len(watcher) is the size of the process table', f, f.node)
    f = ctx.fn(W + 'status')
    run.check('R5', any(norm_text(n.ast) == 'return self._status' for n in ctx.live_nodes(f)),
              'status() returns the status field', f, f.node)
    f = ctx.fn(W + 'get_active_processes')
    txt = ' '.join(norm_text(n.ast) for n in ctx.live_nodes(f) if n.ast is not None)
    run.check('R5', 'self.processes.values()' in txt and 'DEAD_OR_ZOMBIE' in txt and
              'UNEXISTING' in txt and 'not in' in txt,
              'active processes = table entries whose status is not dead/unexisting', f, f.node)
    f = ctx.fn(W + 'info')
    run.check('R5', any('self.processes' in norm_text(n.ast) for n in ctx.live_nodes(f)
                        if n.ast is not None), 'stats iterates the process table', f, f.node)
    cmds = {
        'circus.commands.list:List.execute': [W + 'get_active_processes'],
        'circus.commands.numprocesses:NumProcesses.execute': [W + '__len__', A + 'numprocesses'],
        'circus.commands.stats:Stats.execute': [W + 'info', W + 'process_info'],
        'circus.commands.status:Status.execute': [W + 'status', A + 'statuses'],
    }
    for key, targets in cmds.items():
        e = ctx.fn(key)
        for t in targets:
            if t.endswith('__len__'):
                ok = any(dotted(c.func) == 'len' and c.args and
                         ctx.r.type_of(c.args[0], e) == 'Watcher'
                         for n in ctx.live_nodes(e) for c in n.calls())
            else:
                ok = bool(ctx.nodes_calling(e, [t]))
            run.check('R5', ok, '%s reports through %s' % (e.qualname, t.split(':')[1]), e, e.node)
    f = ctx.fn(A + 'numprocesses')
    run.check('R5', any('len(watcher)' in norm_text(n.ast) and 'self.watchers' in norm_text(n.ast)
                        for n in ctx.live_nodes(f) if n.ast is not None),
              'arbiter numprocesses sums the watcher tables', f, f.node)


def r6(run, ctx):
    run.rule('R6', 'a failed adoption is undone')
    f = ctx.fn(W + 'spawn_process')
    cfg = ctx.cfg(f)
    hook = ctx.direct_nodes(f, ev_hook('after_spawn'))
    if not run.need('R6', hook, 'after_spawn hook call', f):
        return

    def hook_false(e):
        if isinstance(e, ast.Call) and astq.call_last(e) == 'call_hook' and e.args and \
                astq.const_value(e.args[0]) == 'after_spawn':
            return False
        return None
    rem = removals(ctx, f)
    for h in hook:
        if h.kind != 'test':
            run.fail('R6', f, h.ast, 'the after_spawn result is not tested')
            continue
        r = reach_under(cfg, h, hook_false, avoid=rem, labels_excluded=('exc',))
        run.check('R6', cfg.exit.id not in r, 'a refused adoption removes the entry it '
                  'registered', f, h.ast, 'after_spawn false/failed: the function can return '
                  'with the child still registered')
        # and returns False
        r2_ = reach_under(cfg, h, hook_false, labels_excluded=('exc',))
        rets = [n for n in cfg.nodes if n.id in r2_ and n.kind == 'stmt' and
                isinstance(n.ast, ast.Return)]
        firsts = [n for n in rets if cfg.reachable(h, n)]
        bad = [n for n in firsts if astq.const_value(n.ast.value, 'x') is not False]
        # only the returns reachable without going back through the loop head
        run.check('R6', bool(firsts) and not [n for n in bad if _direct(cfg, h, n, hook_false)],
                  'a refused adoption returns False (the caller stops the watcher)', f, h.ast)
        # the refused child is terminated through the graceful routine
        kills = ctx.sites_calling(f, [W + 'kill_process'])
        kn = [s.node for s in kills]
        r3_ = reach_under(cfg, h, hook_false, avoid=kn, labels_excluded=('exc',))
        run.check('R6', cfg.exit.id not in r3_, 'a refused child is terminated', f, h.ast)
        for s in kills:
            loops_ = [t for t in cfg.nodes if t.kind == 'test' and isinstance(t.stmt, ast.While)]
            for rn in rem:
                run.check('R6', s.node.id not in cfg.reach(rn, avoid=loops_),
                          'the refused child is terminated '
                          'while it is still in the table (send_signal only signals tracked pids)',
                          f, s.node.ast, 'the entry is deleted before kill_process runs: '
                          'Watcher.send_signal ignores an untracked pid, so neither the stop '
                          'signal nor SIGKILL is ever sent to the refused child',
                          construct='kill after untracking')
            run.check('R6', not is_discarded(s.node, s.call), 'the termination of the refused '
                      'child is awaited before it is untracked', f, s.node.ast,
                      'the kill_process future is discarded and the entry deleted at once: a '
                      'worker that ignores the stop signal never gets SIGKILL and survives '
                      'untracked')


def _direct(cfg, h, n, assume):
    from sa.idioms import infeasible_edges
    ex = infeasible_edges(cfg, assume)
    loops = [t for t in cfg.nodes if t.kind == 'test' and isinstance(t.stmt, ast.While)]
    r = cfg.reach(h, avoid=loops, edges_excluded=ex, labels_excluded=('exc',))
    return n.id in r


def r7(run, ctx):
    run.rule('R7', "'stopped' only after kill+reap (shared with C02 R4)")
    from rules import c02
    sub = type(run)(run.prop_id, run.tier, run.project)
    c02.r4(sub, ctx)
    for o in sub.obligations:
        o = dict(o)
        o['rule'] = 'R7'
        if 'key' in o:
            o['key'] = o['key'].replace('R4|', 'R7|', 1)
        run.obligations.append(o)
    for fd in sub.findings:
        fd.rule = 'R7'
        fd.key = fd.key.replace('R4|', 'R7|', 1)
        run.findings.append(fd)


def r11(run, ctx):
    from rules import c17
    run.share(ctx, c17.r2, 'R2', 'R11', "registering a new worker's pipes cannot fail on a "
              'reused descriptor number (shared with C17 R2, the stale-descriptor reset): '
              'add_redirections runs between the creation of the child and its entry into the '
              'process table, and spawn_process swallows the ValueError of a descriptor "added '
              'twice" - the child then runs in no watcher\'s table, is never stopped, and the '
              'watcher stays short of a worker')


def r12(run, ctx):
    from rules import c17
    run.share(ctx, c17.r6, 'R6', 'R12', 'a new worker is created with the pipes the redirector '
              'asks for (shared with C17 R6): a missing handle makes add_redirections raise '
              'between the creation of the child and its entry into the process table, and '
              'spawn_process does not catch AttributeError - the child is left untracked and the '
              'watcher stuck in "starting"')


def r13(run, ctx):
    from rules import c09
    run.share(ctx, c09.r2, 'R2', 'R13', 'reap_process untracks a worker only when it has '
              'collected it (shared with C09 R2): a way out between the removal of the pid and '
              'the reap event leaves a live child in no table')


def r14(run, ctx):
    from rules import c14
    run.share(ctx, c14.r4, 'R4', 'R14', 'the last-resort SIGKILL cannot be vetoed (shared with '
              'C14 R4, the truth table of the signal gate): every path that forgets a live worker '
              'relies on kill_process reporting completion only for a worker that is really gone - '
              'a before_signal hook that can hold back SIGKILL leaves a running child in no table',
              keep=lambda key: 'signal gate truth table' in key or 'SIGKILL compared' in key)
