"""C01 - process count converges to the configured target and stays put."""
import ast

from sa import astq
from sa.astq import ev_setattr, affine, norm_text
from sa.idioms import (status_test, guarded, reach_under, path_under,
                       ordering_assumption, combine, attr_truth,
                       status_assumption, call_consumed, infeasible_edges)
from sa.project import dotted, AnalysisError

EXPLANATION = (
    "Controller shape that convergence and the fixpoint rest on, decided on "
    "the CFG of the current tree: R1 in manage_processes spawning is reachable "
    "only when len(processes) < numprocesses (and not stopping), surplus kills "
    "only when >, and with equality and no dead/expired entry no mutator is "
    "reachable (fixpoint); R2 phase order sweep -> spawn -> surplus; R3 the "
    "deficit loop bound is numprocesses-len(processes) and the surplus "
    "selection takes the oldest len-numprocesses; R4 every write of "
    "numprocesses is clamped at 0 and refused above 1 for singletons, and "
    "incr/decr return before any effect for singletons; R5 restart = stop then "
    "start, reload spawns numprocesses fresh workers then trims (or "
    "kill/reap/spawn in turn when sequential); R6 the periodic check is the "
    "synchronized manage_watchers and reaps before managing. Decides these "
    "necessary conditions; not convergence under all interleavings.")
ASSUMPTIONS = ["posix platform", "guards analysed per test (the process table "
               "may change between two tests of one run)"]

W = 'circus.watcher:Watcher.'
A = 'circus.arbiter:Arbiter.'


def is_len_processes(e):
    if isinstance(e, ast.Call) and dotted(e.func) == 'len' and len(e.args) == 1:
        a = e.args[0]
        if isinstance(a, ast.Attribute) and a.attr == 'processes':
            return True
        if isinstance(a, ast.Name) and a.id == 'self':
            return True
    return False


def is_numprocesses(e):
    return isinstance(e, ast.Attribute) and e.attr == 'numprocesses'


SPAWNERS = [W + 'spawn_processes', W + 'spawn_process']
KILLERS = [W + 'kill_process', W + 'kill_processes']
MUTATOR_CALLS = SPAWNERS + KILLERS + [W + '_stop', W + 'send_signal',
                                      W + 'send_signal_process',
                                      W + 'remove_expired_processes',
                                      'circus.process:Process.stop',
                                      'circus.process:Process.send_signal']


def dead_status_false(e):
    # `process.status in (DEAD_OR_ZOMBIE, UNEXISTING)` assumed False
    from rules.common import dead_status_set
    if dead_status_set(e):
        return False
    return None


def check(run, ctx):
    run.each(ctx, [r1, r2, r3, r4, r5, r6, r7, r8, r9])


def r8(run, ctx):
    run.rule('R8', 'spawn_process reports success only for a worker it created')
    # manage_processes / _reload / spawn_processes count on it: a call that comes back
    # "ok" (anything but False/None) without having built a Process leaves the deficit
    # in place (or, in a graceful reload, the old generation) and nobody retries
    f = ctx.fn(W + 'spawn_process')
    cfg = ctx.cfg(f)
    cons = ctx.nodes_calling(f, ['circus.process:Process.__init__'])
    if not run.need('R8', cons, 'Process construction in spawn_process', f):
        return
    assume = combine(status_assumption('stopped', False), status_assumption('stopping', False))
    r = reach_under(cfg, cfg.entry, assume, avoid=cons)
    n = 0
    for ret in cfg.nodes:
        if ret.kind != 'stmt' or not isinstance(ret.ast, ast.Return):
            continue
        v = ret.ast.value
        if v is None or (isinstance(v, ast.Constant) and v.value in (None, False)):
            continue
        n += 1
        run.check('R8', ret.id not in r, 'a success result of spawn_process follows the '
                  'creation of a worker (active watcher)', f, ret.ast,
                  'spawn_process of a watcher that is not stopped can answer "ok" without '
                  'having created a worker: the caller (periodic check, reload, start loop) '
                  'takes the worker for started, so the count stays short or the old '
                  'generation survives a reload',
                  path=ctx.path_text(f, path_under(cfg, cfg.entry, ret, assume, avoid=cons) or []))
    run.count('R8', n, 1, 'success returns of spawn_process')


def r7(run, ctx):
    from rules import c04
    run.share(ctx, c04.r2, 'R2', 'R7', 'a worker of an active watcher leaves the table only '
              'when its termination completed or it is dead (shared with C04 R2, the sites of '
              'the convergence paths): an untracked live worker is not counted, so the check '
              'spawns a replacement and the live count overshoots numprocesses for good',
              keep=lambda key: 'Watcher.spawn_process' not in key)


def r1(run, ctx):
    run.rule('R1', 'three-ordering guard analysis of manage_processes')
    f = ctx.fn(W + 'manage_processes')
    cfg = ctx.cfg(f)
    spawn = ctx.nodes_calling(f, SPAWNERS)
    kill = ctx.nodes_calling(f, KILLERS)
    run.need('R1', spawn, 'spawn call in manage_processes', f, 'manage_processes never spawns: dead workers are not replaced')
    run.need('R1', kill, 'surplus kill call in manage_processes', f, 'manage_processes never removes surplus workers: decr/reload leave too many')
    orders = {}
    for o in '<=>':
        orders[o] = reach_under(cfg, cfg.entry,
                                ordering_assumption(is_len_processes, is_numprocesses, o))
    for n in spawn:
        for o in '=>':
            ok = n.id not in orders[o]
            run.check('R1', ok, 'spawn unreachable when len(processes) %s numprocesses' % o,
                      f, n.ast, 'a worker can be spawned while the count is already %s '
                      'the target' % {'=': 'at', '>': 'above'}[o],
                      path=ctx.path_text(f, path_under(
                          cfg, cfg.entry, n, ordering_assumption(
                              is_len_processes, is_numprocesses, o)) or []))
        r = reach_under(cfg, cfg.entry, status_assumption('stopping', True))
        run.check('R1', n.id not in r, 'spawn unreachable while the watcher is stopping',
                  f, n.ast)
    for n in kill:
        if any(t.key == W + 'remove_expired_processes'
               for s in ctx.sites(f) if s.node is n for t in s.targets):
            continue
        for o in '<=':
            ok = n.id not in orders[o]
            run.check('R1', ok, 'surplus kill unreachable when len(processes) %s numprocesses' % o,
                      f, n.ast, 'a worker can be killed as surplus while the count is '
                      '%s the target' % {'=': 'at', '<': 'below'}[o])
    # fixpoint: '=' and nothing dead/expired -> no mutator reachable
    assume = combine(ordering_assumption(is_len_processes, is_numprocesses, '='),
                     dead_status_false, attr_truth('max_age', False))
    r = reach_under(cfg, cfg.entry, assume)
    bad = []
    for s in ctx.sites(f):
        if s.kind == 'call' and s.node.id in r and \
                any(t.key in MUTATOR_CALLS for t in s.targets):
            bad.append(s)
    # direct table mutation
    for n in cfg.nodes:
        if n.id in r and _mutates_processes(n):
            bad.append(n)
    run.check('R1', not bad, 'converged state is a fixpoint: with count = target and no '
              'dead/expired entry no spawn/kill/stop/table mutation is reachable', f,
              (bad[0].node.ast if bad and hasattr(bad[0], 'node') else
               (bad[0].ast if bad else f.node)),
              'an idle check can still act on the process set')


def _mutates_processes(n):
    for c in n.calls():
        if isinstance(c.func, ast.Attribute) and c.func.attr in ('pop', 'clear', 'popitem',
                                                                 'update', 'setdefault'):
            v = c.func.value
            if isinstance(v, ast.Attribute) and v.attr == 'processes':
                return True
    if n.kind == 'stmt':
        for t in astq.attr_targets(n.ast):
            if isinstance(t, ast.Subscript) and isinstance(t.value, ast.Attribute) \
                    and t.value.attr == 'processes':
                return True
            if isinstance(t, ast.Attribute) and t.attr == 'processes':
                return True
    return False


def r2(run, ctx):
    run.rule('R2', 'phase order: dead-entry sweep, then spawn, then surplus removal')
    f = ctx.fn(W + 'manage_processes')
    cfg = ctx.cfg(f)
    spawn = ctx.nodes_calling(f, SPAWNERS)
    kill = [n for n in ctx.nodes_calling(f, [W + 'kill_process'])]
    sweeps = []
    for n in ctx.live_nodes(f):
        if _mutates_processes(n):
            # a pop control-dependent only on a dead status test, before spawn
            if all(not cfg.reachable(s, n) for s in spawn):
                sweeps.append(n)
    run.need('R2', sweeps, 'dead-entry sweep before the spawn phase', f, 'dead entries are not dropped before the deficit is computed: a dead worker counts towards the target and is not replaced')
    # the sweep loop header dominates the spawn phase
    hdrs = [h for h in cfg.nodes if h.kind == 'iter' and
            any(h.id in {p for p, _ in cfg.pred[x.id]} or cfg.dominates([h], x) for x in sweeps)]
    for s in spawn:
        ok = any(cfg.dominates([h], s) for h in hdrs)
        run.check('R2', ok, 'dead entries are dropped before the deficit is computed', f, s.ast,
                  'the spawn phase can run without the dead-entry sweep: dead workers '
                  'count towards the target')
        for k in kill:
            ok = not cfg.reachable(k, s)
            run.check('R2', ok, 'surplus removal comes after spawning', f, k.ast)
    # sweep removes only entries whose status is dead/unexisting
    for n in sweeps:
        ok = _dominated_by_dead_test(cfg, n)
        run.check('R2', ok, 'sweep drops only DEAD_OR_ZOMBIE/UNEXISTING entries', f, n.ast,
                  'a live worker can be dropped from the table by the sweep')


def _dominated_by_dead_test(cfg, n):
    from rules.common import dead_test
    return guarded(cfg, n, dead_test, True)


def r3(run, ctx):
    run.rule('R3', 'deficit and surplus are exact')
    f = ctx.fn(W + 'spawn_processes')
    cfg = ctx.cfg(f)
    found = 0
    for h in cfg.nodes:
        if h.kind != 'iter':
            continue
        body = cfg.branch_nodes(h, 'true')
        if not any(n.id in body for n in ctx.nodes_calling(f, [W + 'spawn_process'])):
            continue
        it = h.ast.iter
        if isinstance(it, ast.Call) and dotted(it.func) == 'range' and len(it.args) == 1:
            found += 1
            af = affine(it.args[0], alias={'len(self.processes)': 'LEN', 'len(self)': 'LEN',
                                           'self.numprocesses': 'NP'})
            ok = af == {'NP': 1, 'LEN': -1}
            run.check('R3', ok, 'deficit loop bound == numprocesses - len(processes)', f,
                      h.ast.iter, 'spawn_processes starts %s workers instead of the deficit'
                      % norm_text(it.args[0]))
    run.need('R3', [1] * found, 'range(...) spawn loop in spawn_processes', f)
    # each iteration spawns at most once
    # surplus selection in manage_processes
    f = ctx.fn(W + 'manage_processes')
    cfg = ctx.cfg(f)
    kills = ctx.nodes_calling(f, [W + 'kill_process'])
    sel = unsorted = None
    from sa.dataflow import reaching_defs
    rd = reaching_defs(ctx, f)
    for h in cfg.nodes:
        if h.kind == 'iter':
            for alt in rd.expand(h, h.ast.iter):
                sub = alt.expr
                if isinstance(sub, ast.Subscript) and isinstance(sub.value, ast.Call) and \
                        dotted(sub.value.func) == 'sorted':
                    sel = (h, sub)
                elif isinstance(sub, ast.Subscript) and isinstance(sub.slice, ast.Slice) and \
                        isinstance(sub.value, ast.Call) and dotted(sub.value.func) == 'list' and \
                        len(sub.value.args) == 1 and \
                        norm_text(sub.value.args[0]) == 'self.processes.values()' and sel is None:
                    # the table in insertion order = spawn order, oldest first
                    unsorted = (h, sub)
    if sel is None and unsorted is None:
        raise AnalysisError('C01 R3: unrecognised surplus selection in manage_processes '
                            '(expected a slice of sorted(processes, key=started))')
    if sel is None:
        h, sub = unsorted
        call = sub.value
        run.check('R3', True, 'surplus candidates are the tracked processes ordered '
                  'by start time', f, call)
        desc = False
    else:
        h, sub = sel
        call = sub.value
        key = astq.kwarg(call, 'key')
        rev = astq.kwarg(call, 'reverse')
        key_ok = isinstance(key, ast.Lambda) and isinstance(key.body, ast.Attribute) and \
            key.body.attr == 'started'
        if key is None:
            key_ok = True   # Process.__lt__ orders by started
        src_ok = 'processes' in norm_text(call.args[0]) if call.args else False
        run.check('R3', key_ok and src_ok, 'surplus candidates are the tracked processes ordered '
                  'by start time', f, call)
        desc = astq.const_value(rev, default=None) if rev is not None else False
    if not isinstance(sub.slice, ast.Slice) or desc is None:
        raise AnalysisError('C01 R3: unrecognised surplus selection form')
    al = {'len(self.processes)': 'LEN', 'len(self)': 'LEN', 'self.numprocesses': 'NP'}
    lo = affine(sub.slice.lower, al) if sub.slice.lower is not None else None
    hi = affine(sub.slice.upper, al) if sub.slice.upper is not None else None
    if desc:
        ok = lo == {'NP': 1} and hi is None and sub.slice.step is None
    else:
        ok = lo in (None, {}) and hi == {'LEN': 1, 'NP': -1} and sub.slice.step is None
    why = 'the surplus removed is not the oldest len-numprocesses workers ' \
        '(a restarted/reloaded watcher would keep old workers or drop fresh ones)'
    if not desc and hi == {'NP': -1}:
        why = 'the surplus is cut with the negative bound [:-numprocesses]: for a target of 0 ' \
            'that is [:0], the empty list, so decr / set / reload to 0 leaves every worker ' \
            'running for good'
    run.check('R3', ok, 'surplus selection = the (len - numprocesses) oldest workers', f, sub, why)
    run.count('R3', 1, 1, 'surplus selection')


def _np_writers(ctx):
    out = []
    wcls = ctx.p.cls('circus.watcher:Watcher')
    for m in wcls.methods.values():
        if m.name == '__init__':
            continue
        for n in ctx.live_nodes(m):
            if n.kind == 'stmt' and isinstance(n.ast, (ast.Assign, ast.AugAssign)):
                for t in astq.attr_targets(n.ast):
                    if isinstance(t, ast.Attribute) and t.attr == 'numprocesses' and \
                            dotted(t.value) == 'self':
                        out.append((m, n))
    return out


def r4(run, ctx):
    run.rule('R4', 'numprocesses writers: clamp at 0, singleton guard; incr/decr singleton '
             'short-circuit')
    writers = _np_writers(ctx)
    run.count('R4', len(writers), 1, 'request-path writers of Watcher.numprocesses')
    for m, n in writers:
        cfg = ctx.cfg(m)
        val = n.ast.value
        if isinstance(n.ast, ast.AugAssign):
            run.fail('R4', m, n.ast, 'numprocesses is modified in place, bypassing the clamp and '
                     'the singleton guard')
            continue
        # the requested value: a local, or an inline clamp max(X, 0)
        aliases = set()
        inline_clamp = False
        core = val
        if isinstance(val, ast.Call) and dotted(val.func) == 'max' and len(val.args) == 2 and \
                any(astq.const_value(a_, None) == 0 for a_ in val.args):
            inline_clamp = True
            core = [a_ for a_ in val.args if astq.const_value(a_, None) != 0][0]
        aliases.add(norm_text(core))
        if isinstance(core, ast.Call) and dotted(core.func) in ('int', 'float') and core.args:
            aliases.add(norm_text(core.args[0]))
        v = core.id if isinstance(core, ast.Name) else None

        def is_v(e, aliases=aliases):
            return norm_text(e) in aliases

        def is_zero(e):
            return astq.const_value(e, default=None) == 0

        def is_one(e):
            return astq.const_value(e, default=None) == 1
        zero_assign = [x for x in cfg.nodes if v and x.kind == 'stmt' and
                       isinstance(x.ast, ast.Assign) and
                       any(isinstance(t, ast.Name) and t.id == v for t in x.ast.targets) and
                       (astq.const_value(x.ast.value, default=None) == 0 or
                        (isinstance(x.ast.value, ast.Call) and dotted(x.ast.value.func) == 'max'))]
        neg = ordering_assumption(is_v, is_zero, '<')
        if inline_clamp:
            run.ok('R4', 'negative request clamped inline (max(.., 0))', m.where(n.ast))
        else:
            r = reach_under(cfg, cfg.entry, neg, avoid=zero_assign)
            run.check('R4', n.id not in r, 'a negative request is clamped to 0 before the write',
                      m, n.ast, 'numprocesses can be set to a negative value',
                      path=ctx.path_text(m, path_under(cfg, cfg.entry, n, neg,
                                                       avoid=zero_assign) or []))
        big = combine(ordering_assumption(is_v, is_one, '>'), attr_truth('singleton', True))
        r = reach_under(cfg, cfg.entry, big)
        run.check('R4', n.id not in r, 'a singleton refuses a target above 1 before the write',
                  m, n.ast, 'a singleton watcher can be given numprocesses > 1 (the write is '
                  'reachable before / without the refusal)',
                  path=ctx.path_text(m, path_under(cfg, cfg.entry, n, big) or []))
    # set_numprocesses: write followed by yielded manage_processes
    f = ctx.fn(W + 'set_numprocesses')
    cfg = ctx.cfg(f)
    mp = [s.node for s in ctx.sites_calling(f, [W + 'manage_processes'])
          if astq.call_is_yielded(s.node, s.call)]
    for m, n in writers:
        if m is f:
            run.check('R4', cfg.must_pass(n, [cfg.exit], mp), 'set_numprocesses applies the new '
                      'target (awaits manage_processes) before returning', f, n.ast)
    # Set.execute: set_opt(...) then do_action
    se = ctx.fn('circus.commands.set:Set.execute')
    cfg = ctx.cfg(se)
    da = ctx.nodes_calling(se, [W + 'do_action'])
    so = ctx.nodes_calling(se, [W + 'set_opt'])
    run.need('R4', da, 'do_action call in Set.execute', se, 'set no longer applies the new options (no do_action)')
    run.need('R4', so, 'set_opt call in Set.execute', se)
    run.check('R4', cfg.must_pass(cfg.entry, [cfg.exit], da, labels_excluded=('exc',)),
              'set always triggers do_action', se, se.node)
    dn = ctx.fn(W + 'do_action')
    c2 = ctx.cfg(dn)

    def num_is_zero(e):
        if isinstance(e, ast.Compare) and isinstance(e.left, ast.Name) and \
                e.left.id == 'num' and astq.const_value(e.comparators[0], None) == 0 and \
                isinstance(e.ops[0], ast.Eq):
            return True
        return None
    mpn = [s.node for s in ctx.sites_calling(dn, [W + 'manage_processes'])
           if astq.call_is_yielded(s.node, s.call)]
    r = reach_under(c2, c2.entry, num_is_zero, avoid=mpn)
    run.check('R4', c2.exit.id not in r, 'do_action(0) awaits manage_processes', dn, dn.node)
    # incr/decr commands: singleton short-circuit before any watcher call
    for key, meth in (('circus.commands.incrproc:IncrProc.execute', W + 'incr'),
                      ('circus.commands.decrproc:DecrProc.execute', W + 'decr')):
        e = ctx.fn(key)
        cfg = ctx.cfg(e)
        calls = ctx.nodes_calling(e, [meth])
        run.need('R4', calls, 'call of %s' % meth, e)
        r = reach_under(cfg, cfg.entry, attr_truth('singleton', True))
        for n in calls:
            run.check('R4', n.id not in r, '%s is not reached for a singleton watcher'
                      % meth.split('.')[-1], e, n.ast,
                      'incr/decr changes the process count of a singleton watcher')
    # incr/decr delegate to set_numprocesses with +/- nb
    for name, sign in (('incr', 1), ('decr', -1)):
        m = ctx.fn(W + name)
        ok = False
        for s in ctx.sites_calling(m, [W + 'set_numprocesses']):
            if s.call.args:
                af = affine(s.call.args[0], {'self.numprocesses': 'NP'})
                ok = af == {'NP': 1, 'nb': sign} and call_consumed(m, s.node, s.call)
        run.check('R4', ok, '%s requests numprocesses %s nb through set_numprocesses'
                  % (name, '+' if sign > 0 else '-'), m, m.node)


def r5(run, ctx):
    run.rule('R5', 'freshness of restart / reload')
    f = ctx.fn(W + '_restart')
    cfg = ctx.cfg(f)
    st = [s.node for s in ctx.sites_calling(f, [W + '_stop']) if astq.call_is_yielded(s.node, s.call)]
    sa_ = [s.node for s in ctx.sites_calling(f, [W + '_start']) if astq.call_is_yielded(s.node, s.call)]
    run.need('R5', st, 'awaited _stop in _restart', f, 'restart no longer stops the old workers first')
    run.need('R5', sa_, 'awaited _start in _restart', f, 'restart no longer starts the watcher again')
    for n in sa_:
        run.check('R5', cfg.dominates(st, n), '_restart awaits _stop before _start', f, n.ast)
    run.check('R5', cfg.must_pass(cfg.entry, [cfg.exit], sa_), '_restart always starts again',
              f, f.node)
    f = ctx.fn(W + '_reload')
    cfg = ctx.cfg(f)
    base = combine(attr_truth('graceful', True), status_assumption('stopped', False),
                   attr_truth('send_hup', False), attr_truth('prereload_fn', False))
    # non-sequential
    assume = combine(base, attr_truth('sequential', False))
    loops = []
    for h in cfg.nodes:
        if h.kind == 'iter' and isinstance(h.ast.iter, ast.Call) and \
                dotted(h.ast.iter.func) == 'range' and len(h.ast.iter.args) == 1 and \
                affine(h.ast.iter.args[0], {'self.numprocesses': 'NP'}) == {'NP': 1}:
            body = cfg.branch_nodes(h, 'true')
            if any(n.id in body for n in ctx.nodes_calling(f, [W + 'spawn_process'])):
                loops.append(h)
    run.need('R5', loops, 'range(numprocesses) spawn loop in _reload', f, 'a graceful reload does not spawn numprocesses replacements: some old workers survive the reload')
    r = reach_under(cfg, cfg.entry, assume, avoid=loops)
    run.check('R5', cfg.exit.id not in r, 'graceful reload spawns numprocesses replacements',
              f, f.node, 'a graceful non-sequential reload can finish without spawning '
              'numprocesses fresh workers')
    mp = [s.node for s in ctx.sites_calling(f, [W + 'manage_processes'])
          if astq.call_is_yielded(s.node, s.call)]
    for h in loops:
        r = reach_under(cfg, h, assume, avoid=mp)
        run.check('R5', cfg.exit.id not in r, 'after the replacements are spawned the surplus '
                  '(oldest) is removed by an awaited manage_processes', f, h.ast.iter)
    # sequential
    assume = combine(base, attr_truth('sequential', True))
    K = [s.node for s in ctx.sites_calling(f, [W + 'kill_process']) if astq.call_is_yielded(s.node, s.call)]
    R = ctx.nodes_calling(f, [W + 'reap_process'])
    S = ctx.nodes_calling(f, [W + 'spawn_process'])
    seq_loops = [h for h in cfg.nodes if h.kind == 'iter' and
                 any(k.id in cfg.branch_nodes(h, 'true') for k in K)]
    run.need('R5', seq_loops, 'sequential reload loop (awaited kill_process per worker)', f, 'sequential reload no longer replaces the workers one by one')
    for h in seq_loops:
        body = cfg.branch_nodes(h, 'true')
        start = [cfg.nodes[i] for i, lab in cfg.succ[h.id] if lab == 'true']
        s_in = [n for n in S if n.id in body]
        r_in = [n for n in R if n.id in body]
        k_in = [n for n in K if n.id in body]
        ok = bool(s_in and r_in and k_in)
        if ok:
            # from loop entry: S unreachable avoiding R, R unreachable avoiding K,
            # and the back edge unreachable avoiding S
            r1_ = cfg.reach(start, avoid=k_in + [h], include_src=True)
            r2_ = cfg.reach(start, avoid=r_in + [h], include_src=True)
            ok = not any(n.id in r1_ for n in r_in) and not any(n.id in r2_ for n in s_in)
            # a worker whose kill_process result is false (another kill of it is in
            # flight, or it is gone) is left to that kill / the periodic check: the
            # replacement is owed for every worker this reload did terminate
            from rules.c04 import _kill_result_names
            from sa.idioms import infeasible_edges
            knames = _kill_result_names(ctx, f)

            def kill_ok(e):
                base = e
                while isinstance(base, ast.Subscript):
                    base = base.value
                if isinstance(base, ast.Name) and base.id in knames:
                    return True
                return None
            r3_ = cfg.reach(start, avoid=s_in, include_src=True,
                            edges_excluded=infeasible_edges(cfg, kill_ok))
            ok = ok and h.id not in r3_
        run.check('R5', ok, 'sequential reload: per worker kill (awaited) -> reap -> spawn', f,
                  h.ast.iter, 'sequential reload does not replace each worker by kill, '
                  'reap, spawn in that order')


def r6(run, ctx):
    run.rule('R6', 'the periodic check exists, is the exclusive one, reaps before managing')
    f = ctx.fn('circus.controller:Controller.start')
    cfg = ctx.cfg(f)
    reg = []
    for s in ctx.sites(f):
        if s.kind == 'ref' and any(t.key == A + 'manage_watchers' for t in s.targets):
            for c in s.node.calls():
                if astq.call_last(c) in ('AsyncPeriodicCallback', 'PeriodicCallback'):
                    reg.append((s.node, c))
    run.need('R6', reg, 'periodic registration of Arbiter.manage_watchers', f, 'the periodic check is not scheduled: dead workers are never replaced')
    for n, c in reg:
        per = c.args[1] if len(c.args) > 1 else astq.kwarg(c, 'callback_time')
        run.check('R6', per is not None and 'check_delay' in norm_text(per),
                  'period is the configured check_delay', f, n.ast)
    starts = [n for n in ctx.live_nodes(f)
              if any(astq.call_last(c) == 'start' and 'caller' in norm_text(c.func)
                     for c in n.calls())]
    run.check('R6', bool(starts) and all(cfg.dominates([r_[0] for r_ in reg], s) for s in starts),
              'the periodic callback is started', f, f.node)
    mw = ctx.fn(A + 'manage_watchers')
    run.check('R6', bool(mw.synchronized), 'manage_watchers holds the exclusive slot', mw, mw.node)
    cfg = ctx.cfg(mw)
    reap = ctx.nodes_calling(mw, [A + 'reap_processes'])
    mp = ctx.nodes_calling(mw, [W + 'manage_processes'])
    run.need('R6', reap, 'reap_processes call in manage_watchers', mw, 'the periodic check no longer reaps dead children before managing')
    run.need('R6', mp, 'manage_processes call in manage_watchers', mw, 'the periodic check no longer manages the watchers')
    for n in mp:
        run.check('R6', cfg.dominates(reap, n), 'children are reaped before the per-watcher '
                  'check', mw, n.ast)
    # every watcher is managed, and the futures are awaited
    for s in ctx.sites_calling(mw, [W + 'manage_processes']):
        hdr = [h for h in cfg.nodes if h.kind == 'iter' and
               s.node.id in cfg.branch_nodes(h, 'true')]
        every = False
        if hdr:
            start = [cfg.nodes[i] for i, lab in cfg.succ[hdr[0].id] if lab == 'true']
            every = hdr[0].id not in cfg.reach(start, avoid=[s.node], include_src=True)
        run.check('R6', every, 'manage_processes is requested for every watcher', mw,
                  s.node.ast)
        run.check('R6', call_consumed(mw, s.node, s.call) or _appended_and_yielded(mw, s),
                  'the per-watcher checks are awaited', mw, s.node.ast)


def _appended_and_yielded(f, s):
    # list_to_yield.append(watcher.manage_processes()) ... yield list_to_yield
    for n in s.node.walk():
        if isinstance(n, ast.Call) and astq.call_last(n) == 'append' and \
                isinstance(n.func.value, ast.Name):
            name = n.func.value.id
            for y in ast.walk(f.node):
                if isinstance(y, (ast.Yield, ast.Await)) and y.value is not None and \
                        name in astq.names_in(y.value):
                    return True
    return False


def misbound_positionals(ctx, f):
    """[(site, argument name, parameter it lands in)] - a positional argument that is a
    plain name, passed to a resolved callee that HAS a parameter of that very name, but in
    another position: the value goes into the wrong slot."""
    out = []
    for s in ctx.sites(f):
        if s.kind != 'call' or not s.precise or len(s.targets) != 1 or s.call is None:
            continue
        t = s.targets[0]
        a = t.node.args
        params = [x.arg for x in a.posonlyargs + a.args]
        if t.cls is not None and params and params[0] in ('self', 'cls') and \
                not any(d == 'staticmethod' for d, _ in t.decorators):
            params = params[1:]
        for i, arg in enumerate(s.call.args):
            if isinstance(arg, ast.Starred):
                break
            if isinstance(arg, ast.Name) and i < len(params) and arg.id in params and \
                    params[i] != arg.id:
                out.append((s, arg.id, params[i]))
    return out


def r9(run, ctx):
    run.rule('R9', 'a selection of watchers / processes reaches the callee in its own parameter')
    # restart / stop / start hand a selection (watcher_iter_func) down through
    # arbiter.restart -> _stop_watchers / _start_watchers: passed positionally into a callee
    # whose parameters are in another order, it silently becomes another option and the callee
    # falls back to "all watchers"
    n = 0
    for f in ctx.p.all_functions():
        if not f.key.startswith(('circus.arbiter:', 'circus.watcher:', 'circus.commands.')):
            continue
        n += 1
        for s, name, slot in misbound_positionals(ctx, f):
            run.fail('R9', f, s.node.ast, '%s passes `%s` positionally to %s, where it lands in '
                     'the parameter `%s` although the callee has a parameter `%s`: the value is '
                     'taken for another option and the callee acts on its default (all watchers / '
                     'all processes)' % (f.qualname, name, s.targets[0].qualname, slot, name),
                     construct='MISBOUND-POSITIONAL %s' % name)
    run.count('R9', n, 100, 'functions scanned for misbound positional arguments')
