"""Shared rule families: MUTATORS (direct writers of supervisor state)."""
import ast

from sa import astq
from sa.project import dotted

STATE_ATTRS = ('processes', '_status', 'numprocesses', 'watchers', '_watchers_names',
               'sockets', '_stopping', '_restarting')
OPTION_ATTRS = ('warmup_delay', 'working_dir', 'uid', 'gid', 'send_hup', 'stop_signal',
                'stop_children', 'shell', 'env', 'cmd', 'args', 'graceful_timeout',
                'max_age', 'max_age_variance', 'hooks', 'stdout_stream', 'stderr_stream',
                'stdout_stream_conf', 'stderr_stream_conf', '_options', 'max_retry',
                'respawn', 'singleton', 'copy_env', 'priority')
MUT_METHODS = ('pop', 'popitem', 'clear', 'append', 'remove', 'extend', 'insert',
               'update', 'setdefault')
SIGNAL_PRIMS = ('send_signal', 'terminate', 'kill')


def _state_attr(e, attrs=STATE_ATTRS):
    """expr is <obj>.<state attr> or a subscript of it"""
    while isinstance(e, ast.Subscript):
        e = e.value
    if isinstance(e, ast.Attribute) and e.attr in attrs:
        return e.attr
    return None


def mutator_nodes(ctx, f, with_options=False):
    """[(node, description)] for CFG nodes of f that directly write supervisor
    state or touch a worker process."""
    attrs = STATE_ATTRS + (OPTION_ATTRS if with_options else ())
    out = []
    if f.name == '__init__':
        return out
    for n in ctx.live_nodes(f):
        if n.kind == 'stmt':
            for t in astq.attr_targets(n.ast):
                a = _state_attr(t, attrs)
                if a and not (isinstance(t, ast.Name)):
                    base = t
                    while isinstance(base, ast.Subscript):
                        base = base.value
                    out.append((n, 'writes %s' % dotted(base)))
        for c in n.calls():
            if isinstance(c.func, ast.Attribute):
                if c.func.attr in MUT_METHODS and _state_attr(c.func.value, attrs):
                    out.append((n, '%s.%s()' % (dotted(c.func.value) or '?', c.func.attr)))
                if c.func.attr in SIGNAL_PRIMS and '_worker' in astq.norm_text(c.func.value):
                    out.append((n, 'signals the worker (%s)' % c.func.attr))
                if c.func.attr in SIGNAL_PRIMS and \
                        ctx.r.type_of(c.func.value, f) not in ('Watcher', 'Process', None):
                    pass
            d = dotted(c.func) or ''
            if d in ('os.kill', 'os.killpg'):
                out.append((n, d))
            if d.split('.')[-1] == 'Popen':
                out.append((n, 'starts a process (Popen)'))
    return out


def mutator_functions(ctx, with_options=False):
    """key -> [(node, what)] over watcher/arbiter/process/sockets modules."""
    out = {}
    for f in ctx.p.all_functions():
        if f.module.name not in ('circus.watcher', 'circus.arbiter', 'circus.process',
                                 'circus.sockets') and \
                not f.module.name.startswith('circus.commands'):
            continue
        m = mutator_nodes(ctx, f, with_options)
        if m:
            out[f.key] = m
    return out


DEAD_NAMES = {'DEAD_OR_ZOMBIE', 'UNEXISTING'}


def dead_status_set(e, names=('status', 'process_status')):
    """If `e` tests a process status against dead constants, return the set of
    constants for which it is true ('in' tuple / '==' / or-chains); else None."""
    if isinstance(e, ast.BoolOp) and isinstance(e.op, ast.Or):
        out = set()
        for v in e.values:
            s = dead_status_set(v, names)
            if s is None:
                return None
            out |= s
        return out
    if isinstance(e, ast.Compare) and len(e.ops) == 1:
        left = e.left
        lname = left.attr if isinstance(left, ast.Attribute) else (
            left.id if isinstance(left, ast.Name) else None)
        if lname not in names:
            return None
        c = e.comparators[0]
        if isinstance(e.ops[0], ast.In) and isinstance(c, (ast.Tuple, ast.List, ast.Set)):
            got = {dotted(x) for x in c.elts}
        elif isinstance(e.ops[0], ast.Eq):
            got = {dotted(c)}
        else:
            return None
        if got and got <= DEAD_NAMES:
            return got
    return None


def dead_test(e):
    """atom predicate for idioms.guarded: True if e is a dead-status test."""
    s = dead_status_set(e)
    return True if s else None


def is_fresh_container(v):
    """Expression builds a new container object (display, comprehension,
    dict()/list()/set()/copy(), .copy()) rather than aliasing an existing one."""
    if isinstance(v, (ast.Dict, ast.List, ast.Set, ast.ListComp, ast.DictComp, ast.SetComp)):
        return True
    if isinstance(v, ast.Call):
        d = dotted(v.func) or ''
        if d in ('dict', 'list', 'set', 'copy.copy', 'copy.deepcopy', 'copy', 'deepcopy',
                 'sorted', 'tuple'):
            return True
        if isinstance(v.func, ast.Attribute) and v.func.attr == 'copy':
            return True
    if isinstance(v, ast.BinOp) and isinstance(v.op, ast.Add):
        return True      # list + list builds a new list
    return False


def loop_stop_nodes(ctx, f):
    """[(node, deferred)] - nodes of `f` that stop the event loop (or hand the shutdown to a
    callback whose name says stop/close): deferred through loop.add_callback, or a direct
    `<..>loop.stop()` call."""
    from sa.dataflow import reaching_defs
    from sa import astq
    rd = reaching_defs(ctx, f)
    out = []
    for x in ctx.live_nodes(f):
        for c in x.calls():
            if astq.call_last(c) == 'add_callback' and c.args and \
                    all('stop' in a.text() for a in rd.expand(x, c.args[0])):
                out.append((x, True))
            elif isinstance(c.func, ast.Attribute) and c.func.attr == 'stop' and not c.args and \
                    astq.norm_text(c.func.value).split('.')[-1] in ('loop', 'io_loop', 'ioloop'):
                out.append((x, False))
    return out


COROUTINE_FUTURES = ('tornado.concurrent.Future', 'tornado.gen.Future', 'asyncio.Future',
                     'asyncio.futures.Future', 'tornado.concurrent.asyncio.Future')


def coroutine_future_class(f, x):
    """`x` (class expression of an isinstance test in function f) names the class of the
    futures a gen.coroutine returns, resolved through the module's imports."""
    elts = x.elts if isinstance(x, ast.Tuple) else [x]
    for y in elts:
        d = dotted(y) or ''
        head, _, rest = d.partition('.')
        full = f.module.imports.get(head)
        full = (full + ('.' + rest if rest else '')) if full else d
        if full in COROUTINE_FUTURES:
            return True
    return False


def future_tests(ctx, f):
    """[(test node, isinstance call)] - tests of a value against a Future class in f"""
    from sa import astq
    return [(n, e) for n in ctx.live_nodes(f) if n.kind == 'test' for e in ast.walk(n.ast)
            if isinstance(e, ast.Call) and dotted(e.func) == 'isinstance' and len(e.args) == 2
            and 'Future' in astq.norm_text(e.args[1])]


def stores_hook_entry(node_or_nodes):
    """some statement stores X['hooks'][<anything>] = <value>"""
    nodes = node_or_nodes if isinstance(node_or_nodes, (list, tuple)) else [node_or_nodes]
    for nd in nodes:
        for x in ast.walk(nd):
            if isinstance(x, ast.Assign):
                for t in x.targets:
                    if isinstance(t, ast.Subscript) and isinstance(t.value, ast.Subscript) and \
                            isinstance(t.value.slice, ast.Constant) and t.value.slice.value == 'hooks':
                        return True
    return False


# ---- reloadconfig: what the name sets contain (C07 R7, C12 R10) ------------------------------

def _name_valued(e, target):
    """`T.name` / `T['name']` for the comprehension variable T"""
    if isinstance(e, ast.Attribute) and e.attr == 'name' and isinstance(e.value, ast.Name) and \
            e.value.id == target:
        return True
    if isinstance(e, ast.Subscript) and isinstance(e.value, ast.Name) and e.value.id == target and \
            astq.const_value(e.slice, None) == 'name':
        return True
    return False


def set_has(e, name, running, in_file, env=None):
    """Does the set expression `e` (fully expanded) contain `name`, for an object that is
    running now (`running`) and (not) described by the new file (`in_file`)?  True / False /
    None = cannot say.  Understands | & -, set()/frozenset()/list()/sorted(), literals of
    constants, .keys(), dict(...) and comprehensions over self.sockets / the watchers (running)
    or new_cfg (file) with `in` / `not in` filters."""
    env = env or {}
    if isinstance(e, ast.Name):
        return env.get(e.id)
    if isinstance(e, ast.BinOp) and isinstance(e.op, (ast.BitOr, ast.BitAnd, ast.Sub)):
        a = set_has(e.left, name, running, in_file, env)
        b = set_has(e.right, name, running, in_file, env)
        if isinstance(e.op, ast.BitOr):
            if a is True or b is True:
                return True
            return None if a is None or b is None else False
        if isinstance(e.op, ast.BitAnd):
            if a is False or b is False:
                return False
            return None if a is None or b is None else True
        if a is False or b is True:
            return False
        return None if a is None or b is None else True
    if isinstance(e, (ast.Set, ast.List, ast.Tuple)):
        vals = [astq.const_value(x, None) for x in e.elts]
        if all(isinstance(v, str) for v in vals):
            return name in vals
        return None
    if isinstance(e, ast.Call):
        fn = dotted(e.func)
        if fn in ('set', 'frozenset', 'list', 'sorted', 'tuple', 'dict') and not e.keywords:
            if not e.args:
                return False
            return set_has(e.args[0], name, running, in_file, env)
        if isinstance(e.func, ast.Attribute) and e.func.attr in ('keys', 'copy') and not e.args:
            return set_has(e.func.value, name, running, in_file, env)
        if isinstance(e.func, ast.Attribute) and e.func.attr in ('union', 'difference',
                                                                 'intersection') and len(e.args) == 1:
            op = {'union': ast.BitOr(), 'difference': ast.Sub(), 'intersection': ast.BitAnd()}
            return set_has(ast.BinOp(e.func.value, op[e.func.attr], e.args[0]), name, running,
                           in_file, env)
        return None
    if isinstance(e, (ast.ListComp, ast.SetComp, ast.GeneratorExp, ast.DictComp)) and \
            len(e.generators) == 1 and isinstance(e.generators[0].target, ast.Name):
        g = e.generators[0]
        t = g.target.id
        elt = e.key if isinstance(e, ast.DictComp) else e.elt
        if isinstance(elt, ast.Tuple) and elt.elts:
            elt = elt.elts[0]
        if not _name_valued(elt, t):
            return None
        src = astq.norm_text(g.iter)
        if 'new_cfg' in src or 'get_config(' in src:
            base = in_file
        elif 'self.sockets' in src or 'iter_watchers' in src or 'self.watchers' in src:
            base = running
        else:
            return None
        if base is False:
            return False
        for cond in g.ifs:
            neg = False
            c = cond
            if isinstance(c, ast.UnaryOp) and isinstance(c.op, ast.Not):
                neg, c = True, c.operand
            if not (isinstance(c, ast.Compare) and len(c.ops) == 1 and
                    isinstance(c.ops[0], (ast.In, ast.NotIn))):
                return None
            inside = set_has(c.comparators[0], name, running, in_file, env)
            if inside is None:
                return None
            if _name_valued(c.left, t):
                member = inside
            elif isinstance(c.left, ast.Name) and c.left.id == t:
                member = False      # the OBJECT is never an element of a set of names
            else:
                return None
            truth = member if isinstance(c.ops[0], ast.In) else not member
            if neg:
                truth = not truth
            if not truth:
                return False
        return True
    return None


def reload_spares_ignored(run, ctx, rid, what):
    """what = 'sockets' | 'watchers'.  In Arbiter.reload_from_config the set of names whose
    sockets are closed (watchers are stopped and deleted) never contains a name of the ignore
    set - objects created through the API (circushttpd, circusd-stats), which no configuration
    file describes - decided by evaluating the set algebra for such a name: running, not in
    the file."""
    from sa.dataflow import reaching_defs
    f = ctx.fn('circus.arbiter:Arbiter.reload_from_config')
    cfg = ctx.cfg(f)
    rd = reaching_defs(ctx, f)
    # the loop that disposes of the objects
    loops = []
    for h in cfg.nodes:
        if h.kind != 'iter':
            continue
        body = nodes_within_loop(cfg, h)
        if what == 'sockets':
            hit = any(astq.call_last(c) == 'close' for b in body for c in b.calls()) and \
                any(astq.call_last(c) == 'get_socket' or 'self.sockets' in astq.norm_text(b.ast)
                    for b in body for c in b.calls())
        else:
            hit = any(astq.call_last(c) == '_stop' for b in body for c in b.calls()) and \
                any(isinstance(b.ast, ast.Delete) or
                    any(astq.call_last(c) == 'remove' for c in b.calls()) for b in body)
        if hit:
            loops.append(h)
    if not run.need(rid, loops, 'the loop of reload_from_config that disposes of %s' % what, f):
        return
    # the objects the arbiter creates itself (no file describes them): constructor calls with
    # a literal name in Arbiter.__init__
    init = ctx.fn('circus.arbiter:Arbiter.__init__')
    ignored = set()
    cls = 'CircusSocket' if what == 'sockets' else 'Watcher'
    for c in ast.walk(init.node):
        if isinstance(c, ast.Call) and astq.call_last(c) == cls:
            nm = astq.const_value(c.args[0], None) if c.args else \
                astq.const_value(astq.kwarg(c, 'name'), None)
            if nm is None:
                nm = astq.const_value(astq.kwarg(c, 'name'), None)
            if isinstance(nm, str):
                ignored.add(nm)
    run.count(rid, len(ignored), 1, '%s created by Arbiter.__init__ under a literal name' % what)
    decided = 0
    for h in loops:
        for alt in rd.expand(h, h.ast.iter, depth=8, stop=('new_cfg',)):
            for nm in sorted(ignored):
                got = set_has(alt.expr, nm, True, False)
                if got is None:
                    continue
                decided += 1
                run.check(rid, got is False, "%r is never among the %s reloadconfig disposes of"
                          % (nm, what), f, h.ast.iter,
                          "reload_from_config %s %r although no configuration file describes it "
                          "(it was created through the API): the set %s contains it - evaluated "
                          "for a name that is running and absent from the file"
                          % ('closes the socket' if what == 'sockets' else 'stops and deletes the '
                             'watcher', nm, astq.norm_text(h.ast.iter)),
                          construct='IGNORED-%s-DISPOSED' % what.upper())
    run.count(rid, decided, 1, 'set evaluations for ignored %s' % what)


def nodes_within_loop(cfg, h):
    ids = cfg.branch_nodes(h, 'true')
    return [n for n in cfg.nodes if n.id in ids]


# ---- small structural predicates used instead of statement text ------------------------------

def attr_stores(fnode, attr, owner='self'):
    """[(statement, value)] for every `owner.attr = value` in fnode (tuple targets included)."""
    out = []
    for st in ast.walk(fnode):
        if isinstance(st, (ast.Assign, ast.AnnAssign)) and getattr(st, 'value', None) is not None:
            for t in astq.attr_targets(st):
                if isinstance(t, ast.Attribute) and t.attr == attr and dotted(t.value) == owner:
                    out.append((st, st.value))
    return out


def is_call_of(fnode, value, func, arg=None):
    """value (seen through single-assignment locals) is `func(arg, ...)`"""
    v = astq.resolve_local(fnode, value)
    if isinstance(v, ast.Call) and dotted(v.func) == func and v.args:
        if arg is None:
            return True
        a = astq.resolve_local(fnode, v.args[0])
        return astq.norm_text(a) == arg
    return False


def is_copy_of(fnode, value, name):
    """value is a fresh shallow copy of `name`: dict(name) / name.copy() / copy.copy(name) /
    {**name}"""
    v = astq.resolve_local(fnode, value)
    t = astq.norm_text(v)
    return t in ('dict(%s)' % name, '%s.copy()' % name, 'copy.copy(%s)' % name,
                 '{**%s}' % name, 'dict(**%s)' % name, 'dict(%s.items())' % name)
