"""C02 - stop leaves no survivor and no zombie, stopped stays stopped."""
import ast

from sa import astq
from sa.astq import ev_setattr, ev_hook, ev_callattr, norm_text
from sa.idioms import status_test, guarded, is_discarded, call_consumed, reach_under
from sa.project import dotted

EXPLANATION = (    "Static ordering/guard facts the stop guarantee rests on, decided on the "
    "CFG and call graph of the current tree: R1 Watcher._stop passes "
    "status=stopping -> before_stop -> yielded kill_processes -> reap_processes "
    "-> status=stopped on every normal path; R2 kill_process escalation "
    "typestate (stop signal, SIGKILL, Process.stop, stopping flag reset); R3 no "
    "kill/stop coroutine future is dropped; R4 status 'stopped' is written only "
    "after kill+reap; R5 every call path from a non-start entry point to the "
    "Process construction passes an is_stopped guard; R6 arbiter fan-out "
    "(_stop_watchers over all watchers, rm_watcher stops unless nostop, "
    "Arbiter.stop order, manage_watchers returns when stopping)."
    "R5 treats Watcher._start as a target too: a non-start entry point may reach it only behind a not-stopped guard. "
    "Decides these "
    "necessary conditions, not that a SIGKILLed process dies and is reaped at "
    "every kernel boundary.")
ASSUMPTIONS = ["posix platform (IS_WINDOWS branches pruned)",
               "receiver types per the frozen table in sa/calls.py"]

W = 'circus.watcher:Watcher.'
A = 'circus.arbiter:Arbiter.'


def check(run, ctx):
    run.each(ctx, [r1, r2, r3, r4, r5, r6, r7, r8, r9])


def _yielded_call_nodes(ctx, f, target_keys):
    out = []
    for s in ctx.sites_calling(f, target_keys):
        if astq.call_is_yielded(s.node, s.call):
            out.append(s.node)
    return out


def r1(run, ctx):
    run.rule('R1', 'stop sequence must-pass-through in Watcher._stop')
    f = ctx.fn(W + '_stop')
    cfg = ctx.cfg(f)
    wp = [
        ('status=stopping', ctx.nodes(f, ev_setattr('_status', 'stopping'), must=True)),
        ('before_stop hook', ctx.nodes(f, ev_hook('before_stop'), must=True)),
        ('yielded kill_processes', _kill_all_nodes(ctx, f)),
        ('reap_processes', ctx.nodes(f, ctx.ev_calls(W + 'reap_processes'), must=True)),
        ('status=stopped', ctx.nodes(f, ev_setattr('_status', 'stopped'), must=True)),
    ]
    allthere = True
    for name, ns in wp:
        allthere &= run.need('R1', ns, 'way-point %s in _stop' % name, f,
                             '_stop never performs "%s" (on the must-path)' % name)
    if not allthere:
        return
    first = wp[0][1]
    # order: each way-point dominated by the previous one
    for (n1, a), (n2, b) in zip(wp, wp[1:]):
        for node in b:
            ok = cfg.dominates(a, node)
            run.check('R1', ok, '%s precedes %s on every path' % (n1, n2), f,
                      node.ast, 'way-point "%s" can be reached without "%s"' % (n2, n1),
                      path=ctx.path_text(f, cfg.path(cfg.entry, node, avoid=a) or []))
    # completeness: from the first way-point every normal exit passes each later one
    for name, ns in wp[1:]:
        for src in first:
            ok = cfg.must_pass(src, [cfg.exit], ns)
            p = None if ok else cfg.path(src, cfg.exit, avoid=ns)
            run.check('R1', ok, 'after status=stopping every normal exit passes %s' % name,
                      f, (p[-2].ast if p and len(p) > 1 and p[-2].ast is not None else f.node),
                      '_stop can return after status=stopping without %s' % name,
                      path=ctx.path_text(f, p or []))
    # the function's only exit before the sequence is the is_stopped() return
    for src in first:
        ok = guarded(cfg, src, lambda e: status_test(e, 'stopped'), False)
        run.check('R1', ok, 'sequence entered only when not already stopped', f, src.ast)


def _kill_all_nodes(ctx, f):
    """Nodes that yield a coroutine which kills every active process:
    kill_processes, or a yielded collection of kill_process over
    get_active_processes()."""
    out = _yielded_call_nodes(ctx, f, [W + 'kill_processes'])
    # inlined form: yield [self.kill_process(p) for p in <all active/tracked>]
    for s in ctx.sites_calling(f, [W + 'kill_process']):
        if not astq.call_is_yielded(s.node, s.call):
            continue
        for n in s.node.walk():
            if isinstance(n, (ast.ListComp, ast.GeneratorExp)) and \
                    any(sub is s.call for sub in ast.walk(n.elt)) and \
                    all(not g.ifs for g in n.generators):
                it = astq.norm_text(n.generators[0].iter)
                if 'get_active_processes()' in it or 'processes.values()' in it:
                    if s.node not in out:
                        out.append(s.node)
    return out


def r2(run, ctx):
    run.rule('R2', 'escalation typestate in Watcher.kill_process')
    f = ctx.fn(W + 'kill_process')
    cfg = ctx.cfg(f)
    senders = [W + 'send_signal', W + 'send_signal_process']
    send_sites = ctx.sites_calling(f, senders)
    kill_nodes, stop_sig_nodes = [], []
    for s in send_sites:
        args = [dotted(a) or '' for a in s.call.args] + \
               [dotted(k.value) or '' for k in s.call.keywords]
        if any(a.endswith('SIGKILL') for a in args):
            kill_nodes.append(s.node)
        else:
            stop_sig_nodes.append(s.node)
    pstop = ctx.nodes_calling(f, ['circus.process:Process.stop'])
    ok = run.need('R2', stop_sig_nodes, 'stop-signal send in kill_process', f)
    ok &= run.need('R2', kill_nodes, 'SIGKILL send in kill_process', f)
    ok &= run.need('R2', pstop, 'Process.stop() call in kill_process', f)
    set_true = ctx.direct_nodes(f, ev_setattr('stopping', True))
    set_false = ctx.direct_nodes(f, ev_setattr('stopping', False))
    if set_true:
        ok &= run.need('R2', set_false, 'process.stopping = False', f)
    if not ok:
        return
    for n in stop_sig_nodes:
        # on the normal (non-exceptional) continuation
        ok = cfg.must_pass(n, [cfg.exit], pstop, labels_excluded=('exc',))
        p = None if ok else cfg.path(n, cfg.exit, avoid=pstop, labels_excluded=('exc',))
        run.check('R2', ok, 'after the stop signal every normal exit passes Process.stop()',
                  f, n.ast, 'kill_process can return after signalling without Process.stop()',
                  path=ctx.path_text(f, p or []))
    for n in kill_nodes:
        ok = cfg.must_pass(n, [cfg.exit], pstop)
        run.check('R2', ok, 'SIGKILL send is followed by Process.stop()', f, n.ast)
        ok = all(cfg.dominates(stop_sig_nodes, n) for _ in [0])
        run.check('R2', ok, 'SIGKILL send is dominated by a stop-signal send', f, n.ast)
    for n in set_true:
        ok = cfg.must_pass(n, [cfg.exit], set_false)
        p = None if ok else cfg.path(n, cfg.exit, avoid=set_false)
        run.check('R2', ok, 'stopping=True is reset on every normal exit', f, n.ast,
                  'process.stopping stays True on a normal return: later kills are '
                  'refused for this process', path=ctx.path_text(f, p or []))
        ok = cfg.dominates(stop_sig_nodes, n)
        run.check('R2', ok, 'stopping=True only after a stop signal was sent', f, n.ast)
    # a False result (nothing killed) is only returned before stopping=True
    for n in cfg.nodes:
        if n.tag == 'gen_return' or (n.kind == 'stmt' and isinstance(n.ast, ast.Return)):
            val = None
            if isinstance(n.ast, ast.Raise) and isinstance(n.ast.exc, ast.Call) and n.ast.exc.args:
                val = astq.const_value(n.ast.exc.args[0], default='?')
            elif isinstance(n.ast, ast.Return) and n.ast.value is not None:
                val = astq.const_value(n.ast.value, default='?')
            if val is True:
                ok = cfg.dominates(pstop, n)
                run.check('R2', ok, 'True is returned only after Process.stop()', f, n.ast)


def r7(run, ctx):
    run.rule('R7', 'Process.stop, the last step of every termination, signals a live child itself')
    # kill_process ends with process.stop(): whatever became of the signals sent through the
    # watcher (vetoed by before_signal, dropped because the pid is no longer tracked), a child
    # that is still alive here is terminated through its own handle - no hook, no table lookup
    f = ctx.fn('circus.process:Process.stop')
    cfg = ctx.cfg(f)
    direct = [n for n in ctx.live_nodes(f) for c in n.calls()
              if isinstance(c.func, ast.Attribute) and
              c.func.attr in ('terminate', 'kill', 'send_signal') and
              '_worker' in norm_text(c.func.value)]
    if not run.need('R7', direct, 'direct terminate()/kill() of the child in Process.stop', f,
                    'Process.stop no longer terminates a child that is still alive'):
        return

    def alive(e):
        if isinstance(e, ast.Call) and isinstance(e.func, ast.Attribute) and \
                e.func.attr == 'is_alive':
            return True
        return None
    from sa.idioms import reach_under, path_under
    r = reach_under(cfg, cfg.entry, alive, avoid=direct, labels_excluded=('exc', 'raise', 'reraise'))
    run.check('R7', cfg.exit.id not in r, 'a child that is alive when Process.stop runs is '
              'terminated through its own handle', f, f.node,
              'Process.stop can finish for a live child without terminating it directly (the '
              'signal is routed elsewhere or skipped): a worker whose signals the watcher vetoes '
              'or drops (before_signal false, pid already untracked after a false after_spawn) '
              'survives its own termination',
              path=ctx.path_text(f, path_under(cfg, cfg.entry, cfg.exit, alive, avoid=direct,
                                               labels_excluded=('exc', 'raise', 'reraise')) or []),
              construct='live child not terminated directly')


def r8(run, ctx):
    run.rule('R8', 'a stop/restart request acts on every watcher its name addresses')
    # execute_watcher_start_stop_restart resolves the name (glob/regex) to a list; the
    # single-watcher shortcut (watchers[0].stop()) is only right for a list of one - for more
    # the request must fan out over all of them
    from sa.idioms import ordering_assumption
    f = ctx.fn('circus.commands.restart:execute_watcher_start_stop_restart')
    cfg = ctx.cfg(f)
    def deep(n):       # also inside lambdas handed to a helper
        return ast.walk(n.ast) if n.ast is not None and n.kind in ('stmt', 'test') and \
            not isinstance(n.ast, (ast.FunctionDef, ast.ClassDef)) else ()
    firsts = [n for n in ctx.live_nodes(f) if any(
        isinstance(x, ast.Subscript) and isinstance(x.value, ast.Name) and
        astq.const_value(x.slice, None) == 0 and isinstance(x.ctx, ast.Load) for x in deep(n))]
    lists = {x.value.id for n in firsts for x in deep(n)
             if isinstance(x, ast.Subscript) and isinstance(x.value, ast.Name) and
             astq.const_value(x.slice, None) == 0}
    fan = [n for n in ctx.live_nodes(f) for c in n.calls()
           if astq.kwarg(c, 'watcher_iter_func') is not None]
    if not run.need('R8', fan, 'fan-out over the matched watchers (watcher_iter_func=...)', f,
                    'a name matching several watchers is no longer handled for all of them'):
        return
    run.count('R8', len(firsts), 1, 'uses of the first matched watcher')

    def is_len(e):
        return isinstance(e, ast.Call) and dotted(e.func) == 'len' and len(e.args) == 1 and \
            isinstance(e.args[0], ast.Name) and e.args[0].id in lists

    def is_one(e):
        return astq.const_value(e, None) == 1

    def nonempty(e):      # `not watchers` is false for several matches
        if isinstance(e, ast.Name) and e.id in lists:
            return True
        return None
    from sa.idioms import combine
    several = combine(ordering_assumption(is_len, is_one, '>'), nonempty)
    r = reach_under(cfg, cfg.entry, several, labels_excluded=('exc', 'raise', 'reraise'))
    for n in firsts:
        run.check('R8', n.id not in r, 'the single-watcher shortcut is not taken when several '
                  'watchers match', f, n.ast,
                  'with several watchers matching the name only the first one is stopped / '
                  'restarted: the request is answered ok while the others keep all their workers',
                  construct='FIRST-MATCH-ONLY')
    run.check('R8', any(x.id in r for x in fan), 'several matches reach the fan-out', f, fan[0].ast,
              'several matching watchers never reach the fan-out')


CORO_TARGETS = ['kill_process', 'kill_processes', '_stop', 'stop', '_stop_watchers',
                'stop_watchers', 'rm_watcher', '_restart', 'restart']


def r3(run, ctx):
    run.rule('R3', 'no kill/stop coroutine future is dropped (CORO-DISCARD)')
    targets = [W + n for n in ('kill_process', 'kill_processes', '_stop', 'stop',
                               '_restart', 'restart')] + \
              [A + n for n in ('_stop_watchers', 'stop_watchers', 'rm_watcher',
                               '_restart', 'stop', 'restart',
                               '_Arbiter__stop', '__stop')]
    targets = [t for t in targets if ctx.p.has_fn(t)]
    n = 0
    for caller, s in ctx.callers_of(targets, kinds=('call',)):
        if caller.module.name.startswith(('circus.green', 'circus.plugins',
                                          'circus.stats', 'circus.circusctl')):
            continue
        if not any(t.is_coroutine for t in s.targets if t.key in targets):
            continue
        if caller.key == 'circus.arbiter:ThreadedArbiter.stop':
            continue   # thread variant, joins the thread instead
        n += 1
        ok = not is_discarded(s.node, s.call)
        run.check('R3', ok, 'future of %s is consumed' % s.name, caller, s.node.ast,
                  'the future returned by %s is discarded: the kill proceeds '
                  'unobserved and later steps run before it completes' % s.name)
    run.count('R3', n, 5, 'call sites of kill/stop coroutines')


def r4(run, ctx):
    run.rule('R4', "status 'stopped' is written only after kill+reap")
    ev = ev_setattr('_status', 'stopped')
    n = 0
    wcls = ctx.p.cls('circus.watcher:Watcher')
    for m in wcls.methods.values():
        if m.name == '__init__':
            continue
        cfg = ctx.cfg(m)
        for node in ctx.direct_nodes(m, ev):
            n += 1
            kills = _yielded_call_nodes(ctx, m, [W + 'kill_processes'])
            reaps = ctx.nodes(m, ctx.ev_calls(W + 'reap_processes'), must=True)
            ok = bool(kills) and bool(reaps) and cfg.dominates(kills, node) \
                and cfg.dominates(reaps, node)
            run.check('R4', ok, "'stopped' assignment dominated by kill_processes and "
                      "reap_processes", m, node.ast,
                      "status is set to 'stopped' without killing and reaping the "
                      "tracked processes first")
    run.count('R4', n, 1, "writers of _status='stopped' outside __init__")


NON_START_ENTRIES = [A + 'manage_watchers', W + 'incr', W + 'decr', W + 'set_opt',
                     W + 'do_action', W + 'reap_and_manage_processes',
                     A + 'reap_processes', W + 'set_numprocesses',
                     W + 'manage_processes', W + 'reap_processes',
                     W + 'reap_process', W + 'remove_expired_processes',
                     W + 'kill_process', W + 'kill_processes']
START_OPENERS = {W + '_start', W + 'start', W + '_restart', W + 'restart',
                 W + '_reload', W + 'reload', A + '_start_watchers',
                 A + 'start_watchers', A + 'start_watcher', A + '_restart',
                 A + 'restart', A + 'reload', A + 'start',
                 A + 'reload_from_config'}


def _not_stopped_guard(ctx, f, node):
    return guarded(ctx.cfg(f), node, lambda e: status_test(e, 'stopped'), False)


def r5(run, ctx):
    run.rule('R5', 'no call path from a non-start entry reaches the Process '
             'construction without an is_stopped guard')
    sp = ctx.fn(W + 'spawn_process')
    cons = ctx.nodes_calling(sp, ['circus.process:Process.__init__'])
    run.need('R5', cons, 'Process construction in spawn_process', sp)
    inner_guard = all(_not_stopped_guard(ctx, sp, n) for n in cons)
    # the spawn loops sleep (warmup) between two workers: a stop can complete in between, so
    # the status has to be looked at again at the point where the worker is created
    for n in cons:
        run.check('R5', _not_stopped_guard(ctx, sp, n), 'spawn_process itself refuses to create '
                  'a worker for a stopped watcher', sp, n.ast,
                  'spawn_process creates the worker without testing is_stopped(): a start loop '
                  'that is sleeping between two spawns when a stop completes adds a worker to '
                  'the stopped watcher (and then marks it active)',
                  construct='spawn without stopped test')
    npaths = 0
    bad = []

    start_fn = W + '_start'

    def dfs(f, chain, guarded_so_far, seen):
        nonlocal npaths
        for s in ctx.sites(f):
            if s.kind != 'call':
                continue
            for t in s.targets:
                if not t.key.startswith((W, A)):
                    continue
                if f.key == A + 'manage_watchers' and t.key == A + '_start_watchers':
                    continue    # the on-demand socket event (permitted by the statement)
                g = guarded_so_far or _not_stopped_guard(ctx, f, s.node)
                if t.key == sp.key:
                    npaths += 1
                    if not (g or inner_guard):
                        bad.append((chain + [(f, s)]))
                    continue
                if t.key == start_fn:
                    # _start flips the status away from 'stopped': only start/restart/
                    # reload requests may reach it for a stopped watcher
                    npaths += 1
                    if not g:
                        bad.append((chain + [(f, s)]))
                    continue
                if t.key in START_OPENERS and t.key != W + '_reload':
                    continue    # permitted openers (statement: start/restart/reload)
                if t.key in seen:
                    continue
                dfs(t, chain + [(f, s)], g, seen | {t.key})

    for e in NON_START_ENTRIES:
        if ctx.p.has_fn(e):
            ef = ctx.fn(e)
            dfs(ef, [], False, {ef.key})
    run.count('R5', npaths, 3, 'call paths from non-start entries to spawn_process')
    for chain in bad:
        f, s = chain[-1]
        run.fail('R5', f, s.node.ast,
                 'a stopped watcher can be made to spawn: no is_stopped guard on '
                 'the call path', path=['%s:%s %s' % (cf.module.relpath, cs.node.lineno,
                                                     cf.qualname) for cf, cs in chain],
                 construct='%s -> %s via %s' % (chain[0][0].qualname,
                                                s.targets[0].name if s.targets else '?',
                                                f.qualname))
    if not bad:
        run.ok('R5', '%d call paths all guarded' % npaths)
    # manage_processes: first thing is the stopped test
    mp = ctx.fn(W + 'manage_processes')
    cfg = ctx.cfg(mp)
    work = []
    for st in ctx.sites(mp):
        if st.kind == 'call' and st.targets and st.node not in work and \
                not any(t.name in ('is_stopped', 'is_stopping', 'is_active')
                        for t in st.targets):
            work.append(st.node)
    run.count('R5', len(work), 1, 'working nodes in manage_processes')
    for n in work:
        ok = _not_stopped_guard(ctx, mp, n)
        run.check('R5', ok, 'manage_processes does nothing for a stopped watcher',
                  mp, n.ast)


def has_effect(n):
    if n.kind == 'stmt' and isinstance(n.ast, ast.Expr) and \
            isinstance(n.ast.value, ast.Constant):
        return False
    return True


def r6(run, ctx):
    run.rule('R6', 'arbiter-level stop fan-out')
    # Arbiter._stop_watchers: every watcher handed to it is stopped - no filter
    from sa.dataflow import reaching_defs
    sw = ctx.fn(A + '_stop_watchers')
    rdw = reaching_defs(ctx, sw)
    cfgw = ctx.cfg(sw)
    stops = [s_ for s_ in ctx.sites_calling(sw, [W + '_stop'])]
    if run.need('R6', stops, 'Watcher._stop calls in Arbiter._stop_watchers', sw,
                'the arbiter-level stop stops no watcher'):
        for s_ in stops:
            okf = True
            why = ''
            comps = [x for x in s_.node.walk() if isinstance(x, (ast.ListComp, ast.GeneratorExp))
                     and any(sub is s_.call for sub in ast.walk(x))]
            iters = []
            if comps:
                g = comps[0].generators[0]
                if g.ifs:
                    okf, why = False, 'the comprehension filters with `%s`' % norm_text(g.ifs[0])
                iters = [a.expr for a in rdw.expand(s_.node, g.iter)]
            else:
                hdr = [h for h in cfgw.nodes if h.kind == 'iter' and
                       s_.node.id in cfgw.branch_nodes(h, 'true')]
                tests = [t for t in cfgw.nodes if t.kind == 'test' and hdr and
                         t.id in cfgw.branch_nodes(hdr[0], 'true') and
                         s_.node.id in cfgw.branch_nodes(t, 'true') and
                         s_.node.id not in cfgw.branch_nodes(t, 'false')]
                if tests:
                    okf, why = False, 'the call is conditional on `%s`' % norm_text(tests[0].ast)
                iters = [a.expr for h in hdr[:1] for a in rdw.expand(h, h.ast.iter)]
            for it in iters:
                if isinstance(it, (ast.ListComp, ast.GeneratorExp)) and it.generators[0].ifs:
                    okf, why = False, 'the watcher list is filtered with `%s`' % norm_text(
                        it.generators[0].ifs[0])
                elif not (isinstance(it, ast.Call) and astq.call_last(it) in (
                        'iter_watchers', 'watcher_iter_func')):
                    if not isinstance(it, ast.Name):
                        okf, why = False, 'the watchers come from %s' % norm_text(it)[:80]
            run.check('R6', okf and bool(iters), 'every watcher selected for the stop is stopped '
                      '(no filter between the selection and Watcher._stop)', sw, s_.node.ast,
                      'an arbiter-level stop/quit/restart skips some watchers (%s): their '
                      'workers survive the completed stop' % why,
                      construct='stop skips watchers')
    # _stop_watchers: futures built from every watcher of the iterator, yielded
    f = ctx.fn(A + '_stop_watchers')
    cfg = ctx.cfg(f)
    sites = ctx.sites_calling(f, [W + '_stop'])
    run.need('R6', sites, 'Watcher._stop call in _stop_watchers', f)
    for s in sites:
        comp_ok = False
        # inside a comprehension/for over `watchers` without a filter
        for n in s.node.walk():
            if isinstance(n, (ast.ListComp, ast.GeneratorExp)):
                if any(sub is s.call for sub in ast.walk(n.elt)):
                    comp_ok = all(not g.ifs for g in n.generators)
        if not comp_ok:
            # for-loop form: the call's node is inside a For with no test between
            comp_ok = any(p.kind == 'iter' and cfg.dominates([p], s.node)
                          for p in cfg.nodes) and not any(
                p.kind == 'test' and cfg.dominates([p], s.node) and
                not cfg.dominates([p], cfg.exit) for p in cfg.nodes)
        run.check('R6', comp_ok, '_stop is requested for every watcher of the iterator '
                  '(no filter)', f, s.node.ast)
        ok = call_consumed(f, s.node, s.call)
        run.check('R6', ok, 'the _stop futures are awaited', f, s.node.ast)
    # rm_watcher: _stop yielded on the not-nostop branch
    f = ctx.fn(A + 'rm_watcher')
    cfg = ctx.cfg(f)
    ys = _yielded_call_nodes(ctx, f, [W + '_stop'])
    run.need('R6', ys, 'awaited Watcher._stop in rm_watcher', f)

    def nostop(e):
        return True if (isinstance(e, ast.Name) and e.id == 'nostop') else None
    edges_false = set()
    from sa.idioms import edges_requiring
    edges_nostop_true = edges_requiring(cfg, nostop, True)
    # with nostop false every normal exit passes the yielded _stop
    r = cfg.reach(cfg.entry, avoid=ys, edges_excluded=edges_nostop_true)
    ok = cfg.exit.id not in r
    run.check('R6', ok, 'rm_watcher stops the watcher on every path where nostop is false',
              f, f.node, 'rm_watcher can complete with nostop false without stopping the watcher')
    # Arbiter.stop: yielded _stop_watchers dominates loop stop scheduling
    f = ctx.fn(A + 'stop')
    cfg = ctx.cfg(f)
    ys = _yielded_call_nodes(ctx, f, [A + '_stop_watchers'])
    run.need('R6', ys, 'awaited _stop_watchers in Arbiter.stop', f)
    ok = cfg.must_pass(cfg.entry, [cfg.exit], ys)
    run.check('R6', ok, 'Arbiter.stop awaits _stop_watchers on every normal path', f, f.node)
    sched = [n for n in ctx.live_nodes(f)
             if any(astq.call_last(c) in ('add_callback', 'stop_controller_and_close_sockets')
                    for c in n.calls())]
    for n in sched:
        run.check('R6', cfg.dominates(ys, n), 'loop stop / socket close is scheduled only '
                  'after all watchers stopped', f, n.ast)
    flag = ctx.direct_nodes(f, ev_setattr('_stopping', True))
    run.need('R6', flag, '_stopping=True in Arbiter.stop', f)
    for y in ys:
        run.check('R6', cfg.dominates(flag, y), '_stopping is set before watchers are stopped',
                  f, y.ast)
    # manage_watchers: returns first when _stopping
    f = ctx.fn(A + 'manage_watchers')
    cfg = ctx.cfg(f)

    def stopping(e):
        return True if (isinstance(e, ast.Attribute) and e.attr == '_stopping') else None
    work = ctx.nodes_calling(f, [W + 'manage_processes', A + 'reap_processes',
                                 A + '_start_watchers'])
    run.count('R6', len(work), 1, 'work nodes in manage_watchers')
    for n in work:
        ok = guarded(cfg, n, stopping, False)
        run.check('R6', ok, 'periodic check does nothing once the arbiter is stopping',
                  f, n.ast)


def r9(run, ctx):
    from rules import c14
    run.share(ctx, c14.r4, 'R4', 'R9', 'the last-resort SIGKILL cannot be vetoed (shared with '
              'C14 R4): a stop must not leave a survivor because a before_signal hook said no',
              keep=lambda key: 'signal gate truth table' in key or 'SIGKILL compared' in key)
