"""C14 - hooks gate exactly the transitions they are documented to gate."""
import ast
import os
import re

from sa import astq
from sa.astq import norm_text, ev_setattr, ev_notify, ev_hook
from sa.idioms import (guarded, reach_under, path_under, combine, attr_truth,
                       infeasible_edges, is_discarded)
from sa.project import dotted, walk_local, AnalysisError

EXPLANATION = (    "Hook gates decided on CFGs and cross-checked with the documented gate "
    "table (docs/source/for-devs/writing-hooks.rst): R1 call_hook's three "
    "outcomes - configured and returning: its result and exactly one "
    "hook_success; raising: `name in ignore_hook_failure` and exactly one "
    "hook_failure; not configured: True and no event; R2 for each start-phase "
    "hook (before_start, before_spawn, after_spawn, after_start) the result is "
    "tested and the false branch reaches no Process construction, no "
    "status=active and no start event, and leads to _stop (directly or through "
    "the False return that spawn_processes turns into _stop) or returns while "
    "the status is still stopped; a refused spawned worker is terminated with "
    "the kill awaited; R3 before_stop/after_stop results are unused; R4 the "
    "condition under which Watcher.send_signal delivers, as a truth table over "
    "(is_sigkill, hook_result), equals is_sigkill OR hook_result; R5 every "
    "signal the watcher sends to a worker goes through that gate; R6 the "
    "default ignore-failure list contains only hooks whose result is never "
    "tested; R7 the per-hook ignore flag is plumbed from the config parser to "
    "_resolve_hook."
    "R7 also requires the ignore-failure list to be a fresh per-watcher object. "
    "Decides these necessary conditions.")
ASSUMPTIONS = ["hook semantics table parsed from writing-hooks.rst on every run"]

W = 'circus.watcher:Watcher.'
P = 'circus.process:Process.'


def check(run, ctx):
    run.each(ctx, [r0, r1, r2, r3, r4, r5, r6, r7, r8])


def doc_table(ctx):
    path = os.path.join(ctx.p.root, 'docs', 'source', 'for-devs', 'writing-hooks.rst')
    if not os.path.exists(path):
        raise AnalysisError('C14: %s missing' % path)
    txt = open(path, encoding='utf8').read()
    items = re.findall(r'^- \*\*(\w+)\*\*:(.*?)(?=^- \*\*|\n\n[A-Z])', txt, re.S | re.M)
    tab = {}
    for name, body in items:
        b = ' '.join(body.split()).lower()
        if 'result is ignored' in b:
            tab[name] = 'ignored'
        elif 'signal is not sent' in b:
            tab[name] = 'signal-gate'
        elif 'aborted' in b:
            tab[name] = 'abort'
        else:
            tab[name] = 'none'
    return tab


def r0(run, ctx):
    run.rule('R0', 'documented gate table')
    tab = doc_table(ctx)
    run.extra['documented_hooks'] = tab
    run.count('R0', len(tab), 6, 'hooks documented in writing-hooks.rst')
    want = {'before_start': 'abort', 'after_start': 'abort', 'before_spawn': 'abort',
            'after_spawn': 'abort', 'before_stop': 'ignored', 'after_stop': 'ignored',
            'before_signal': 'signal-gate'}
    for h, k in want.items():
        run.check('R0', tab.get(h) == k, 'documentation gives %s the semantics "%s"' % (h, k),
                  None, 'writing-hooks.rst:%s' % h,
                  'the documentation of %s no longer says "%s" (now: %s); the rules below encode '
                  'the documented table' % (h, k, tab.get(h)))


def _hook_pred(name, value):
    def p(e):
        if isinstance(e, ast.Call) and astq.call_last(e) == 'call_hook' and e.args and \
                astq.const_value(e.args[0]) == name:
            return value
        return None
    return p


def r1(run, ctx):
    run.rule('R1', 'call_hook outcome mapping and events')
    f = ctx.fn(W + 'call_hook')
    cfg = ctx.cfg(f)

    def weight(node):
        s = sum(1 for c in node.calls() if astq.call_last(c) == 'notify_event' and c.args and
                astq.const_value(c.args[0]) == 'hook_success')
        fl = sum(1 for c in node.calls() if astq.call_last(c) == 'notify_event' and c.args and
                 astq.const_value(c.args[0]) == 'hook_failure')
        return s, fl

    def flow(assume):
        ex = infeasible_edges(cfg, assume)
        state = {cfg.entry.id: {(0, 0, False)}}
        todo = [cfg.entry.id]
        while todo:
            cur = todo.pop()
            node = cfg.nodes[cur]
            ws, wf = weight(node)
            for nxt, lab in cfg.succ[cur]:
                if (cur, lab) in ex:
                    continue
                for (s, fl, viaexc) in state[cur]:
                    if lab == 'exc':
                        ns = (s, fl, True)
                    else:
                        ns = (min(2, s + ws), min(2, fl + wf), viaexc)
                    st = state.setdefault(nxt, set())
                    if ns not in st:
                        st.add(ns)
                        todo.append(nxt)
        return state

    def configured(v):
        def a(e):
            if isinstance(e, ast.Compare) and isinstance(e.ops[0], ast.In) and \
                    norm_text(e.comparators[0]) == 'self.hooks':
                return v
            return None
        return a
    st = flow(configured(True)).get(cfg.exit.id, set())
    ok_paths = {x for x in st if not x[2]}
    exc_paths = {x for x in st if x[2]}
    run.check('R1', ok_paths == {(1, 0, False)}, 'a hook that returns is reported by exactly one '
              'hook_success', f, f.node, 'a returning hook yields events %s' % sorted(ok_paths),
              construct='hook_success count')
    run.check('R1', exc_paths == {(0, 1, True)}, 'a hook that raises is reported by exactly one '
              'hook_failure', f, f.node, 'a raising hook yields events %s (success, failure)'
              % sorted((a, b) for a, b, c in exc_paths), construct='hook_failure count')
    st = flow(configured(False)).get(cfg.exit.id, set())
    run.check('R1', st == {(0, 0, False)}, 'an unconfigured hook produces no event', f, f.node)
    # return values
    rets = [n for n in ctx.live_nodes(f) if n.kind == 'stmt' and isinstance(n.ast, ast.Return)]
    r_unconf = [n for n in rets if guarded(cfg, n, configured(True), False)]
    run.check('R1', bool(r_unconf) and all(astq.const_value(n.ast.value, None) is True
                                           for n in r_unconf),
              'an unconfigured hook counts as true', f, f.node)
    handlers = [n for n in cfg.nodes if n.kind == 'except']
    run.check('R1', bool(handlers) and all(
        (h.ast.type is not None and (dotted(h.ast.type) or '').split('.')[-1] in
         ('Exception', 'BaseException')) or h.ast.type is None for h in handlers),
        'every exception of a hook is caught', f, handlers[0].ast if handlers else f.node,
        'an exception raised by a hook escapes call_hook')
    asg = [n for n in ctx.live_nodes(f) if n.kind == 'stmt' and isinstance(n.ast, ast.Assign) and
           any(isinstance(t, ast.Name) and t.id == 'result' for t in n.ast.targets)]
    in_handler = [n for n in asg if any(cfg.dominates([h], n) for h in handlers)]
    in_body = [n for n in asg if n not in in_handler]
    run.check('R1', len(in_handler) == 1 and
              norm_text(in_handler[0].ast.value) == 'hook_name in self.ignore_hook_failure',
              'a raising hook counts as true iff its name is in ignore_hook_failure', f,
              in_handler[0].ast if in_handler else f.node,
              'the outcome of a raising hook is %s' % (
                  norm_text(in_handler[0].ast.value) if in_handler else 'undefined'))
    run.check('R1', len(in_body) == 1 and isinstance(in_body[0].ast.value, ast.Call) and
              'self.hooks[hook_name]' in norm_text(in_body[0].ast.value.func),
              "the outcome of a returning hook is the hook's own result", f,
              in_body[0].ast if in_body else f.node)
    for n in rets:
        if n not in r_unconf:
            run.check('R1', norm_text(n.ast.value) == 'result', 'call_hook returns the outcome',
                      f, n.ast)


START_HOOKS = {'before_start': W + '_start', 'after_start': W + '_start',
               'before_spawn': W + 'spawn_process', 'after_spawn': W + 'spawn_process'}


def _yielded(ctx, f, keys):
    return [s.node for s in ctx.sites_calling(f, keys) if astq.call_is_yielded(s.node, s.call)]


def r2(run, ctx):
    run.rule('R2', 'start-phase gates')
    tab = doc_table(ctx)
    sp = ctx.fn(W + 'spawn_process')
    sps = ctx.fn(W + 'spawn_processes')
    # spawn_processes turns a False result into an awaited _stop and leaves the loop
    cfg = ctx.cfg(sps)
    stops = _yielded(ctx, sps, [W + '_stop'])

    def res_false(e):
        if isinstance(e, ast.Compare) and isinstance(e.left, ast.Name) and e.left.id == 'res' \
                and isinstance(e.ops[0], ast.Is) and astq.const_value(e.comparators[0], 0) is False:
            return True
        return None
    calls = [s.node for s in ctx.sites_calling(sps, [sp.key]) if isinstance(s.node.ast, ast.Assign)]
    false_to_stop = False
    if run.need('R2', stops, 'awaited _stop in spawn_processes', sps,
                'a refused spawn (False) no longer stops the watcher') and \
            run.need('R2', calls, 'res = self.spawn_process()', sps):
        for c in calls:
            r = reach_under(cfg, c, res_false, avoid=stops, labels_excluded=('exc',))
            false_to_stop = cfg.exit.id not in r and not any(x.id in r for x in calls)
            run.check('R2', false_to_stop, 'a False result of spawn_process stops the watcher and '
                      'ends the spawn loop', sps, c.ast,
                      'spawn_processes ignores a refused spawn: the watcher keeps starting')
            after = []
            for s_ in stops:
                after += [x for x in calls if x.id in cfg.reach(s_, labels_excluded=('exc',))]
            run.check('R2', not after, 'no further spawn after the stop', sps, c.ast)
    for hook, fkey in START_HOOKS.items():
        if tab.get(hook) != 'abort':
            continue
        f = ctx.fn(fkey)
        cfg = ctx.cfg(f)
        hn = ctx.direct_nodes(f, ev_hook(hook))
        if not run.need('R2', hn, "call_hook('%s')" % hook, f,
                        "the %s hook is never consulted" % hook):
            continue
        for h in hn:
            if h.kind != 'test':
                run.fail('R2', f, h.ast, "the result of %s is not tested: a false/failing hook "
                         "does not abort the start" % hook, construct='untested %s' % hook)
                continue
            assume = combine(_hook_pred(hook, False), attr_truth('recovery_wid', False),
                             attr_truth('_found_wids', False),
                             lambda e: (True if norm_text(e) == 'self.processes' else None))
            cons = ctx.nodes_calling(f, [P + '__init__'])
            act = ctx.direct_nodes(f, ev_setattr('_status', 'active'))
            sev = ctx.direct_nodes(f, ev_notify('start', 'spawn'))
            stop_n = _yielded(ctx, f, [W + '_stop'])
            r = reach_under(cfg, h, assume, avoid=stop_n, labels_excluded=('exc',))
            bad = [x for x in cons + act + sev if x.id in r]
            run.check('R2', not bad, "after a false %s no worker is started, the watcher does not "
                      "become active and no start/spawn event is published" % hook, f,
                      bad[0].ast if bad else h.ast,
                      "a false or failing %s does not abort: %s is still reached" % (
                          hook, norm_text(bad[0].ast)[:50] if bad else ''),
                      path=ctx.path_text(f, path_under(cfg, h, bad[0], assume, avoid=stop_n,
                                                       labels_excluded=('exc',)) or [])
                      if bad else None)
            # where does the false branch end?
            exits_wo_stop = cfg.exit.id in r
            if not exits_wo_stop:
                run.ok('R2', 'false %s always reaches an awaited _stop' % hook, f.where(h.ast))
                continue
            # allowed: (a) nothing was started yet: no transient status assignment dominates h
            trans = ctx.direct_nodes(f, ev_setattr('_status', 'starting'))
            before_status = not any(cfg.reachable(t, h) for t in trans)
            # (b) spawn_process returns False and the caller stops
            rets = [x for x in cfg.nodes if x.id in r and x.kind == 'stmt' and
                    isinstance(x.ast, ast.Return)]
            ret_false = bool(rets) and all(astq.const_value(x.ast.value, None) is False
                                           for x in rets if _first_return(cfg, h, x, assume))
            ok = (fkey == W + '_start' and before_status) or \
                 (fkey == sp.key and ret_false and false_to_stop)
            run.check('R2', ok, "a false %s leaves the watcher stopped (returns before anything "
                      "was started, or returns False which spawn_processes turns into _stop)"
                      % hook, f, h.ast, "a false or failing %s neither stops the watcher nor "
                      "returns the refusal to its caller" % hook)
    # the refused spawned worker is terminated, awaited
    kills = ctx.sites_calling(sp, [W + 'kill_process'])
    for s in kills:
        run.check('R2', not is_discarded(s.node, s.call), 'the worker refused by after_spawn is '
                  'terminated with the kill awaited before it is untracked', sp, s.node.ast,
                  'after_spawn false: the kill_process future is discarded and the entry deleted '
                  'at once; a worker that ignores the stop signal survives the aborted start')
    # _start: after a false gate in spawn (no processes) the watcher is stopped, not activated
    st = ctx.fn(W + '_start')
    cfg = ctx.cfg(st)
    act = ctx.direct_nodes(st, ev_setattr('_status', 'active'))
    for a in act:
        def noproc(e):
            if norm_text(e) == 'self.processes':
                return False
            return None
        r = reach_under(cfg, cfg.entry, combine(noproc, attr_truth('pending_socket_event', False)))
        run.check('R2', a.id not in r, '_start does not activate a watcher that has no process '
                  'after the spawn phase', st, a.ast)


def _first_return(cfg, h, x, assume):
    loops = [t for t in cfg.nodes if t.kind == 'test' and isinstance(t.stmt, ast.While)]
    r = cfg.reach(h, avoid=loops, edges_excluded=infeasible_edges(cfg, assume),
                  labels_excluded=('exc',))
    return x.id in r


def r3(run, ctx):
    run.rule('R3', 'stop-phase hooks cannot prevent a stop')
    tab = doc_table(ctx)
    f = ctx.fn(W + '_stop')
    for hook in ('before_stop', 'after_stop'):
        if tab.get(hook) != 'ignored':
            continue
        hn = ctx.direct_nodes(f, ev_hook(hook))
        if not run.need('R3', hn, "call_hook('%s')" % hook, f):
            continue
        for h in hn:
            ok = h.kind == 'stmt' and isinstance(h.ast, ast.Expr)
            run.check('R3', ok, 'the result of %s is not used' % hook, f, h.ast,
                      'the outcome of %s influences the stop (the documentation says it is '
                      'ignored): a false/failing hook can prevent a stop' % hook,
                      construct='%s result used' % hook)
    rp = ctx.fn(W + 'reap_process')
    for hook in ('before_reap', 'after_reap'):
        for h in ctx.direct_nodes(rp, ev_hook(hook)):
            run.check('R3', h.kind == 'stmt' and isinstance(h.ast, ast.Expr),
                      'the result of %s is not used' % hook, rp, h.ast)


def r4(run, ctx):
    run.rule('R4', 'signal gate as a boolean function')
    f = ctx.fn(W + 'send_signal')
    cfg = ctx.cfg(f)
    send = ctx.nodes_calling(f, [P + 'send_signal'])
    if not run.need('R4', send, 'process.send_signal in Watcher.send_signal', f):
        return
    # atoms of the gate, wherever they are written (inline or through a flag local - the
    # assumption machinery sees through single-assignment flags): "the signal is SIGKILL"
    # and "before_signal said yes"
    kill_cmps = [x for x in ast.walk(f.node) if isinstance(x, ast.Compare) and len(x.ops) == 1 and
                 'SIGKILL' in norm_text(x) and 'signum' in astq.names_in(x)]
    for x in kill_cmps:
        run.check('R4', isinstance(x.ops[0], (ast.Eq, ast.NotEq)), 'SIGKILL is recognised by value',
                  f, x, 'SIGKILL is recognised by `%s`: signal numbers that come from a request or '
                  'from the configuration are plain integers (to_signum), never the enum '
                  'member, so for them the always-sent exemption does not apply'
                  % norm_text(x), construct='SIGKILL compared by identity')
    hooks = [c for n in ctx.live_nodes(f) for c in n.calls()
             if astq.call_last(c) == 'call_hook' and c.args and
             astq.const_value(c.args[0]) == 'before_signal']
    if run.need('R4', hooks, "call_hook('before_signal') in Watcher.send_signal", f,
                'before_signal is never consulted'):
        kws = {k.arg: norm_text(k.value) for k in hooks[0].keywords}
        run.check('R4', kws.get('pid') == 'pid' and kws.get('signum') == 'signum',
                  'the hook is told the pid and the signal', f, hooks[0])
    table = {}
    for ks in (False, True):
        for hs in (False, True):
            def assume(e, ks=ks, hs=hs):
                if isinstance(e, ast.Compare) and len(e.ops) == 1 and 'SIGKILL' in norm_text(e) \
                        and 'signum' in astq.names_in(e):
                    if isinstance(e.ops[0], (ast.Eq, ast.Is)):
                        return ks
                    if isinstance(e.ops[0], (ast.NotEq, ast.IsNot)):
                        return not ks
                if isinstance(e, ast.Call) and dotted(e.func) == 'hasattr' and \
                        'SIGKILL' in norm_text(e):
                    return True
                if isinstance(e, ast.Compare) and isinstance(e.ops[0], ast.In) and \
                        norm_text(e.comparators[0]) == 'self.processes':
                    return True
                if isinstance(e, ast.Compare) and len(e.ops) == 1 and \
                        isinstance(e.ops[0], (ast.Is, ast.IsNot)) and \
                        astq.const_value(e.comparators[0], 0) is None and \
                        'process' in norm_text(e.left):
                    return isinstance(e.ops[0], ast.IsNot)      # the pid is one of ours
                if isinstance(e, ast.Call) and astq.call_last(e) == 'call_hook':
                    return hs
                if isinstance(e, ast.BoolOp):        # the value of a flag local
                    vs = [assume(v, ks, hs) for v in e.values]
                    if isinstance(e.op, ast.And):
                        return False if False in vs else (None if None in vs else True)
                    return True if True in vs else (None if None in vs else False)
                if isinstance(e, ast.UnaryOp) and isinstance(e.op, ast.Not):
                    v = assume(e.operand, ks, hs)
                    return None if v is None else (not v)
                return None
            r = reach_under(cfg, cfg.entry, assume, labels_excluded=('exc',))
            table[(ks, hs)] = any(s.id in r for s in send)
    want = {(ks, hs): (ks or hs) for ks in (False, True) for hs in (False, True)}
    run.extra['signal_gate_truth_table'] = {str(k): v for k, v in table.items()}
    run.check('R4', table == want, 'the signal is delivered iff is_sigkill or hook_result', f,
              send[0].ast, 'the delivery condition over (is_sigkill, hook_result) is %s, expected '
              'is_sigkill OR hook_result' % {k: v for k, v in sorted(table.items())},
              construct='signal gate truth table')
    # the signal delivered is the one requested, to the tracked process with that pid
    for s in send:
        for c in s.calls():
            if astq.call_last(c) == 'send_signal' and norm_text(c.func) != 'self.send_signal':
                run.check('R4', c.args and norm_text(c.args[0]) == 'signum',
                          'the delivered signal is the requested one', f, s.ast)
    # the hook is consulted before delivery
    hk = ctx.direct_nodes(f, ev_hook('before_signal'))
    for s in send:
        run.check('R4', cfg.dominates(hk, s), 'before_signal is consulted before delivery', f, s.ast)


def r5(run, ctx):
    run.rule('R5', 'no bypass of the signal gate')
    n = 0
    for caller, s in ctx.callers_of([P + 'send_signal'], kinds=('call', 'ref')):
        if caller.module.name not in ('circus.watcher', 'circus.arbiter') and \
                not caller.module.name.startswith('circus.commands'):
            continue
        if not s.precise:
            continue
        n += 1
        run.check('R5', caller.key == W + 'send_signal', 'workers are signalled only through '
                  'Watcher.send_signal (the before_signal gate)', caller, s.node.ast,
                  '%s signals a worker directly: a before_signal veto is not consulted'
                  % caller.qualname)
    run.count('R5', n, 1, 'call sites of Process.send_signal in supervisor code')


def _tested_hooks(ctx):
    tested = set()
    wcls = ctx.p.cls('circus.watcher:Watcher')
    for m in wcls.methods.values():
        for n in ctx.live_nodes(m):
            for c in n.calls():
                if astq.call_last(c) == 'call_hook' and c.args and \
                        isinstance(astq.const_value(c.args[0]), str):
                    used = not (n.kind == 'stmt' and isinstance(n.ast, ast.Expr) and
                                n.ast.value is c)
                    if used:
                        tested.add(astq.const_value(c.args[0]))
    return tested


def r6(run, ctx):
    run.rule('R6', 'ignore-failure defaults')
    f = ctx.fn(W + '__init__')
    lst = None
    for a in walk_local(f.node):
        if isinstance(a, ast.Assign) and any(isinstance(t, ast.Attribute) and
                                             t.attr == 'ignore_hook_failure' for t in a.targets):
            lst = a
    if lst is None:
        raise AnalysisError('C14 R6: default ignore_hook_failure list not found')
    val = lst.value
    if isinstance(val, ast.Call) and val.args:        # list(CONST) / CONST.copy()
        val = val.args[0]
    if isinstance(val, ast.Call) and isinstance(val.func, ast.Attribute):
        val = val.func.value
    if isinstance(val, ast.Name) and val.id in f.module.assigns:
        val = f.module.assigns[val.id]
    if isinstance(val, ast.Name):
        val = astq.resolve_local(f.node, val)
    if isinstance(val, ast.Attribute) and dotted(val.value) == 'self':
        # another attribute set in __init__ to the literal (kept as the fixed part)
        from rules.common import attr_stores
        st = attr_stores(f.node, val.attr)
        if len(st) == 1:
            val = st[0][1]
    if isinstance(val, ast.Call) and dotted(val.func) in ('list', 'tuple', 'frozenset', 'set') \
            and val.args:
        val = val.args[0]
    if not isinstance(val, (ast.List, ast.Tuple, ast.Set)):
        raise AnalysisError('C14 R6: default ignore_hook_failure list not found')
    defaults = [astq.const_value(e) for e in val.elts]
    tested = _tested_hooks(ctx)
    run.extra['hooks_whose_result_is_tested'] = sorted(tested)
    run.count('R6', len(tested), 3, 'hooks whose result is tested')
    for h in defaults:
        run.check('R6', h not in tested, "default ignore-failure member '%s' is a hook whose result "
                  "is never tested" % h, f, lst,
                  "'%s' is in the default ignore_hook_failure list although its result is tested: "
                  "a raising %s hook without the ignore flag counts as true where the statement "
                  "and the documentation say false" % (h, h),
                  construct="default ignore list contains %s" % h)


def r7(run, ctx):
    from rules.common import stores_hook_entry
    run.rule('R7', 'ignore-flag plumbing')
    f = ctx.fn(W + '_resolve_hook')
    cfg = ctx.cfg(f)
    app = [n for n in ctx.live_nodes(f) if any(
        astq.call_last(c) == 'append' and 'ignore_hook_failure' in norm_text(c.func) and
        c.args and norm_text(c.args[0]) == 'name' for c in n.calls())]
    if run.need('R7', app, 'ignore_hook_failure.append(name)', f,
                'the per-hook ignore flag has no effect'):
        for n in app:
            run.check('R7', guarded(cfg, n, lambda e: True if norm_text(e) == 'ignore_failure'
                                    else None, True), 'a hook joins the ignore list iff its flag is '
                      'set', f, n.ast, 'hooks join the ignore-failure list regardless of the flag')
    # the list is appended to in place, so every watcher needs its own list object
    from rules.common import is_fresh_container
    init = ctx.fn(W + '__init__')
    for a in walk_local(init.node):
        if isinstance(a, ast.Assign) and any(isinstance(t, ast.Attribute) and
                                             t.attr == 'ignore_hook_failure' for t in a.targets):
            run.check('R7', is_fresh_container(a.value), 'each watcher owns its ignore-failure list '
                      '(it is appended to in place)', init, a,
                      'ignore_hook_failure aliases the shared object %s: setting the ignore flag '
                      'for one watcher sets it for every watcher in the process'
                      % norm_text(a.value), construct='ignore list aliases %s' % norm_text(a.value))
    rh = ctx.fn(W + '_resolve_hooks')
    run.check('R7', astq.has_pattern(rh.node, 'for ($n, ($c, $i)) in hooks.items()', flatten=True)
              and astq.has_pattern(rh.node, 'self._resolve_hook($n, $c, $i)'), 'the flag of each configured hook is passed on', rh, rh.node)
    gc = ctx.fn('circus.config:get_config')
    t = norm_text(gc.node)
    run.check('R7', astq.has_pattern(t, "$v.append(False)") and
              (astq.has_pattern(t, "$v[1] = to_bool($v[1])") or
               astq.has_pattern(t, "$v = [$v[0], to_bool($v[1])]")) and
              stores_hook_entry(gc.node),
              'hooks.NAME = callable[,flag]: flag parsed with to_bool, default False', gc, gc.node,
              'the ignore flag of a configured hook is not parsed as documented')


def r8(run, ctx):
    from rules import c02
    run.share(ctx, c02.r7, 'R7', 'R8', 'a worker refused by after_spawn does not stay alive '
              '(shared with C02 R7): its kill_process runs after the pid left the table, so every '
              'signal sent through the watcher is dropped and only the direct terminate() of '
              'Process.stop takes the refused worker down')
