"""C09 - published events let a subscriber reconstruct the live process set."""
import ast

from sa import astq
from sa.astq import norm_text, ev_notify, ev_setattr, ev_hook
from sa.idioms import guarded, reach_under, combine, attr_truth, infeasible_edges
from sa.project import dotted, walk_local, AnalysisError
from rules.c04 import registrations, removals, _kill_result_names

EXPLANATION = (    "Event discipline decided on CFGs: R1 spawn_process publishes exactly one "
    "spawn event per adopted child, after the table insert, carrying that "
    "child's pid; R2 every reap emission is dominated by the pop that follows "
    "the membership test (a second reap for the same pid is a no-op); R3 every "
    "removal of a pid from the table is announced: it is inside reap_process, or "
    "conditioned on the truthy result of an awaited kill_process (which "
    "publishes kill), or happens before the child was announced; R4 exit-status "
    "decoding: -WTERMSIG under WIFSIGNALED, WEXITSTATUS under WIFEXITED, "
    "Popen.returncode on the already-reaped path; R5 status=active is followed "
    "by the start event, the stop event precedes status=stopped, and no other "
    "code writes those statuses silently; R6 every signal the supervisor sends "
    "in kill_process / send_signal_process is followed by a kill event carrying "
    "the same pid; R7 the topics and payload keys the in-package consumers "
    "branch on are emitted by the producers."
    "R4 also tabulates the still-running guard of reap_process (a wait status may be discarded only when waitpid returned pid 0); R8 (shared with C04 R3) the periodic sweep hands each collected status to the watcher that owns the pid. "
    "Decides these necessary "
    "conditions, not ordering as seen through ZMQ PUB/SUB.")
ASSUMPTIONS = ["posix platform", "events lost to slow subscribers are outside the claim"]

W = 'circus.watcher:Watcher.'
P = 'circus.process:Process.'


def check(run, ctx):
    run.each(ctx, [r1, r2, r3, r4, r5, r6, r7, r8, r9])


def _event_dict(node, topic):
    for c in node.calls():
        if astq.call_last(c) == 'notify_event' and c.args and \
                astq.const_value(c.args[0]) == topic and len(c.args) > 1:
            d = c.args[1]
            if isinstance(d, ast.Name):
                return d
            return d
    return None


def _dict_value(d, key, f=None):
    if isinstance(d, ast.Dict):
        for k, v in zip(d.keys, d.values):
            if astq.const_value(k) == key:
                return v
    if isinstance(d, ast.Name) and f is not None:
        for a in walk_local(f.node):
            if isinstance(a, ast.Assign) and any(isinstance(t, ast.Name) and t.id == d.id
                                                 for t in a.targets) and isinstance(a.value, ast.Dict):
                v = _dict_value(a.value, key)
                if v is not None:
                    return v
    return None


def r1(run, ctx):
    run.rule('R1', 'one spawn event per adopted child, after registration, with its pid')
    f = ctx.fn(W + 'spawn_process')
    cfg = ctx.cfg(f)
    ev = ctx.direct_nodes(f, ev_notify('spawn'))
    regs = registrations(ctx, f)
    if not (run.need('R1', ev, "notify_event('spawn')", f, 'adopted children are never announced')
            and run.need('R1', regs, 'registration', f)):
        return
    for e in ev:
        d = _event_dict(e, 'spawn')
        v = _dict_value(d, 'process_pid', f)
        run.check('R1', v is not None and norm_text(v) == 'process.pid',
                  "the spawn event carries the child's pid", f, e.ast,
                  'the spawn event does not carry the pid of the adopted child')
        run.check('R1', not cfg.reachable(e, e), 'the spawn event is not repeated for the same '
                  'child', f, e.ast, 'a child can be announced twice')
        nxt = cfg.reach(e, labels_excluded=('exc',))
        regs_after = [r for r in regs if r.id in nxt]
        run.check('R1', not regs_after, 'after announcing a child the function returns (no second '
                  'adoption)', f, e.ast)

    def hook_true(x):
        if isinstance(x, ast.Call) and astq.call_last(x) == 'call_hook' and x.args and \
                astq.const_value(x.args[0]) == 'after_spawn':
            return True
        return None

    def proc_not_none(x):
        if isinstance(x, ast.Compare) and isinstance(x.left, ast.Name) and \
                x.left.id == 'process' and isinstance(x.ops[0], ast.Is):
            return False
        return None
    for r in regs:
        rr = reach_under(cfg, r, combine(hook_true, proc_not_none), avoid=ev,
                         labels_excluded=('exc',))
        run.check('R1', cfg.exit.id not in rr, 'every adopted child (after_spawn true) is '
                  'announced before spawn_process returns', f, r.ast,
                  'a child can be adopted (registered, hook accepted) without a spawn event')
    # whatever the hooks say: a child that is still in the table when spawn_process returns
    # has been announced (a refused child is taken out again before returning)
    rem = removals(ctx, f)
    for r in regs:
        rr = reach_under(cfg, r, proc_not_none, avoid=ev + rem,
                         labels_excluded=('exc', 'raise', 'reraise'))
        run.check('R1', cfg.exit.id not in rr, 'spawn_process never returns with a registered '
                  'child that was not announced', f, r.ast,
                  'spawn_process can return leaving a child in the table for which no spawn '
                  'event was published (refused by a hook): its later reap event refers to a '
                  'pid no subscriber has seen', construct='registered child not announced')
    # no suspension between registration and event (function is not a coroutine)
    run.check('R1', not f.is_coroutine and not f.is_generator, 'spawn_process has no suspension '
              'point (no reap can interleave between registration and announcement)', f, f.node)


def r2(run, ctx):
    run.rule('R2', 'at most one reap event per registration')
    f = ctx.fn(W + 'reap_process')
    cfg = ctx.cfg(f)
    ev = ctx.direct_nodes(f, ev_notify('reap'))
    pops = removals(ctx, f)
    if not (run.need('R2', ev, "notify_event('reap')", f, 'reaped workers are never announced')
            and run.need('R2', pops, 'removal of the pid in reap_process', f,
                         'reap_process does not untrack the pid: it can be reaped (and announced) '
                         'again')):
        return

    def member(e):
        if isinstance(e, ast.Compare) and isinstance(e.ops[0], (ast.In, ast.NotIn)) and \
                'self.processes' in norm_text(e.comparators[0]) and norm_text(e.left) == 'pid':
            return isinstance(e.ops[0], ast.In)
        return None
    for p in pops:
        run.check('R2', guarded(cfg, p, member, True), 'the pid is removed only if it is tracked',
                  f, p.ast)
    for e in ev:
        run.check('R2', cfg.dominates(pops, e), 'a reap event is emitted only after the pid was '
                  'removed from the table (a second call is a no-op)', f, e.ast,
                  'a reap event can be published for a pid that is not (or no longer) tracked: '
                  'more than one reap per pid')
        run.check('R2', not cfg.reachable(e, e), 'the reap event is outside the wait loop', f, e.ast)
        d = _event_dict(e, 'reap')
        v = _dict_value(d, 'process_pid', f)
        run.check('R2', v is not None and norm_text(v) == 'pid', 'the reap event carries the pid',
                  f, e.ast)
    # every path from the pop to a normal exit emits exactly one reap
    for p in pops:
        r = cfg.reach(p, avoid=ev, labels_excluded=('exc', 'raise'))
        run.check('R2', cfg.exit.id not in r, 'every completed reap publishes the event', f, p.ast,
                  'reap_process can untrack a pid and return without a reap event')
        for e in ev:
            after = cfg.reach(e)
            run.check('R2', not any(x.id in after for x in ev), 'no path emits two reap events',
                      f, e.ast)


def r3(run, ctx):
    run.rule('R3', 'every removal of a pid is announced')
    wcls = ctx.p.cls('circus.watcher:Watcher')
    n = 0
    for m in wcls.methods.values():
        if m.name == '__init__':
            continue
        rem = removals(ctx, m)
        if not rem:
            continue
        cfg = ctx.cfg(m)
        knames = _kill_result_names(ctx, m)
        spawn_ev = ctx.direct_nodes(m, ev_notify('spawn'))

        def kill_ok(e, knames=knames):
            base = e
            while isinstance(base, ast.Subscript):
                base = base.value
            if isinstance(base, ast.Name) and base.id in knames:
                return True
            return None
        for node in rem:
            n += 1
            if m.name == 'reap_process':
                run.ok('R3', 'removal inside reap_process (announced by its reap event)',
                       m.where(node.ast))
                continue
            if spawn_ev and registrations(ctx, m) and \
                    not any(cfg.reachable(e, node) for e in spawn_ev) and \
                    cfg.dominates(registrations(ctx, m), node):
                run.ok('R3', 'removal of a child that was never announced', m.where(node.ast))
                continue
            ok = guarded(cfg, node, kill_ok, True)
            run.check('R3', ok, 'the removal follows a kill event for that pid (awaited '
                      'kill_process returned true)', m, node.ast,
                      'a tracked pid is dropped with neither a reap nor a kill event: a worker '
                      'that died just before incr/decr/set/reload re-evaluated the process set '
                      'stays "alive" for every subscriber')
    run.count('R3', n, 3, 'removal sites on Watcher.processes')
    # kill_process really publishes kill before returning true
    f = ctx.fn(W + 'kill_process')
    cfg = ctx.cfg(f)
    kev = ctx.nodes(f, ev_notify('kill'), must=False)
    for x in cfg.nodes:
        if x.tag == 'gen_return' and isinstance(x.ast.exc, ast.Call) and x.ast.exc.args and \
                astq.const_value(x.ast.exc.args[0], None) is True:
            run.check('R3', cfg.dominates(kev, x), 'kill_process returns true only after a kill '
                      'event was published', f, x.ast)


def r4(run, ctx):
    run.rule('R4', 'exit-status decoding table')
    # 0 is a legitimate wait status (clean exit): "no status yet" must be `is None`
    rp_ = ctx.fn(W + 'reap_process')
    for t in ctx.cfg(rp_).nodes:
        if t.kind != 'test':
            continue
        from sa.idioms import conj_atoms
        atoms = [a for a, pol in conj_atoms(t.ast, True)] + [a for a, pol in conj_atoms(t.ast, False)]
        for a in atoms:
            if isinstance(a, ast.Name) and a.id == 'status':
                run.fail('R4', rp_, t.ast, 'the wait status is tested by truthiness: a clean exit '
                         '(status 0) is taken for "no status", and the reap event of a worker '
                         'that exited with 0 carries no exit code', construct='status truthiness')
    f = ctx.fn(W + 'reap_process')
    cfg = ctx.cfg(f)
    assigns = [n for n in ctx.live_nodes(f) if n.kind == 'stmt' and isinstance(n.ast, ast.Assign)
               and any(isinstance(t, ast.Name) and t.id == 'exit_code' for t in n.ast.targets)]

    def pred(fn):
        def p(e):
            if isinstance(e, ast.Call) and dotted(e.func) == fn:
                return True
            return None
        return p
    from sa.dataflow import reaching_defs
    rdx = reaching_defs(ctx, f)

    def value_texts(n):          # the assigned value, seen through temporaries
        return {a.text() for a in rdx.expand(n, n.ast.value, stop=('status',))}
    sig = [n for n in assigns if any('WTERMSIG' in t_ for t_ in value_texts(n))]
    ext = [n for n in assigns if any('WEXITSTATUS' in t_ for t_ in value_texts(n))]
    if run.need('R4', sig, 'exit_code from WTERMSIG', f) and run.need('R4', ext, 'exit_code from '
                                                                     'WEXITSTATUS', f):
        for n in sig:
            run.check('R4', value_texts(n) == {'-os.WTERMSIG(status)'} and
                      guarded(cfg, n, pred('os.WIFSIGNALED'), True),
                      'killed by a signal -> exit_code = -signal number', f, n.ast,
                      'the exit_code of a signalled worker is not minus the signal number')
        for n in ext:
            run.check('R4', value_texts(n) == {'os.WEXITSTATUS(status)'} and
                      guarded(cfg, n, pred('os.WIFEXITED'), True) and
                      guarded(cfg, n, pred('os.WIFSIGNALED'), False),
                      'normal exit -> exit_code = exit status', f, n.ast,
                      'the exit_code of an exited worker is not its exit status')
    ev = ctx.direct_nodes(f, ev_notify('reap'))
    for e in ev:
        d = _event_dict(e, 'reap')
        v = _dict_value(d, 'exit_code', f)
        okv = v is not None and norm_text(v) in ('exit_code', 'process.returncode()')
        run.check('R4', okv, 'the reap event publishes the decoded code', f, e.ast)
        if v is not None and norm_text(v) == 'exit_code':
            # the decoded value reaching the event comes from the decoding branches
            r = cfg.reach(cfg.entry, avoid=sig + ext)
            others = [n for n in assigns if n not in sig + ext]
            bad = e.id in r and not all(astq.const_value(n.ast.value, None) == 0 or
                                        norm_text(n.ast.value) == 'status' for n in others)
            run.check('R4', not bad, 'exit_code is one of the decoded values', f, e.ast)
    # a collected status is discarded ("still running, poll again") only when waitpid
    # reported no state change, i.e. returned pid 0: tabulate the guard over
    # pid in {0, child} x status in {0, exit 1, signal 9}
    for wn in [n for n in ctx.live_nodes(f)
               if any(dotted(c.func) == 'os.waitpid' for c in n.calls())]:
        tg = wn.ast.targets[0] if isinstance(wn.ast, ast.Assign) else None
        if not (isinstance(tg, ast.Tuple) and len(tg.elts) == 2):
            continue
        pid_name, st_name = norm_text(tg.elts[0]), norm_text(tg.elts[1])
        handlers = [h for h in cfg.nodes if h.kind == 'except']
        resets = [n for n in cfg.nodes if n.kind == 'stmt' and isinstance(n.ast, ast.Assign) and
                  norm_text(n.ast.targets[0]) == st_name and
                  astq.const_value(n.ast.value, 0) is None and cfg.reachable(wn, n) and
                  not any(cfg.dominates([h], n) for h in handlers)]
        for rn in resets:
            tests = [t for t in cfg.nodes if t.kind == 'test' and cfg.dominates([t], rn) and
                     cfg.reachable(wn, t) and rn.id in cfg.branch_nodes(t, 'true') and
                     rn.id not in cfg.branch_nodes(t, 'false')]
            bad = None
            decided = False
            for t in tests:
                try:
                    for pidv in (0, 4242):
                        for stv in (0, 256, 9):
                            if astq.eval_pure(t.ast, {pid_name: pidv, st_name: stv}) and pidv != 0:
                                bad = (pidv, stv)
                    decided = True
                except astq.Unknown:
                    continue
            if not decided:
                raise AnalysisError('C09 R4: cannot tabulate the still-running guard of '
                                    'reap_process')
            run.check('R4', bad is None, 'a wait status is discarded as "still running" only when '
                      'waitpid returned pid 0', f, rn.ast,
                      'waitpid result (pid=%s, status=%s) of an exited child is treated as "still '
                      'running": its real exit status is thrown away and the reap event reports '
                      'Popen.returncode (None)' % (bad or ('', '')))
    # status flows in unchanged from waitpid / the caller
    wp = [n for n in ctx.live_nodes(f) if any(dotted(c.func) == 'os.waitpid' for c in n.calls())]
    for n in wp:
        tg = n.ast.targets[0] if isinstance(n.ast, ast.Assign) else None
        run.check('R4', isinstance(tg, ast.Tuple) and len(tg.elts) == 2 and
                  norm_text(tg.elts[1]) == 'status', 'the decoded status is the one waitpid '
                  'returned', f, n.ast)
        for c in n.calls():
            if dotted(c.func) == 'os.waitpid':
                run.check('R4', norm_text(c.args[0]) == 'pid', 'waitpid targets the reaped pid',
                          f, n.ast)


def r5(run, ctx):
    run.rule('R5', 'start/stop events agree with the reported status')
    wcls = ctx.p.cls('circus.watcher:Watcher')
    n_act = n_stop = 0
    for m in wcls.methods.values():
        if m.name == '__init__':
            continue
        cfg = ctx.cfg(m)
        for a in ctx.direct_nodes(m, ev_setattr('_status', 'active')):
            n_act += 1
            ev = ctx.direct_nodes(m, ev_notify('start'))
            r = cfg.reach(a, avoid=ev, labels_excluded=('exc',))
            run.check('R5', bool(ev) and cfg.exit.id not in r, "status 'active' is followed by "
                      "the start event", m, a.ast, "a watcher becomes active without a start event")
        for a in ctx.direct_nodes(m, ev_setattr('_status', 'stopped')):
            n_stop += 1
            ev = ctx.direct_nodes(m, ev_notify('stop'))

            def has_pub(e):
                if isinstance(e, ast.Compare) and 'evpub_socket' in norm_text(e.left) and \
                        isinstance(e.ops[0], ast.IsNot):
                    return True
                return None
            r = reach_under(cfg, cfg.entry, has_pub, avoid=ev)
            run.check('R5', bool(ev) and a.id not in r, "status 'stopped' is preceded by the stop "
                      "event", m, a.ast, "a watcher reports stopped although no stop event was "
                      "published")
    run.count('R5', n_act, 1, "writers of status 'active'")
    run.count('R5', n_stop, 1, "writers of status 'stopped'")
    # start event only when active
    f = ctx.fn(W + '_start')
    cfg = ctx.cfg(f)
    act = ctx.direct_nodes(f, ev_setattr('_status', 'active'))
    for e in ctx.direct_nodes(f, ev_notify('start')):
        run.check('R5', cfg.dominates(act, e), "the start event is published only after status "
                  "'active'", f, e.ast)


def r6(run, ctx):
    run.rule('R6', 'every signal the supervisor sends to a worker is announced')
    for key in (W + 'kill_process', W + 'send_signal_process'):
        f = ctx.fn(key)
        cfg = ctx.cfg(f)
        sends = []
        for s in ctx.sites(f):
            if s.kind != 'call':
                continue
            if any(t.key == W + 'send_signal' for t in s.targets):
                sends.append((s, norm_text(s.call.args[0]) if s.call.args else '?'))
            if any(t.key == P + 'send_signal_child' for t in s.targets):
                sends.append((s, norm_text(s.call.args[0]) if s.call.args else '?'))
        for s, pid_txt in sends:
            evs = []
            for n in ctx.direct_nodes(f, ev_notify('kill')):
                v = _dict_value(_event_dict(n, 'kill'), 'process_pid', f)
                if v is not None and norm_text(v) == pid_txt:
                    evs.append(n)
            r = cfg.reach(s.node, avoid=evs, labels_excluded=('exc',))
            run.check('R6', bool(evs) and cfg.exit.id not in r, 'a signal to %s is followed by a '
                      'kill event with that pid' % pid_txt, f, s.node.ast,
                      'a signal is sent to %s without a kill event for it' % pid_txt)
    f = ctx.fn(W + 'kill_process')
    n = len([1 for s in ctx.sites(f) if s.kind == 'call' and any(
        t.key in (W + 'send_signal', W + 'send_signal_process') for t in s.targets)])
    run.count('R6', n, 2, 'signal send sites in kill_process')


def r7(run, ctx):
    run.rule('R7', 'consumer/producer vocabulary agreement')
    emitted = set()
    keys = {}
    for f in ctx.p.all_functions():
        if f.module.name not in ('circus.watcher', 'circus.arbiter'):
            continue
        for n in ctx.live_nodes(f):
            for c in n.calls():
                if astq.call_last(c) == 'notify_event' and c.args:
                    t = astq.const_value(c.args[0])
                    if isinstance(t, str):
                        emitted.add(t)
                        d = c.args[1] if len(c.args) > 1 else None
                        if isinstance(d, ast.Name):
                            dn = d.id
                            for a in walk_local(f.node):
                                if isinstance(a, ast.Assign) and isinstance(a.value, ast.Dict) and \
                                        any(isinstance(x, ast.Name) and x.id == dn
                                            for x in a.targets):
                                    d = a.value
                        if isinstance(d, ast.Dict):
                            keys.setdefault(t, set()).update(
                                astq.const_value(k) for k in d.keys if k is not None)
    run.count('R7', len(emitted), 5, 'event topics emitted')
    consumers = ['circus.stats.streamer:StatsStreamer.handle_recv',
                 'circus.plugins.watchdog:WatchDog.handle_recv',
                 'circus.plugins.flapping:Flapping.handle_recv']
    for key in consumers:
        f = ctx.fn(key)
        used = set()
        for x in ast.walk(f.node):
            if isinstance(x, ast.Compare) and isinstance(x.left, ast.Name) and x.left.id == 'action':
                for cmp in x.comparators:
                    if isinstance(cmp, ast.Constant):
                        used.add(cmp.value)
                    elif isinstance(cmp, (ast.Tuple, ast.List)):
                        used.update(astq.const_value(e) for e in cmp.elts)
        run.count('R7', len(used), 1, 'topics consumed by %s' % f.qualname)
        for t in sorted(used):
            run.check('R7', t in emitted, "%s consumes '%s', which the watcher emits"
                      % (f.qualname, t), f, f.node,
                      "consumer waits for topic '%s' that is never published" % t,
                      construct='topic %s' % t)
        if 'process_pid' in norm_text(f.node):
            for t in used & {'spawn', 'reap', 'kill'}:
                run.check('R7', 'process_pid' in keys.get(t, set()),
                          "'%s' events carry process_pid" % t, f, f.node,
                          construct='process_pid in %s' % t)
    wf = ctx.fn(W + 'notify_event')
    shapes = [astq.fstring_parts(x, wf.node) for x in ast.walk(wf.node)
              if isinstance(x, ast.JoinedStr)]
    run.check('R7', ['watcher.', ('self.res_name', 's'), '.', ('topic', 's')] in shapes,
              'topics are published as watcher.<name>.<topic>', wf, wf.node)


def r8(run, ctx):
    from rules import c04
    run.share(ctx, c04.r3, 'R3', 'R8', 'the periodic zombie sweep hands every collected status '
              'to the watcher that owns the pid (shared with C04 R3): otherwise the death is '
              'never announced by a reap event')


# Who may collect a child's exit status.  A collected child is invisible to the arbiter's
# waitpid(-1) sweep, the only place where a worker that died by itself gets its reap event.
COLLECT_WRAPPERS = {           # calling these IS collecting
    'circus.process:Process.poll': 'thin wrapper of Popen.poll',
    'circus.process:Process.is_alive': 'poll() is None',
    'circus.process:Process.wait': 'thin wrapper of Popen.wait (library API, no caller in circus)',
}
COLLECT_OWNERS = {             # may collect; their callers are not tainted
    'circus.process:Process.stop': 'last step of a termination, followed by the reap of the caller',
    'circus.watcher:Watcher.kill_process': 'termination routine: every caller reaps or drops '
                                           'the worker with a kill/reap event (C04 R2, C09 R2)',
    'circus.watcher:Watcher.reap_process': 'publishes the reap event itself',
    'circus.arbiter:Arbiter.reap_processes': 'the sweep: hands each status to reap_process',
}
_POPEN_COLLECTORS = ('poll', 'wait', 'communicate')
_OS_COLLECTORS = ('os.waitpid', 'os.wait', 'os.wait3', 'os.wait4', 'os.waitid')


def _collector_calls(ctx, f):
    out = []
    for node in ctx.live_nodes(f):
        for c in node.calls():
            d = dotted(c.func) or ''
            if d in _OS_COLLECTORS:
                out.append((node, c, d))
            elif isinstance(c.func, ast.Attribute) and c.func.attr in _POPEN_COLLECTORS and \
                    '_worker' in norm_text(c.func.value):
                out.append((node, c, 'Popen.%s' % c.func.attr))
    for s in ctx.sites(f):
        if s.kind == 'call' and any(t.key in COLLECT_WRAPPERS for t in s.targets):
            out.append((s.node, s.call, [t.qualname for t in s.targets
                                         if t.key in COLLECT_WRAPPERS][0]))
    return out


def _reaped_at_once(ctx, f, node, call):
    """the collecting call is an is_alive() test whose dead outcome leads, on every path and
    before the function ends or suspends, to Watcher.reap_process: the worker is unlisted and
    its reap event published in the same synchronous step"""
    if astq.call_last(call) != 'is_alive' or node.kind != 'test':
        return False
    cfg = ctx.cfg(f)
    reaps = ctx.nodes_calling(f, [W + 'reap_process'])
    if not reaps:
        return False

    def dead(e):
        return False if isinstance(e, ast.Call) and astq.call_last(e) == 'is_alive' else None
    r = reach_under(cfg, node, dead, avoid=reaps, labels_excluded=('exc', 'raise', 'reraise'))
    stops = {cfg.exit.id} | {n.id for n in cfg.nodes if n.id != node.id and n.ast is not None and
                             astq.has_yield(n)}
    return not (set(r) & stops)


def r9(run, ctx):
    run.rule('R9', "a child's exit status is collected only by the termination and reap routines")
    n = owners = 0
    table = set(COLLECT_WRAPPERS) | set(COLLECT_OWNERS)

    def private_to_owners(f, depth=0):
        # a helper all of whose call sites are in the routines above (or in such helpers)
        cs = ctx.callers_of([f.key], kinds=('call', 'ref'))
        return bool(cs) and depth < 4 and all(
            c.key in table or (c.key != f.key and private_to_owners(c, depth + 1))
            for c, _ in cs)
    for f in ctx.p.all_functions():
        if not f.key.startswith('circus.') or f.key.startswith('circus.tests'):
            continue
        calls = _collector_calls(ctx, f)
        if not calls:
            continue
        n += len(calls)
        allowed = f.key in table or private_to_owners(f)
        owners += allowed
        for node, c, what in calls:
            if not allowed and _reaped_at_once(ctx, f, node, c):
                run.check('R9', True, '%s collects a child only to reap it in the same step'
                          % f.qualname, f, node.ast)
                continue
            run.check('R9', allowed, '%s may collect a child (%s)' % (
                f.qualname, COLLECT_WRAPPERS.get(f.key) or COLLECT_OWNERS.get(f.key)),
                f, node.ast,
                '%s collects the exit status of a worker (%s) although it is neither a '
                'termination nor a reap routine: a worker that died by itself is then no longer '
                'seen by the arbiter\'s waitpid sweep, is dropped from the table without a reap '
                'event, and a subscriber keeps it in its live set for ever' % (f.qualname, what),
                construct='collects a child outside the reap routines')
    run.count('R9', n, 5, 'calls that collect a child')
    run.count('R9', owners, 5, 'functions that may collect a child')
