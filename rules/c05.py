"""C05 - the daemon never blocks."""
import ast

from sa import astq
from sa.astq import norm_text
from sa.idioms import reach_under, combine, attr_truth, guarded
from sa.project import dotted

EXPLANATION = (
    "Reachability of blocking primitives and unbounded loops from the code that "
    "runs on the event-loop thread, decided on the resolved call graph: R1 no "
    "blocking primitive (time.sleep, waitpid without WNOHANG, Popen.wait/"
    "communicate, subprocess.*, select with a non-zero timeout, Thread.join, "
    "the synchronous client) is reachable from any command's execute, the "
    "controller's message handlers, the periodic check, any coroutine of "
    "watcher.py/arbiter.py, the output redirector or the signal handlers; R2 "
    "every `while` loop reachable from there has a variant (a counter compared "
    "with a bound and increased by a positive constant on every iteration, with "
    "no disjunct that keeps the guard true) or is a listed consuming loop; R3 "
    "the ten read-only commands contain no suspension point and reach no "
    "@synchronized function, no state mutator and no blocking primitive; R4 "
    "Controller.dispatch replies at once for a non-waiting request whose "
    "operation returned a Future; R5 every sleep in the supervisor coroutines is "
    "a yielded loop sleep. Hooks are user code and outside the claim. Decides "
    "these necessary conditions, not the numeric time bound."
    "R6 exclusive-slot discipline (shared with C10 R1) and R7 waiting requests are always answered (shared with C06 R2/R4/R6). ")
ASSUMPTIONS = ["posix platform (IS_WINDOWS branches pruned)",
               "hooks / stream classes / plugins are user code and not analysed",
               "table exceptions: dstats' psutil cpu_percent(interval=0.01) (bounded 10 ms); "
               "the `ipython` debugging command (deliberately embeds a shell)"]

W = 'circus.watcher:Watcher.'
A = 'circus.arbiter:Arbiter.'
C = 'circus.controller:Controller.'

READ_ONLY = ['status', 'list', 'numprocesses', 'numwatchers', 'options', 'get',
             'globaloptions', 'stats', 'dstats', 'listsockets']

# loops that consume a finite resource on each iteration (frozen, with reason)
CONSUMING_LOOPS = {
    'circus.arbiter:Arbiter.reap_processes':
        'each iteration reaps one dead child with waitpid(-1, WNOHANG) and leaves when none is left',
    'circus.util:StrictConfigParser._read':
        'reads one line of a finite file per iteration, leaves at EOF',
    'circus.util:papa': 'n/a',
}


def blocking_calls(ctx, f):
    """[(node, call, description)] blocking primitives called directly in f."""
    out = []
    for n in ctx.live_nodes(f):
        for c in n.calls():
            d = dotted(c.func) or ''
            last = astq.call_last(c)
            if d in ('time.sleep', 'time_.sleep', 'sleep') and d != 'sleep':
                out.append((n, c, 'time.sleep blocks the event loop'))
            elif d == 'sleep' and f.module.imports.get('sleep', '').startswith('time'):
                out.append((n, c, 'time.sleep blocks the event loop'))
            elif d == 'os.waitpid':
                flag = dotted(c.args[1]) if len(c.args) > 1 else None
                if flag != 'os.WNOHANG':
                    out.append((n, c, 'os.waitpid without WNOHANG blocks'))
            elif d in ('os.wait', 'os.wait3', 'os.wait4', 'os.waitid'):
                out.append((n, c, '%s blocks' % d))
            elif d.startswith('subprocess.') and last in ('call', 'run', 'check_call',
                                                          'check_output', 'getoutput'):
                out.append((n, c, '%s blocks' % d))
            elif last == 'communicate':
                out.append((n, c, 'Popen.communicate blocks'))
            elif last == 'wait' and isinstance(c.func, ast.Attribute):
                recv = norm_text(c.func.value)
                t = ctx.r.type_of(c.func.value, f)
                to = astq.kwarg(c, 'timeout', 0)
                if t == 'Process' or '_worker' in recv or recv in ('process', 'p'):
                    if to is None or astq.const_value(to, 'x') is None:
                        out.append((n, c, 'waiting for a child without timeout blocks'))
            elif d == 'select.select':
                to = c.args[3] if len(c.args) > 3 else None
                if to is None or astq.const_value(to, 'x') != 0:
                    out.append((n, c, 'select.select with a non-zero/None timeout blocks'))
            elif last == 'poll' and isinstance(c.func, ast.Attribute):
                # poll()/epoll()/zmq Poller objects: poll() without a zero timeout waits
                from sa.dataflow import reaching_defs
                rd_ = reaching_defs(ctx, f)
                recv_alts = [a.text() for a in rd_.expand(n, c.func.value)]
                is_poller = any(('select.poll(' in t_ or 'select.epoll(' in t_ or
                                 'select.devpoll(' in t_ or 'select.kqueue(' in t_ or
                                 'Poller(' in t_) for t_ in recv_alts)
                if is_poller:
                    to = c.args[0] if c.args else astq.kwarg(c, 'timeout')
                    if to is None or astq.const_value(to, 'x') != 0:
                        out.append((n, c, 'poll() on a poller object without a zero timeout '
                                          'blocks until a descriptor is ready'))
            elif last == 'join' and isinstance(c.func, ast.Attribute) and not c.args \
                    and not c.keywords:
                out.append((n, c, 'Thread.join blocks'))
            elif d == 'input':
                out.append((n, c, 'input() blocks'))
            elif last == 'cpu_percent':
                iv = astq.kwarg(c, 'interval', 0)
                v = astq.const_value(iv, 'x') if iv is not None else None
                if v not in (None, 0) and not (isinstance(v, (int, float)) and v <= 0.01):
                    out.append((n, c, 'cpu_percent(interval>0.01) blocks'))
            elif last == 'run_sync':
                out.append((n, c, 'IOLoop.run_sync from the loop thread blocks'))
    return out


def loop_entry_points(ctx):
    roots = []
    for f in ctx.p.all_functions():
        m = f.module.name
        if f.cls is not None and f.name == 'execute' and f.cls.is_subclass_of('Command') \
                and m.startswith('circus.commands') and f.cls.name != 'IPythonShell':
            roots.append(f)
        elif m in ('circus.watcher', 'circus.arbiter') and f.is_coroutine and \
                (f.cls is None or f.cls.name in ('Watcher', 'Arbiter')):
            roots.append(f)
    for key in (C + 'handle_message', C + 'dispatch', C + '_dispatch_callback',
                C + '_dispatch_callback_future', C + 'handle_autodiscover_message',
                A + 'manage_watchers',
                'circus.stream.redirector:Redirector.Handler.__call__',
                'circus.sighandler:SysHandler.signal', 'circus.sighandler:SysHandler.quit',
                'circus.sighandler:SysHandler.reload',
                'circus.util:_synchronized_cb',
                'circus.util:TransformableFuture._internal_callback'):
        f = ctx.fn(key)
        if f not in roots:
            roots.append(f)
    return [f for f in roots if not _stop_expand(f)]


EXCLUDE_MODULES = ('circus.plugins', 'circus.stats', 'circus.circusctl', 'circus.green',
                   'circus.consumer', 'circus.commands.ipythonshell', 'circus._patch')


def _stop_expand(f):
    return f.module.name.startswith(EXCLUDE_MODULES) or \
        f.key in ('circus.arbiter:ThreadedArbiter.stop', 'circus.arbiter:ThreadedArbiter.run',
                  'circus.arbiter:ThreadedArbiter.start', 'circus.arbiter:Arbiter.start',
                  'circus.arbiter:Arbiter.start_io_loop',
                  'circus.client:CircusClient.call', 'circus.client:CircusClient.send_message')


def check(run, ctx):
    roots = loop_entry_points(ctx)
    run.count('R1', len(roots), 30, 'event-loop entry points')
    seen = ctx.cg.reachable(roots, stop=_stop_expand, precise_only=True)
    run.extra['entry_points'] = len(roots)
    run.extra['functions_reachable_from_loop'] = len(seen)
    r1(run, ctx, seen)
    r2(run, ctx, seen)
    r3(run, ctx)
    r4(run, ctx)
    r5(run, ctx)
    r6(run, ctx)
    r7(run, ctx)
    r9(run, ctx)
    r11(run, ctx)


def r9(run, ctx):
    run.rule('R9', 'the synchronous wait for a child is only entered for a child that is gone')
    # Watcher.reap_process(pid) without a status polls waitpid in a sleep loop ON THE LOOP
    # THREAD until the child can be collected (finding F-REAP-SPIN): every call site must know
    # the child is dead - a dead-status test, or the true result of an awaited kill_process
    from rules.common import dead_test
    from rules.c04 import _kill_result_names
    rp = W + 'reap_process'
    n = 0
    for caller, s in ctx.callers_of([rp], kinds=('call',)):
        if s.call is None or len(s.call.args) + len(s.call.keywords) != 1:
            continue          # called with the status already collected (arbiter sweep)
        n += 1
        cfg = ctx.cfg(caller)
        knames = _kill_result_names(ctx, caller)

        def kill_ok(e, knames=knames):
            base = e
            while isinstance(base, ast.Subscript):
                base = base.value
            if isinstance(base, ast.Name) and base.id in knames:
                return True
            if isinstance(e, (ast.Yield, ast.Await)) and e.value is not None and \
                    'kill_process' in norm_text(e.value):
                return True
            return None
        def alive_call(e):
            # Process.is_alive() = Popen.poll() is None: false means the child was collected
            return True if isinstance(e, ast.Call) and astq.call_last(e) == 'is_alive' and \
                not e.args else None
        ok = guarded(cfg, s.node, dead_test, True) or guarded(cfg, s.node, kill_ok, True) or \
            guarded(cfg, s.node, alive_call, False)
        run.check('R9', ok, '%s waits synchronously only for a child known to be gone'
                  % caller.qualname, caller, s.node.ast,
                  '%s calls reap_process(pid) without knowing that the child is dead (no dead-'
                  'status test, no true kill_process result): for a live child the loop thread '
                  'polls waitpid for ever and no request is answered' % caller.qualname,
                  construct='reap_process on a possibly live child')
    run.count('R9', n, 2, 'reap_process(pid) call sites')


def r1(run, ctx, seen):
    run.rule('R1', 'no blocking primitive reachable from the loop thread')
    n = 0
    for key, (f, parent, site) in sorted(seen.items()):
        if _stop_expand(f):
            if f.key.startswith('circus.client:CircusClient') or f.key.endswith('start_io_loop'):
                run.fail('R1', f, f.node, 'a blocking function (%s) is reachable from the '
                         'loop thread' % f.qualname, path=ctx.cg.chain(seen, key))
            continue
        n += 1
        bc = blocking_calls(ctx, f)
        if f.key == 'circus.util:get_info':
            bc = []     # cpu_percent(interval) bounded by the caller (dstats: 0.01 s)
        for node, c, why in bc:
            run.fail('R1', f, node.ast, '%s: reachable from the event loop via %s' % (
                why, ' / '.join(ctx.cg.chain(seen, key)[-2:]) or 'entry point'),
                path=ctx.cg.chain(seen, key))
        if not bc:
            run.ok('R1', 'no blocking primitive in %s' % f.qualname)
    run.count('R1', n, 60, 'functions analysed for blocking calls')


def _loop_has_variant(ctx, f, cfg, t):
    """counter compared with a bound, increased by a positive constant on every
    path to the back edge, and the guard is false whenever the comparison is."""
    cmps = [e for e in ast.walk(t.ast) if isinstance(e, ast.Compare) and len(e.ops) == 1
            and isinstance(e.ops[0], (ast.Lt, ast.LtE)) and isinstance(e.left, ast.Name)]
    for cmp in cmps:
        v = cmp.left.id
        body_start = [cfg.nodes[i] for i, lab in cfg.succ[t.id] if lab == 'true']
        incs = [n for n in cfg.nodes if n.kind == 'stmt' and isinstance(n.ast, ast.AugAssign)
                and isinstance(n.ast.target, ast.Name) and n.ast.target.id == v and
                isinstance(n.ast.op, ast.Add) and
                isinstance(astq.const_value(n.ast.value, None), (int, float)) and
                astq.const_value(n.ast.value) > 0]
        if not incs:
            continue
        r = cfg.reach(body_start, avoid=incs, include_src=True)
        if t.id in r:
            continue
        # the guard must be false when the comparison is false
        bf = astq.BoolFn(t.ast)
        key = norm_text(cmp)
        if key not in bf.atoms:
            continue
        import itertools
        others = [a for a in bf.atoms if a != key]
        stuck = False
        for vals in itertools.product([False, True], repeat=len(others)):
            env = dict(zip(others, vals))
            env[key] = False
            if bf.eval(env):
                stuck = True
        if stuck:
            return False, 'the guard `%s` stays true through `%s` even when the counter ' \
                'passes its bound' % (norm_text(t.ast), ' / '.join(others))
        return True, None
    return False, 'no counter variant found for `while %s`' % norm_text(t.ast)


def r2(run, ctx, seen):
    run.rule('R2', 'every loop on the loop thread has a variant')
    n = 0
    for key, (f, parent, site) in sorted(seen.items()):
        if _stop_expand(f):
            continue
        cfg = ctx.cfg(f)
        live = cfg.reach(cfg.entry)
        for t in cfg.nodes:
            if t.kind == 'test' and isinstance(t.stmt, ast.While) and t.id in live:
                n += 1
                if f.key in CONSUMING_LOOPS:
                    run.ok('R2', 'listed consuming loop in %s: %s' % (f.qualname,
                                                                     CONSUMING_LOOPS[f.key]))
                    continue
                ok, why = _loop_has_variant(ctx, f, cfg, t)
                # a loop whose body yields to the event loop does not stall it
                run.check('R2', ok, 'loop `while %s` terminates by a counter variant'
                          % norm_text(t.ast)[:60], f, t.ast,
                          'a loop reachable from the event loop can run without bound and '
                          'without yielding: %s' % why, path=ctx.cg.chain(seen, key))
    run.count('R2', n, 2, 'while loops reachable from the loop thread')


def r3(run, ctx):
    run.rule('R3', 'read-only requests cannot be refused or delayed')
    cmds = {}
    for c in ctx.p.classes.values():
        if c.is_subclass_of('Command') and c.module.name.startswith('circus.commands'):
            nm = c.attr('name')
            if nm is not None and astq.const_value(nm):
                cmds[astq.const_value(nm)] = c
    run.count('R3', len(cmds), 15, 'registered commands')
    from rules.common import mutator_nodes
    for name in READ_ONLY:
        if name not in cmds:
            from sa.project import AnalysisError
            raise AnalysisError('C05 R3: read-only command %r not found' % name)
        e = cmds[name].lookup('execute')
        ys = [n for n in ctx.live_nodes(e) if astq.has_yield(n)]
        run.check('R3', not ys and not e.is_coroutine, '%s.execute has no suspension point' % name,
                  e, (ys[0].ast if ys else e.node),
                  'read-only command %s can be suspended: its answer waits for other work' % name)
        seen = ctx.cg.reachable([e], stop=_stop_expand, precise_only=True)
        for key, (f, parent, site) in seen.items():
            if f.synchronized:
                run.fail('R3', e, (site.node.ast if site else e.node),
                         'read-only command %s reaches the @synchronized function %s: it is '
                         'refused while another operation is in flight' % (name, f.qualname),
                         path=ctx.cg.chain(seen, key),
                         construct='%s reaches synchronized %s' % (name, f.qualname))
            if f.is_coroutine and parent is not None:
                run.fail('R3', e, (site.node.ast if site else e.node),
                         'read-only command %s starts the coroutine %s' % (name, f.qualname),
                         path=ctx.cg.chain(seen, key),
                         construct='%s reaches coroutine %s' % (name, f.qualname))
            if _stop_expand(f):
                continue
            for node, c, why in blocking_calls(ctx, f):
                if f.key == 'circus.util:get_info':
                    continue
                run.fail('R3', f, node.ast, 'read-only command %s blocks: %s' % (name, why),
                         path=ctx.cg.chain(seen, key))
            for node, what in mutator_nodes(ctx, f):
                run.fail('R3', f, node.ast, 'read-only command %s changes supervisor state '
                         '(%s)' % (name, what), path=ctx.cg.chain(seen, key))
        run.ok('R3', '%s: closure of %d functions analysed' % (name, len(seen)))


def r4(run, ctx):
    run.rule('R4', 'immediate acknowledgement of non-waiting requests')
    f = ctx.fn(C + 'dispatch')
    cfg = ctx.cfg(f)
    replies = ctx.nodes_calling(f, [C + '_dispatch_callback', C + 'send_ok', C + 'send_response'])

    def assume(e):
        if isinstance(e, ast.Call) and dotted(e.func) == 'isinstance' and len(e.args) == 2 \
                and 'Future' in norm_text(e.args[1]):
            return True
        if isinstance(e, ast.Call) and astq.call_last(e) == 'get' and e.args and \
                astq.const_value(e.args[0]) == 'waiting':
            return False
        return None
    ex = ctx.nodes_calling(f, [c.lookup('execute').key for c in ctx.p.classes.values()
                               if c.is_subclass_of('Command') and c.lookup('execute')])
    run.need('R4', ex, 'cmd.execute call in dispatch', f)
    for x in ex:
        r = reach_under(cfg, x, assume, avoid=replies, labels_excluded=('exc',))
        run.check('R4', cfg.exit.id not in r, 'a non-waiting request whose operation is '
                  'asynchronous is acknowledged before dispatch returns', f, x.ast,
                  'a non-waiting request is not answered until the operation completes '
                  '(or never)')


def r5(run, ctx):
    run.rule('R5', 'all waits in the supervisor coroutines are yielded loop sleeps')
    n = 0
    for f in ctx.p.all_functions():
        if f.module.name not in ('circus.watcher', 'circus.arbiter') or not f.is_coroutine:
            continue
        for s in ctx.sites(f):
            if s.kind == 'call' and (s.name in ('tornado_sleep', 'gen.sleep') or
                                     any(t.key == 'circus.util:tornado_sleep' for t in s.targets)):
                n += 1
                if f.key == A + 'reload':
                    # pacing of arbiter-wide reload; discarded sleep = no pacing, but no
                    # blocking either (reported under C19 as informational)
                    continue
                run.check('R5', astq.call_is_yielded(s.node, s.call), 'the loop sleep is '
                          'awaited', f, s.node.ast, 'a tornado_sleep is not yielded: the '
                          'coroutine does not wait at all')
    run.count('R5', n, 3, 'tornado_sleep call sites in supervisor coroutines')


def r6(run, ctx):
    run.rule('R6', 'exclusive-slot discipline (shared with C10 R1): a slot that is stolen or '
             'never freed lets operations overlap or wedges every later request')
    from rules import c10
    sub = type(run)(run.prop_id, run.tier, run.project)
    c10.r1(sub, ctx)
    for o in sub.obligations:
        o = dict(o)
        o['rule'] = 'R6'
        if 'key' in o:
            o['key'] = o['key'].replace('R1|', 'R6|', 1)
        run.obligations.append(o)
    for fd in sub.findings:
        fd.rule = 'R6'
        fd.key = fd.key.replace('R1|', 'R6|', 1)
        run.findings.append(fd)
    run.share(ctx, c10.r2, 'R2', 'R10', 'the slot is held for as long as the operation runs '
              '(shared with C10 R2): with gen.coroutine applied outside synchronized the wrapper '
              'sees a plain generator, frees the slot before the body has run a line, and a '
              'stop/start accepted meanwhile enters the reap loop for a worker the first '
              'operation is still terminating - the loop thread spins (F-REAP-SPIN)')


def r7(run, ctx):
    from rules import c06
    doc = ('a waiting request is always answered, also when its operation fails (shared with '
           'C06 R2/R4/R6: reply counts, id/cid handed to every reply call, done-callbacks relay '
           'failures)')
    run.share(ctx, c06.r2, 'R2', 'R7', doc)
    run.share(ctx, c06.r4, 'R4', 'R7', doc)
    run.share(ctx, c06.r6, 'R6', 'R7', doc)
    from rules import c02
    run.share(ctx, c02.r2, 'R2', 'R8', 'a kill is never refused for good (shared with C02 R2): '
              'kill_process releases its re-entrancy flag on every exit - with the flag stuck '
              'every later stop/restart/decr of that worker returns at once and the stop path '
              'waits in the reap loop for a worker that nobody signals (the daemon stops '
              'answering, see finding F-REAP-SPIN)')


def r11(run, ctx):
    from rules import c03
    run.share(ctx, c03.r5_standalone, 'R5', 'R11', 'a vanished child of the worker does not abort '
              'the termination (shared with C03 R5): NoSuchProcess escaping send_signal_process '
              'makes kill_process answer "gone" for a live worker that was never signalled, and the '
              'stop path then waits for it in the reap loop - on the loop thread')
