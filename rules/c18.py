"""C18 - signals reach exactly the addressed workers, with the signal that was named."""
import ast
import re
import re._parser as sre_parse

from sa import astq
from sa.astq import norm_text
from sa.idioms import guarded, reach_under, nodes_within
from sa.raises import Escapes
from sa.project import dotted, walk_local, AnalysisError

EXPLANATION = (
    "Who-may-signal and parser agreement decided on the call graph and "
    "expression structure: R1 the only calls of an OS signal primitive (os.kill, "
    "os.killpg, <psutil/Popen>.send_signal/terminate/kill) in daemon modules are "
    "in Process.send_signal, Process.stop, Process.send_signal_child and "
    "Process.send_signal_children - on the worker handle or on an element of "
    "get_children(worker) - plus the pid-file liveness probe (signal 0); a "
    "positive fixture with a raw os.kill must be reported on every run; R2 "
    "receiver provenance - every Process on which Watcher or the kill/signal "
    "commands invoke a sender comes from the named watcher's own process table, "
    "Watcher.send_signal tests membership first, and a client-supplied pid is "
    "only used as a key into that table or compared with p.pid; R3 addressed "
    "subset - with a pid the kill command keeps only the active process with "
    "that pid, the signal command iterates that single pid or all active pids, "
    "and childpid/children/recursive select the matching sender; R4 one parser, "
    "strict - every place a designation enters calls util.to_signum, nothing "
    "else maps names to numbers, the pattern is end-anchored, the name lookup is "
    "confined to signal.Signals, and the only refusal is ValueError. Decides "
    "these necessary conditions, not kernel delivery or pid-reuse races.")
ASSUMPTIONS = ["regex structure read with re._parser"]

W = 'circus.watcher:Watcher.'
P = 'circus.process:Process.'

DAEMON_MODULES = ('circus.watcher', 'circus.arbiter', 'circus.process', 'circus.controller',
                  'circus.commands', 'circus.sighandler', 'circus.pidfile', 'circus.util',
                  'circus.sockets', 'circus.circusd', 'circus.config', 'circus.stream')
PRIM_ATTRS = ('send_signal', 'terminate', 'kill')


def check(run, ctx):
    run.each(ctx, [r1, r2, r3, r4, r5, r6])


def raw_signal_calls(tree_or_nodes):
    """[(call, description)] raw OS-signal primitives in an AST."""
    out = []
    for c in tree_or_nodes:
        if not isinstance(c, ast.Call):
            continue
        d = dotted(c.func) or ''
        if d in ('os.kill', 'os.killpg', 'signal.pthread_kill', 'os.tgkill'):
            out.append((c, d))
    return out


FIXTURE = "import os\ndef f(props):\n    os.kill(props['pid'], props['signum'])\n"


def r1(run, ctx):
    run.rule('R1', 'who may send an OS signal, and to what')
    # positive fixture: the detector must fire on a raw os.kill
    fx = raw_signal_calls(ast.walk(ast.parse(FIXTURE)))
    if len(fx) != 1:
        raise AnalysisError('C18 R1: positive fixture not detected - detector broken')
    run.ok('R1', 'positive fixture (raw os.kill) detected')
    owners = {P + 'send_signal', P + 'stop', P + 'send_signal_child', P + 'send_signal_children'}
    n = 0
    for f in ctx.p.all_functions():
        if not f.module.name.startswith(DAEMON_MODULES):
            continue
        for node in ctx.live_nodes(f):
            for c, d in raw_signal_calls(node.calls()):
                n += 1
                if f.key == 'circus.pidfile:Pidfile.validate':
                    run.check('R1', len(c.args) == 2 and astq.const_value(c.args[1], None) == 0,
                              'the pid-file probe uses signal 0 only', f, node.ast,
                              'the pid-file check sends a real signal')
                    continue
                run.fail('R1', f, node.ast, '%s sends a raw OS signal (%s): signals must go '
                         'through the worker handles of Process' % (f.qualname, d))
            for c in node.calls():
                if isinstance(c.func, ast.Attribute) and c.func.attr in PRIM_ATTRS:
                    recv = c.func.value
                    if dotted(c.func) in ('os.kill', 'os.killpg'):
                        continue      # handled above
                    t = ctx.r.type_of(recv, f)
                    if t in ('Watcher', 'Process'):
                        continue      # in-package methods, checked by R2
                    if isinstance(recv, ast.Name) and recv.id == 'self':
                        continue
                    txt = norm_text(recv)
                    is_worker = '_worker' in txt or txt in ('child', 'children[pid]')
                    if not is_worker and t is None and not f.module.name.startswith(
                            ('circus.watcher', 'circus.process', 'circus.commands',
                             'circus.arbiter')):
                        continue
                    n += 1
                    run.check('R1', f.key in owners, 'OS-level %s() is called only inside the '
                              'Process senders' % c.func.attr, f, node.ast,
                              '%s calls %s.%s(): a signal is sent outside the four Process '
                              'senders' % (f.qualname, txt, c.func.attr))
                    if f.key in owners:
                        ok = txt == 'self._worker'
                        if txt in ('child', 'children[pid]'):
                            # element of get_children(self._worker)
                            ok = 'get_children(self._worker' in norm_text(f.node)
                        run.check('R1', ok, 'the receiver is the worker handle or one of its '
                                  'current children', f, node.ast,
                                  '%s signals %s, which is not the worker or a child of it'
                                  % (f.qualname, txt))
    run.count('R1', n, 3, 'OS signal primitive call sites')
    sc = ctx.fn(P + 'send_signal_child')
    from sa.dataflow import reaching_defs
    from sa.idioms import eq_test
    rdc = reaching_defs(ctx, sc)
    cfgc = ctx.cfg(sc)
    nsend = 0
    for node in ctx.live_nodes(sc):
        for c in node.calls():
            if not (isinstance(c.func, ast.Attribute) and c.func.attr in ('send_signal', 'kill',
                                                                          'terminate')):
                continue
            nsend += 1
            recv = c.func.value
            ok = False
            if isinstance(recv, ast.Subscript) and norm_text(recv.slice) == 'pid':
                # table[pid] of a table built over the worker's current descendants
                alts = rdc.expand(node, recv.value)
                ok = bool(alts) and all('get_children(self._worker' in a.text() and
                                        '.pid' in a.text() for a in alts)
            elif isinstance(recv, ast.Name):
                # the loop variable of a loop over the descendants, under `var.pid == pid`
                hdr = [h for h in cfgc.nodes if h.kind == 'iter' and
                       node.id in cfgc.branch_nodes(h, 'true') and
                       isinstance(h.ast.target, ast.Name) and h.ast.target.id == recv.id and
                       'get_children(self._worker' in norm_text(h.ast.iter)]
                ok = bool(hdr) and guarded(
                    cfgc, node, lambda e, v=recv.id: eq_test(e, v + '.pid', 'pid'), True)
            run.check('R1', ok, 'send_signal_child signals only a current descendant of the '
                      'worker with the requested pid', sc, node.ast,
                      'send_signal_child can signal a pid that is not a child of the worker',
                      construct='CHILD-RECEIVER')
    run.count('R1', nsend, 1, 'signal sends in Process.send_signal_child')


def r2(run, ctx):
    run.rule('R2', 'receiver provenance')
    f = ctx.fn(W + 'send_signal')
    cfg = ctx.cfg(f)
    sends = ctx.nodes_calling(f, [P + 'send_signal'])
    from sa.dataflow import reaching_defs
    rd = reaching_defs(ctx, f)

    def member(e):
        if isinstance(e, ast.Compare) and isinstance(e.ops[0], (ast.In, ast.NotIn)) and \
                norm_text(e.left) == 'pid' and norm_text(e.comparators[0]) == 'self.processes':
            return isinstance(e.ops[0], ast.In)
        return None
    if run.need('R2', sends, 'process.send_signal in Watcher.send_signal', f):
        for s in sends:
            for c in s.calls():
                if astq.call_last(c) == 'send_signal' and isinstance(c.func, ast.Attribute):
                    # the receiver IS the table's entry for that pid (a lookup that fails or
                    # gives None for a foreign pid cannot signal anybody)
                    recv = {a.text() for a in rd.expand(s, c.func.value)}
                    run.check('R2', bool(recv) and recv <= {'self.processes[pid]',
                                                            'self.processes.get(pid)'},
                              'the receiver is the table entry for that pid', f, s.ast,
                              'Watcher.send_signal signals %s, which is not the entry of its own '
                              'process table for the requested pid' % sorted(recv),
                              construct='TABLE-RECEIVER')
    for key, meth in ((W + 'send_signal_child', P + 'send_signal_child'),
                      (W + 'send_signal_children', P + 'send_signal_children')):
        g = ctx.fn(key)
        rdg = reaching_defs(ctx, g)
        sites = [s for s in ctx.sites_calling(g, [meth])]
        ok = bool(sites)
        for s in sites:
            recv = {a.text() for a in rdg.expand(s.node, s.call.func.value)} \
                if isinstance(s.call.func, ast.Attribute) else set()
            ok = ok and bool(recv) and recv <= {'self.processes[pid]', 'self.processes[int(pid)]'}
        run.check('R2', ok, '%s resolves the pid through its own table' % g.qualname, g,
                  sites[0].node.ast if sites else g.node, '%s signals children of a process that '
                  'is not taken from its own table' % g.qualname)
    # commands: only watcher methods, watcher from the request's name
    for key, allowed in (('circus.commands.kill:Kill.execute', {W + 'kill_process',
                                                                W + 'get_active_processes'}),
                         ('circus.commands.sendsignal:Signal.execute',
                          {W + 'send_signal', W + 'send_signal_child', W + 'send_signal_children',
                           W + 'get_active_pids'})):
        e = ctx.fn(key)
        wsrc = [a for a in walk_local(e.node) if isinstance(a, ast.Assign) and any(
            isinstance(t, ast.Name) and t.id == 'watcher' for t in a.targets)]
        ok = len(wsrc) == 1 and isinstance(wsrc[0].value, ast.Call) and \
            astq.call_last(wsrc[0].value) == '_get_watcher'
        namearg = wsrc[0].value.args[1] if ok and len(wsrc[0].value.args) > 1 else None
        nm_ok = False
        if isinstance(namearg, ast.Name):
            ns = [a for a in walk_local(e.node) if isinstance(a, ast.Assign) and any(
                isinstance(t, ast.Name) and t.id == namearg.id for t in a.targets)]
            nm_ok = len(ns) == 1 and norm_text(ns[0].value) in ("props.get('name')", "props['name']")
        elif namearg is not None:
            nm_ok = norm_text(namearg) in ("props.get('name')", "props['name']")
        run.check('R2', ok and nm_ok, '%s acts on the watcher named in the request' % e.qualname,
                  e, wsrc[0] if wsrc else e.node,
                  '%s resolves its watcher from something else than the request name' % e.qualname)
        for s in ctx.sites(e):
            if s.kind == 'call' and s.targets and all(t.key.startswith((W, P)) for t in s.targets):
                run.check('R2', any(t.key in allowed for t in s.targets) and
                          isinstance(s.call.func, ast.Attribute) and
                          norm_text(s.call.func.value) == 'watcher',
                          '%s only uses the named watcher\'s senders' % e.qualname, e, s.node.ast,
                          '%s calls %s' % (e.qualname, s.name))
        # a client pid is only a key / an equality operand
        for x in walk_local(e.node):
            if isinstance(x, ast.Call) and (dotted(x.func) or '').startswith(('os.', 'psutil.')):
                run.fail('R2', e, x, '%s passes request data to %s' % (e.qualname, dotted(x.func)))


def _given(name):
    """assume-function: the request carries `name` (truthy, or `is not None`)"""
    from sa.idioms import none_test

    def assume(x):
        if norm_text(x) == name:
            return True
        r = none_test(x, name)
        return None if r is None else (not r)
    return assume


def r3(run, ctx):
    run.rule('R3', 'addressed subset')
    e = ctx.fn('circus.commands.kill:Kill.execute')
    cfg = ctx.cfg(e)
    kp = ctx.sites_calling(e, [W + 'kill_process'])
    if run.need('R3', kp, 'kill_process call in Kill.execute', e):
        asg = [n for n in ctx.live_nodes(e) if n.kind == 'stmt' and isinstance(n.ast, ast.Assign)
               and any(isinstance(t, ast.Name) and t.id == 'processes' for t in n.ast.targets)]
        base = [n for n in asg if norm_text(n.ast.value) == 'watcher.get_active_processes()']
        filt = [n for n in asg if isinstance(n.ast.value, ast.ListComp)]
        run.check('R3', len(base) == 1, 'candidates are the active processes of the named watcher',
                  e, base[0].ast if base else e.node)
        okf = False
        for n in filt:
            lc = n.ast.value
            g = lc.generators[0]
            okf = norm_text(g.iter) == 'processes' and len(g.ifs) == 1 and \
                norm_text(g.ifs[0]) in ('p.pid == pid', 'pid == p.pid') and \
                norm_text(lc.elt) == norm_text(g.target) and \
                guarded(cfg, n, _given('pid'), True)
        run.check('R3', okf, 'with a pid only the active process with exactly that pid is kept',
                  e, filt[0].ast if filt else e.node,
                  'the pid filter of kill is missing or not an equality on p.pid: other workers '
                  'can be killed')
        for s in kp:
            lc = [x for x in s.node.walk() if isinstance(x, (ast.ListComp, ast.GeneratorExp))]
            ok = bool(lc) and norm_text(lc[0].generators[0].iter) == 'processes' and \
                not lc[0].generators[0].ifs and s.call.args and \
                norm_text(s.call.args[0]) == norm_text(lc[0].generators[0].target)
            run.check('R3', ok, 'exactly the selected processes are killed', e, s.node.ast)
    kv = ctx.fn('circus.commands.kill:Kill.validate')
    from rules.common import is_call_of
    pid_int = [st for st in ast.walk(kv.node) if isinstance(st, ast.Assign) and
               any(norm_text(t) == "props['pid']" for t in st.targets) and
               is_call_of(kv.node, st.value, 'int', "props['pid']")]
    run.check('R3', bool(pid_int),
              'the pid is normalised to an integer before the comparison', kv, kv.node,
              "a pid given as a string never equals p.pid: 'kill pid=N' silently kills nothing")
    se = ctx.fn('circus.commands.sendsignal:Signal.execute')
    cfg = ctx.cfg(se)
    # every way the addressed set can be built, with the request form that selects it
    from sa.dataflow import reaching_defs
    from sa.idioms import member_test
    rd = reaching_defs(ctx, se)
    loop = [n for n in cfg.nodes if n.kind == 'iter' and any(
        astq.call_last(c).startswith('send_signal') for b in nodes_within(cfg, n.ast.body)
        for c in b.calls())]
    has_pid = lambda v: (lambda e: (lambda r: None if r is None else (r == v))(
        member_test(e, "'pid'", 'props')))
    seen = set()
    for h in loop[:1]:
        for alt in rd.expand(h, h.ast.iter):
            t = alt.text()
            site = alt.used[0].ast if alt.used else h.ast
            if t == "[props['pid']]":
                seen.add('one')
                run.check('R3', not rd.feasible(alt, has_pid(False)), 'the given pid alone is '
                          'addressed only when the request names one', se, site)
            elif isinstance(alt.expr, ast.Call) and astq.call_last(alt.expr) == 'get_active_pids' \
                    and not alt.expr.args and norm_text(alt.expr.func.value) in (
                        'watcher', "self._get_watcher(arbiter, props.get('name'))"):
                seen.add('all')
                run.check('R3', not rd.feasible(alt, has_pid(True)), 'all active pids are '
                          'addressed only when the request names none', se, site,
                          'a request naming a pid can address every active worker',
                          construct='all pids although one was named')
            else:
                run.fail('R3', se, site, 'the set of addressed pids is %s' % t[:120],
                         construct='addressed pids shape')
    run.check('R3', seen == {'one', 'all'}, 'signal addresses the given pid alone, else all active '
              'pids of the watcher', se, loop[0].ast if loop else se.node,
              'the set of addressed pids is not {given pid | all active pids}: %s' % sorted(seen))
    loop = [n.ast for n in loop]
    if run.need('R3', loop, 'loop over the addressed pids', se):
        def truth(name, v):
            return lambda x: v if norm_text(x) == name else None
        sel = {
            'childpid': (W + 'send_signal_child', {'childpid': True}),
            'children': (W + 'send_signal_children', {'childpid': False, 'children': True}),
            'plain': (W + 'send_signal', {'childpid': False, 'children': False}),
        }
        for label, (target, asm) in sel.items():
            def assume(x, asm=asm):
                t = norm_text(x)
                if t in asm:
                    return asm[t]
                # `name is [not] None`: a property the request does not carry is None
                from sa.idioms import none_test
                for nm, v in asm.items():
                    r = none_test(x, nm)
                    if r is not None:
                        return (not r) if v else r
                return None
            r = reach_under(cfg, cfg.entry, assume, labels_excluded=('exc',))
            senders = {k: [n for n in ctx.nodes_calling(se, [k])] for k in
                       (W + 'send_signal', W + 'send_signal_child', W + 'send_signal_children')}
            hit = {k: any(n.id in r for n in v) for k, v in senders.items()}
            if label == 'plain':
                ok = hit[W + 'send_signal'] and not hit[W + 'send_signal_child']
            elif label == 'childpid':
                ok = hit[target] and not hit[W + 'send_signal'] and not hit[W + 'send_signal_children']
            else:
                ok = hit[target] and not hit[W + 'send_signal'] and not hit[W + 'send_signal_child']
            run.check('R3', ok, "request form '%s' selects %s only" % (label, target.split('.')[-1]),
                      se, loop[0], "for a '%s' request the senders reached are %s" % (
                          label, sorted(k.split('.')[-1] for k, v in hit.items() if v)),
                      construct='sender selection %s' % label)
        # recursive: parent + children(recursive=True)
        rc = [s for s in ctx.sites_calling(se, [W + 'send_signal_children'])
              if astq.const_value(astq.kwarg(s.call, 'recursive'), None) is True]
        run.check('R3', len(rc) == 1 and guarded(cfg, rc[0].node, lambda x: True if
                                                 norm_text(x) == 'recursive' else None, True),
                  'recursive adds the whole subtree to the parent', se, loop[0])
        for s in ctx.sites(se):
            if s.kind == 'call' and any(t.key.startswith(W + 'send_signal') for t in s.targets):
                a = [norm_text(x) for x in s.call.args]
                run.check('R3', a and a[0] == 'pid' and 'signum' in a, 'each sender gets the '
                          'addressed pid and the parsed signal', se, s.node.ast)
    childpid_without_pid(run, ctx, 'R3')


def childpid_without_pid(run, ctx, rid):
    """Signal.validate refuses every request that names a childpid but no pid,
    whatever else it carries: no path of validate reaches its normal end under
    'childpid' in props and 'pid' not in props (decided on the CFG, other atoms
    free), so execute - where childpid outranks children and the loop then runs
    over every active worker - never sees such a request."""
    from sa.idioms import member_test
    sv = ctx.fn('circus.commands.sendsignal:Signal.validate')
    cfg = ctx.cfg(sv)

    def assume(x):
        v = member_test(x, "'childpid'", 'props')
        if v is not None:
            return v
        v = member_test(x, "'pid'", 'props')
        if v is not None:
            return not v
        return None
    r = reach_under(cfg, cfg.entry, assume, labels_excluded=('exc', 'raise', 'reraise'))
    run.check(rid, cfg.exit.id not in r, 'childpid without pid is refused', sv, sv.node,
              'Signal.validate can accept a request with a childpid and no pid: execute then '
              'sends the signal to that child through EVERY active worker - the owner delivers '
              'it, the next worker raises NoSuchProcess, and the request is answered with an '
              'error after a signal was sent', construct='CHILDPID-WITHOUT-PID')


def r4(run, ctx):
    run.rule('R4', 'one parser, and it is strict')
    ts = ctx.fn('circus.util:to_signum')
    sites = {
        'circus.commands.kill:Kill.validate': None,
        'circus.commands.sendsignal:Signal.validate': None,
        'circus.commands.util:convert_option': None,
        'circus.config:get_config': None,
        W + 'set_opt': None,
        'circus.plugins.watchdog:WatchDog.__init__': None,
    }
    for key in sites:
        f = ctx.fn(key)
        run.check('R4', bool(ctx.nodes_calling(f, [ts.key])), '%s parses designations with '
                  'to_signum' % f.qualname, f, f.node,
                  '%s accepts a signal designation without util.to_signum' % f.qualname,
                  construct='%s uses to_signum' % f.qualname)
    # nothing else maps names to signal numbers
    for f in ctx.p.all_functions():
        if f.key == ts.key or f.module.name == 'circus.sighandler':
            continue
        for x in walk_local(f.node):
            if isinstance(x, ast.Call) and dotted(x.func) == 'getattr' and x.args and \
                    norm_text(x.args[0]) == 'signal':
                run.fail('R4', f, x, '%s maps a name to a signal number on its own' % f.qualname)
            if isinstance(x, ast.Subscript) and norm_text(x.value) in ('signal.Signals',
                                                                       'signal.__dict__'):
                run.fail('R4', f, x, '%s maps a name to a signal number on its own' % f.qualname)
    # (a) anchoring
    pats = []
    for n in ctx.live_nodes(ts):
        for c in n.calls():
            d = dotted(c.func) or ''
            if d in ('re.match', 're.fullmatch', 're.search') and c.args and \
                    isinstance(c.args[0], ast.Constant):
                pats.append((n, d, c.args[0].value))
    if not pats:
        raise AnalysisError('C18 R4: no literal regex found in to_signum')
    for n, fn, pat in pats:
        anchored_end = fn == 're.fullmatch'
        tree = sre_parse.parse(pat)
        items = list(tree)
        if items and str(items[-1][0]) == 'AT' and str(items[-1][1]) in ('AT_END', 'AT_END_STRING'):
            anchored_end = True
        anchored_start = fn in ('re.match', 're.fullmatch') or (
            items and str(items[0][0]) == 'AT' and 'BEGINNING' in str(items[0][1]))
        run.check('R4', anchored_end and anchored_start, 'the designation pattern must match the '
                  'whole string', ts, n.ast, "the pattern %r is not anchored at the end: "
                  "'TERM;x', 'KILL-9' or 'term garbage' are accepted as signals" % pat,
                  construct='to_signum pattern anchoring')
    # (b) lookup confined to signals
    look = []
    for x in walk_local(ts.node):
        if isinstance(x, ast.Call) and dotted(x.func) == 'getattr' and x.args and \
                norm_text(x.args[0]) == 'signal':
            look.append(('module', x))
        if isinstance(x, ast.Subscript) and norm_text(x.value) == 'signal.Signals':
            look.append(('Signals', x))
        if isinstance(x, ast.Call) and dotted(x.func) == 'getattr' and x.args and \
                norm_text(x.args[0]) == 'signal.Signals':
            look.append(('Signals', x))
    if run.need('R4', look, 'name lookup in to_signum', ts):
        for kind, x in look:
            run.check('R4', kind == 'Signals', 'names are looked up among signal.Signals only', ts,
                      x, "the name is looked up in the whole signal module: '_ign' resolves to "
                      "SIG_IGN (1 = SIGHUP) and 'sig_dfl' to 0", construct='to_signum lookup scope')
    # (c) refusal type
    esc = Escapes(ctx).escapes(ts)
    run.check('R4', set(esc) == {'ValueError'}, 'the only explicit refusal is ValueError', ts,
              ts.node, 'to_signum refuses with %s' % sorted(esc))
    for kind, x in look:
        hs = []
        for t in ast.walk(ts.node):
            if isinstance(t, ast.Try) and any(sub is x for st in t.body for sub in ast.walk(st)):
                for h in t.handlers:
                    hs += [(dotted(e) or '').split('.')[-1] for e in
                           (h.type.elts if isinstance(h.type, ast.Tuple) else [h.type])] \
                        if h.type is not None else ['*']
        need = 'KeyError' if isinstance(x, ast.Subscript) else 'AttributeError'
        run.check('R4', need in hs or '*' in hs or 'Exception' in hs or
                  (need == 'KeyError' and 'LookupError' in hs),
                  'the lookup failure (%s) is caught and turned into the ValueError refusal' % need,
                  ts, x, 'an unknown name raises %s past the handler (%s): the refusal is not the '
                  'ValueError callers catch' % (need, hs), construct='to_signum lookup handler')
    # numeric strings / ints first; names upper-cased, SIG prefix optional: read off the
    # values that reach the return statements / the lookup
    from sa.dataflow import reaching_defs
    rd = reaching_defs(ctx, ts)
    cfg = ctx.cfg(ts)
    rets = [n for n in ctx.live_nodes(ts) if n.kind == 'stmt' and isinstance(n.ast, ast.Return)
            and n.ast.value is not None]
    plain = [(r, a) for r in rets for a in rd.expand(r, r.ast.value) if a.text() == 'int(signum)']
    matches = [n for n, fn, pat in pats]
    run.check('R4', bool(plain) and all(
        any(cfg.dominates([(a.used[0] if a.used else r)], m) for r, a in plain) for m in matches),
        'numbers and numeric strings are taken as they are', ts, ts.node)
    keys = set()
    for kind, x in look:
        node = [n for n in cfg.nodes if n.ast is not None and any(sub is x for sub in n.walk())]
        key = x.slice if isinstance(x, ast.Subscript) else (x.args[1] if len(x.args) > 1 else None)
        if node and key is not None:
            mvar = None
            for a in rd.expand(node[0], key, stop=('m',)):
                keys.add(a.text())
    run.check('R4', keys == {'m.group(1).upper()', "'SIG' + m.group(1).upper()"},
              'names are upper-cased and the SIG prefix is optional', ts, ts.node,
              'designations are not case-insensitive / the SIG prefix is mandatory')


def r5(run, ctx):
    from rules import c02
    run.share(ctx, c02.r2, 'R2', 'R5', 'a kill request is not swallowed (shared with C02 R2, '
              'the typestate of kill_process): the re-entrancy flag process.stopping is raised '
              'only after the stop signal went out and lowered on every exit - a flag left set '
              'makes every later kill of that worker return at once, answered ok, with no signal '
              'sent')


def r6(run, ctx):
    run.rule('R6', "a stop_signal accepted as a designation is converted wherever it is stored")
    # `set` converts in Watcher.set_opt; `add` hands the validated options straight to the
    # Watcher constructor, which stores stop_signal as given: that is only right while the
    # validator lets nothing but integers through for that key
    from rules import c11
    types, pre, vo = c11._guaranteed_types(ctx)
    guar = types.get('stop_signal', {'any'})
    init = ctx.fn(W + '__init__')
    from sa.dataflow import reaching_defs
    rd = reaching_defs(ctx, init)
    stores = [n for n in ctx.live_nodes(init) if n.kind == 'stmt' and isinstance(n.ast, ast.Assign)
              and any(isinstance(t, ast.Attribute) and t.attr == 'stop_signal' and
                      dotted(t.value) == 'self' for t in n.ast.targets)]
    if not run.need('R6', stores, 'self.stop_signal = ... in Watcher.__init__', init):
        return
    for n in stores:
        converted = all('to_signum(' in a.text() for a in rd.expand(n, n.ast.value))
        run.check('R6', guar <= {'int'} or converted,
                  'the constructor stores a signal NUMBER (the validator admits integers only, or '
                  'the value goes through to_signum)', init, n.ast,
                  'validate_option admits %s for stop_signal, and Watcher.__init__ stores it '
                  'unconverted: a watcher added with stop_signal "int" / "SIGINT" keeps the '
                  'string, and every later stop / kill hands it to os.kill, which raises - the '
                  'same designation means a signal in `set` and in the file, and nothing here'
                  % sorted(guar), construct='STOP-SIGNAL-STORED-RAW')
