"""C07 - managed sockets reach every worker generation and are never rebound."""
import ast

from sa import astq
from sa.astq import norm_text, BoolFn
from sa.idioms import guarded, reach_under, attr_truth
from sa.project import dotted, walk_local
from sa.calls import EXTERNAL

EXPLANATION = (
    "Ownership and dataflow facts decided on the call graph / def-use chains: R1 "
    "who may bind, listen or close a managed socket (bind_and_listen only from "
    "bind_and_listen_all [non-reuseport], reload_from_config [added sockets] and "
    "Process._get_sockets_fds [a fresh per-worker copy of a so_reuseport socket]; "
    "close/close_all only from stop_controller_and_close_sockets and "
    "reload_from_config), and no bind or close is reachable from any worker-"
    "lifecycle function; R2 CircusSocket.__init__ makes the descriptor "
    "inheritable on every path; R3 the descriptor numbers substituted into the "
    "command line are the fileno() of the arbiter's one socket table (def-use "
    "chain Popen args <- format_args <- Process._get_sockets_fds <- "
    "Watcher._get_sockets_fds <- Watcher.sockets, assigned only in initialize "
    "from the arbiter's table); R4 Popen's close_fds is exactly `not use_fds`, "
    "use_fds is the watcher's use_sockets, and no pass_fds is given. Decides "
    "these necessary conditions, not what a worker finds at the descriptor."
    "R1 also requires the remembered socket configuration (s._cfg) to be the section exactly as read, since reloadconfig compares against it. ")
ASSUMPTIONS = ["python >= 3.4 (socket.set_inheritable exists)"]

W = 'circus.watcher:Watcher.'
A = 'circus.arbiter:Arbiter.'
P = 'circus.process:Process.'
S = 'circus.sockets:CircusSocket.'
SS = 'circus.sockets:CircusSockets.'

LIFECYCLE = [W + n for n in ('spawn_process', 'spawn_processes', 'kill_process',
                             'kill_processes', 'reap_process', 'reap_processes',
                             'manage_processes', '_restart', '_reload', 'incr', 'decr',
                             '_stop', '_start', 'set_numprocesses', 'remove_expired_processes',
                             'send_signal', 'send_signal_process', 'do_action', 'set_opt')] + \
            [A + 'manage_watchers', A + 'reap_processes', P + '__init__', P + 'spawn',
             P + 'stop', P + 'format_args']


def check(run, ctx):
    run.each(ctx, [r1, r2, r3, r4, r5, r6, r7])


def r6(run, ctx):
    run.rule('R6', 'descriptor numbers are read from the live socket table at every spawn')
    from sa.dataflow import reaching_defs
    f = ctx.fn('circus.watcher:Watcher._get_sockets_fds')
    rd = reaching_defs(ctx, f)
    rets = [n for n in ctx.live_nodes(f) if n.kind == 'stmt' and isinstance(n.ast, ast.Return)
            and n.ast.value is not None]
    if not run.need('R6', rets, 'return of the name -> descriptor table', f):
        return
    for r in rets:
        for alt in rd.expand(r, r.ast.value):
            e = alt.expr
            site = alt.used[0].ast if alt.used else r.ast
            if isinstance(e, ast.Dict) and not e.keys:
                continue
            ok = isinstance(e, ast.DictComp) and len(e.generators) == 1 and \
                norm_text(e.generators[0].iter) == 'self.sockets.items()' and \
                isinstance(e.value, ast.Call) and astq.call_last(e.value) == 'fileno'
            attrs = {x.attr for x in ast.walk(e) if isinstance(x, ast.Attribute) and
                     isinstance(x.value, ast.Name) and x.value.id == 'self'}
            run.check('R6', ok and attrs <= {'sockets'}, 'the table is built from self.sockets at '
                      'the time of the call', f, site,
                      'Watcher._get_sockets_fds hands out %s: descriptor numbers remembered from '
                      'an earlier call - reloadconfig replaces a changed socket in place (same '
                      'mapping object, new descriptor), so later worker generations are given the '
                      'number of a closed or unrelated descriptor' % alt.text()[:100],
                      construct='socket descriptors cached')


def r5(run, ctx):
    run.rule('R5', 'every ordinary managed socket is bound and listening before any worker')
    f = ctx.fn('circus.sockets:CircusSockets.bind_and_listen_all')
    cfg = ctx.cfg(f)
    binds = ctx.nodes_calling(f, ['circus.sockets:CircusSocket.bind_and_listen'])
    hdr = [h for h in cfg.nodes if h.kind == 'iter' and
           any(b.id in cfg.branch_nodes(h, 'true') for b in binds)]
    if not run.need('R5', binds if hdr else [], 'bind_and_listen for each socket of the table', f,
                    'managed sockets are never bound'):
        return
    h = hdr[0]
    run.check('R5', norm_text(h.ast.iter) in ('self.values()', 'list(self.values())',
                                              'self.items()', 'self'),
              'the loop visits every socket of the table', f, h.ast)

    def reuseport(v):
        return lambda e: (v if isinstance(e, ast.Attribute) and e.attr == 'so_reuseport' else None)
    start = [cfg.nodes[i] for i, lab in cfg.succ[h.id] if lab == 'true']
    # an ordinary socket (so_reuseport false): its iteration reaches the bind before the next
    r = reach_under(cfg, start, reuseport(False), avoid=binds, labels_excluded=('exc',))
    r |= {x.id for x in start if x not in binds}
    run.check('R5', h.id not in r and cfg.exit.id not in r, 'an ordinary socket is always bound',
              f, binds[0].ast, 'an ordinary socket can be skipped by bind_and_listen_all')
    # no iteration ends the loop: the sockets after a per-worker (so_reuseport) one are bound too
    from sa.idioms import nodes_within
    body = {n.id for n in nodes_within(cfg, h.ast.body)}
    leaves = [n for n in cfg.nodes if n.id in body and any(
        nxt not in body and nxt != h.id and lab not in ('exc', 'raise', 'reraise')
        for nxt, lab in cfg.succ[n.id])]
    run.check('R5', not leaves, 'no socket ends the loop early', f,
              leaves[0].ast if leaves and leaves[0].ast is not None else h.ast,
              'bind_and_listen_all stops at some socket (break/return): every managed socket '
              'after it in the table stays unbound, workers get descriptors that do not listen',
              construct='bind loop left early')
    # it runs before the watchers are started
    init = ctx.fn('circus.arbiter:Arbiter.initialize')
    run.need('R5', ctx.nodes_calling(init, [f.key]), 'bind_and_listen_all in Arbiter.initialize',
             init, 'the managed sockets are not bound when the arbiter starts')


def r1(run, ctx):
    run.rule('R1', 'who may bind / listen / close a managed socket')
    bl = ctx.fn(S + 'bind_and_listen')
    allowed_bind = {SS + 'bind_and_listen_all', A + 'reload_from_config', P + '_get_sockets_fds'}
    n = 0
    for caller, s in ctx.callers_of([bl.key], kinds=('call', 'ref')):
        if caller.module.name.startswith(('circus.green',)):
            continue
        n += 1
        run.check('R1', caller.key in allowed_bind, 'bind_and_listen is called only by its '
                  'three owners', caller, s.node.ast,
                  '%s binds a managed socket: sockets are bound once at start-up (or when the '
                  'configuration adds one)' % caller.qualname)
    run.count('R1', n, 2, 'callers of CircusSocket.bind_and_listen')
    # the three owners: conditions
    f = ctx.fn(SS + 'bind_and_listen_all')
    cfg = ctx.cfg(f)
    for node in ctx.nodes_calling(f, [bl.key]):
        ok = guarded(cfg, node, lambda e: (True if isinstance(e, ast.Attribute) and
                                           e.attr == 'so_reuseport' else None), False)
        run.check('R1', ok, 'start-up binding skips so_reuseport sockets', f, node.ast)
    callers_all = [c.key for c, s in ctx.callers_of([f.key], kinds=('call', 'ref'))]
    run.check('R1', callers_all and set(callers_all) <= {A + 'initialize'},
              'bind_and_listen_all is called only from Arbiter.initialize', f, f.node,
              'the managed sockets are (re)bound outside daemon initialisation: %s' % callers_all)
    f = ctx.fn(P + '_get_sockets_fds')
    for s in ctx.sites_calling(f, [bl.key]):
        recv = s.call.func.value if isinstance(s.call.func, ast.Attribute) else None
        fresh = False
        if isinstance(recv, ast.Name):
            for a in walk_local(f.node):
                if isinstance(a, ast.Assign) and any(isinstance(t, ast.Name) and t.id == recv.id
                                                     for t in a.targets):
                    fresh = isinstance(a.value, ast.Call) and \
                        astq.call_last(a.value) in ('load_from_config', 'CircusSocket')
        # the loop iterates a collection filtered by so_reuseport
        filt = any(isinstance(g, ast.comprehension) and any('so_reuseport' in norm_text(i)
                                                            for i in g.ifs)
                   for g in ast.walk(f.node))
        run.check('R1', fresh and filt, 'a worker-time bind happens only on a fresh copy of a '
                  'so_reuseport socket', f, s.node.ast,
                  'spawning a worker rebinds a managed socket')
    # raw bind()/listen() on a socket object only inside bind_and_listen
    n = 0
    for g in ctx.p.all_functions():
        if not g.module.name.startswith(('circus.sockets', 'circus.watcher', 'circus.arbiter',
                                         'circus.process', 'circus.commands')):
            continue
        for node in ctx.live_nodes(g):
            for c in node.calls():
                if isinstance(c.func, ast.Attribute) and c.func.attr in ('bind', 'listen'):
                    t = ctx.r.type_of(c.func.value, g)
                    if t == EXTERNAL and 'evpub_socket' in norm_text(c.func.value):
                        continue    # the zmq PUB socket, not a managed one
                    n += 1
                    run.check('R1', g.key == bl.key, 'raw bind()/listen() only inside '
                              'CircusSocket.bind_and_listen', g, node.ast,
                              '%s binds/listens on a socket outside bind_and_listen' % g.qualname)
    run.count('R1', n, 2, 'raw bind/listen calls')
    # reloadconfig decides "socket changed" by comparing the section with s._cfg, so the
    # snapshot must be the section exactly as read (no key consumed before it is taken)
    lc = ctx.fn(S + 'load_from_config')
    clc = ctx.cfg(lc)
    snaps = [x for x in ctx.live_nodes(lc) if x.kind == 'stmt' and isinstance(x.ast, ast.Assign)
             and any(isinstance(t, ast.Attribute) and t.attr == '_cfg' for t in x.ast.targets)]
    if run.need('R1', snaps, 's._cfg snapshot in CircusSocket.load_from_config', lc,
                'the socket does not remember its configuration: every reloadconfig closes and '
                'rebinds it'):
        p0 = lc.node.args.args[-1].arg
        muts = []
        for x in ctx.live_nodes(lc):
            for c in x.calls():
                if isinstance(c.func, ast.Attribute) and dotted(c.func.value) == p0 and \
                        c.func.attr in ('pop', 'popitem', 'clear', 'update', 'setdefault'):
                    muts.append(x)
            if x.kind == 'stmt':
                for t in astq.attr_targets(x.ast):
                    if isinstance(t, ast.Subscript) and dotted(t.value) == p0:
                        muts.append(x)
        for sn in snaps:
            before = [m for m in muts if clc.reachable(m, sn)]
            run.check('R1', not before and p0 in astq.names_in(sn.ast.value),
                      'the remembered socket configuration is the section as read', lc,
                      before[0].ast if before else sn.ast,
                      'the section dict is modified (%s) before the snapshot s._cfg is taken: '
                      'reloadconfig sees the socket as changed on an unchanged file and closes / '
                      'rebinds it' % (norm_text(before[0].ast) if before else ''),
                      construct='config mutated before _cfg snapshot')
    rf = ctx.fn(A + 'reload_from_config')
    run.check('R1', (astq.has_pattern(rf.node, '$n[$k] != $s._cfg') or astq.has_pattern(rf.node, '$s._cfg != $n[$k]')), 'reloadconfig compares the '
              'section with that snapshot', rf, rf.node)
    # close
    cl = ctx.fn(S + 'close')
    ca = ctx.fn(SS + 'close_all')
    allowed_close = {A + 'stop_controller_and_close_sockets', A + 'reload_from_config',
                     SS + 'close_all'}
    n = 0
    for caller, s in ctx.callers_of([cl.key, ca.key], kinds=('call', 'ref')):
        if caller.module.name.startswith(('circus.green', 'circus.plugins', 'circus.stats',
                                          'circus.circusctl', 'circus.client',
                                          'circus.consumer', 'circus.stream')):
            continue
        if not s.precise:
            # unresolved receiver named close(): sensitive, treat as may-close unless
            # the receiver is clearly not a socket
            txt = norm_text(s.call.func.value) if isinstance(s.call, ast.Call) and \
                isinstance(s.call.func, ast.Attribute) else ''
            if any(k in txt for k in ('stream', '_file', 'handler', 'fd', 'pipe', 'stdout',
                                      'stderr', 'ctrl_socket', 'evpub', 'f')):
                continue
            # a local: where does it come from?  Only something taken out of the managed
            # table (self.sockets / get_socket) can be a managed socket
            if isinstance(s.call, ast.Call) and isinstance(s.call.func, ast.Attribute) and \
                    isinstance(s.call.func.value, ast.Name):
                from sa.dataflow import reaching_defs
                alts = reaching_defs(ctx, caller).expand(s.node, s.call.func.value)
                origins = [a.text() for a in alts]
                if origins and not any(a.text() == txt for a in alts) and \
                        not any('sockets' in o or 'get_socket' in o for o in origins):
                    continue
        n += 1
        run.check('R1', caller.key in allowed_close, 'managed sockets are closed only at '
                  'shutdown or when the configuration removes them', caller, s.node.ast,
                  '%s closes a managed socket while the daemon keeps running' % caller.qualname)
    run.count('R1', n, 2, 'close sites of managed sockets')
    # nothing of that is reachable from the worker lifecycle
    roots = [ctx.fn(k) for k in LIFECYCLE]
    # Process._get_sockets_fds is not expanded: its one bind (a fresh per-worker copy of
    # a so_reuseport socket) is checked above
    seen = ctx.cg.reachable(roots, kinds=('call', 'ref'),
                            stop=lambda f: f.key == P + '_get_sockets_fds')
    for key in (bl.key, cl.key, ca.key, SS + 'bind_and_listen_all'):
        if key in seen:
            chain = ctx.cg.chain(seen, key)
            f0 = seen[key][0]
            run.fail('R1', f0, f0.node, 'a worker-lifecycle function reaches %s: worker deaths / '
                     'restarts would rebind or close the managed socket' % f0.qualname,
                     path=chain, construct='lifecycle reaches %s' % f0.qualname)
        else:
            run.ok('R1', '%s unreachable from %d worker-lifecycle functions' % (key, len(roots)))
    run.extra['lifecycle_closure'] = len(seen)


def r2(run, ctx):
    run.rule('R2', 'sockets are inheritable from construction')
    f = ctx.fn(S + '__init__')
    cfg = ctx.cfg(f)
    inh = [n for n in ctx.live_nodes(f) if any(
        astq.call_last(c) == 'set_inheritable' and c.args and
        astq.const_value(c.args[0], None) is True for c in n.calls())]
    if run.need('R2', inh, 'self.set_inheritable(True) in CircusSocket.__init__', f,
                'managed sockets are created non-inheritable (python >= 3.4 default): no '
                'worker can receive them'):
        assume = lambda e: (True if isinstance(e, ast.Call) and dotted(e.func) == 'hasattr'
                            and 'set_inheritable' in norm_text(e) else None)
        r = reach_under(cfg, cfg.entry, assume, avoid=inh, labels_excluded=('exc', 'raise'))
        run.check('R2', cfg.exit.id not in r, 'every construction path makes the descriptor '
                  'inheritable', f, inh[0].ast,
                  'a construction path leaves the socket non-inheritable')
    # nothing switches it off again
    off = []
    for g in ctx.p.all_functions():
        for n in ctx.live_nodes(g):
            for c in n.calls():
                if astq.call_last(c) == 'set_inheritable' and c.args and \
                        astq.const_value(c.args[0], None) is False:
                    off.append((g, n))
    run.check('R2', not off, 'no code makes a socket non-inheritable again',
              off[0][0] if off else f, off[0][1].ast if off else f.node)


def r3(run, ctx):
    run.rule('R3', 'fd substitution flow')
    sp = ctx.fn(P + 'spawn')
    popen = [(n, c) for n in ctx.live_nodes(sp) for c in n.calls()
             if astq.call_last(c) == 'Popen']
    if not run.need('R3', popen, 'Popen call in Process.spawn', sp):
        return
    n, c = popen[0]
    a0 = c.args[0] if c.args else astq.kwarg(c, 'args')
    # Popen(<argv>): every definition of the argument vector reaching the call is
    # format_args(sockets_fds=<self._get_sockets_fds()>), through whatever locals
    from sa.dataflow import reaching_defs
    rds = reaching_defs(ctx, sp)
    alts = rds.expand(n, a0) if a0 is not None else []
    run.check('R3', bool(alts) and all(isinstance(a.expr, ast.Call) for a in alts),
              'Popen runs a computed argument vector', sp, n.ast)
    ok = bool(alts)
    for a in alts:
        e = a.expr
        if not (isinstance(e, ast.Call) and norm_text(e.func) == 'self.format_args'):
            ok = False
            continue
        v = astq.kwarg(e, 'sockets_fds', 0)
        ok = ok and isinstance(v, ast.Call) and norm_text(v.func) == 'self._get_sockets_fds'
    run.check('R3', ok, 'argv = format_args(sockets_fds=self._get_sockets_fds())', sp, n.ast,
              'the argument vector is not built from the socket descriptor table')
    g = ctx.fn(P + '_get_sockets_fds')
    ok = bool(ctx.nodes_calling(g, [W + '_get_sockets_fds']))
    rets = [x for x in ctx.live_nodes(g) if x.kind == 'stmt' and isinstance(x.ast, ast.Return)]
    ok2 = all(isinstance(x.ast.value, ast.Name) and x.ast.value.id == 'sockets_fds' for x in rets)
    run.check('R3', ok and ok2, "the worker's table comes from Watcher._get_sockets_fds", g, g.node)
    # ... for every worker of a watcher that has a socket table: the placeholder can sit in
    # cmd, in args, in any letter case, or arrive through an environment expansion, so nothing
    # but "there is a watcher with sockets" may decide whether the table is fetched
    cg = ctx.cfg(g)

    def has_sockets(e):
        if isinstance(e, ast.Compare) and len(e.ops) == 1 and \
                isinstance(e.ops[0], (ast.Is, ast.IsNot, ast.Eq, ast.NotEq)):
            for p_, q_ in ((e.left, e.comparators[0]), (e.comparators[0], e.left)):
                if isinstance(q_, ast.Constant) and q_.value is None and \
                        (norm_text(p_).endswith('watcher') or norm_text(p_).endswith('.sockets')):
                    return isinstance(e.ops[0], (ast.IsNot, ast.NotEq))
        if isinstance(e, ast.Attribute) and e.attr in ('use_fds', 'use_sockets'):
            return True       # the property is about use_sockets watchers
        return None
    from sa.idioms import reach_under
    fetch = ctx.nodes_calling(g, [W + '_get_sockets_fds'])
    r_ = reach_under(cg, cg.entry, has_sockets, avoid=fetch, labels_excluded=('exc', 'raise', 'reraise'))
    run.check('R3', bool(fetch) and cg.exit.id not in r_,
              'every worker of a watcher with a socket table gets the descriptor table', g, g.node,
              'Process._get_sockets_fds can return without fetching the descriptor table although '
              'the watcher has sockets (a test on something else decides): $(circus.sockets.NAME) '
              'in args, in another letter case or behind an environment expansion is then left '
              'unsubstituted and the worker never learns its descriptor',
              construct='descriptor table fetched conditionally')
    h = ctx.fn(W + '_get_sockets_fds')
    txt = norm_text(h.node)
    run.check('R3', 'sock.fileno()' in txt and 'self.sockets.items()' in txt,
              'the table maps each socket name to fileno() of the live socket object', h, h.node,
              'the descriptor table is not the fileno() of the managed sockets')
    fmt = ctx.fn(P + 'format_args')
    okk = any(n_.kind == 'stmt' and isinstance(n_.ast, ast.Assign) and
              isinstance(n_.ast.targets[0], ast.Subscript) and
              astq.const_value(n_.ast.targets[0].slice) == 'sockets' and
              isinstance(n_.ast.value, ast.Name) and n_.ast.value.id == 'sockets_fds'
              for n_ in ctx.live_nodes(fmt))
    run.check('R3', okk, "format_kwargs['sockets'] is the descriptor table "
              "($(circus.sockets.NAME) resolves through it)", fmt, fmt.node)
    # Watcher.sockets written only in initialize (and None in __init__)
    writers = []
    wcls = ctx.p.cls('circus.watcher:Watcher')
    for m in wcls.methods.values():
        for n_ in ctx.live_nodes(m):
            if n_.kind == 'stmt':
                for t in astq.attr_targets(n_.ast):
                    if isinstance(t, ast.Attribute) and t.attr == 'sockets' and \
                            dotted(t.value) == 'self':
                        writers.append((m, n_))
    for m, n_ in writers:
        run.check('R3', m.name in ('initialize', '__init__'), 'Watcher.sockets is assigned only '
                  'at initialisation', m, n_.ast)
    run.count('R3', len(writers), 1, 'writers of Watcher.sockets')
    n_init = 0
    for caller, s in ctx.callers_of([W + 'initialize'], kinds=('call',)):
        if not caller.key.startswith('circus.arbiter:Arbiter.'):
            continue
        n_init += 1
        a = s.call.args[1] if len(s.call.args) > 1 else astq.kwarg(s.call, 'sockets')
        run.check('R3', a is not None and norm_text(a) == 'self.sockets',
                  "every watcher receives the arbiter's one socket table", caller, s.node.ast,
                  'a watcher is initialised with a socket table other than the arbiter\'s')
    run.count('R3', n_init, 2, 'Watcher.initialize call sites in the arbiter')


def r4(run, ctx):
    run.rule('R4', 'inheritance switch: close_fds == not use_fds')
    sp = ctx.fn(P + 'spawn')
    for n in ctx.live_nodes(sp):
        for c in n.calls():
            if astq.call_last(c) != 'Popen':
                continue
            cf = astq.kwarg(c, 'close_fds')
            ok = False
            if cf is not None:
                bf = BoolFn(cf)
                if bf.atoms == ['self.use_fds']:
                    tb = bf.table()
                    ok = tb[(False,)] is True and tb[(True,)] is False
            run.check('R4', ok, 'close_fds is exactly `not self.use_fds`', sp, n.ast,
                      'descriptor inheritance is not tied to use_fds: %s' % (
                          norm_text(cf) if cf is not None else 'close_fds not given'))
            run.check('R4', astq.kwarg(c, 'pass_fds') is None, 'no pass_fds', sp, n.ast)
    f = ctx.fn(W + 'spawn_process')
    for s in ctx.sites_calling(f, [P + '__init__']):
        v = astq.kwarg(s.call, 'use_fds')
        run.check('R4', v is not None and norm_text(v) == 'self.use_sockets',
                  "use_fds is the watcher's use_sockets", f, s.node.ast,
                  'workers of a watcher without use_sockets would inherit daemon descriptors '
                  '(or use_sockets workers would not)')
    init = ctx.fn(P + '__init__')
    run.check('R4', any(norm_text(n.ast) == 'self.use_fds = use_fds' for n in ctx.live_nodes(init)
                        if n.ast is not None), 'Process stores use_fds unchanged', init, init.node)


def r7(run, ctx):
    run.rule('R7', 'reloadconfig closes no socket that was created through the API')
    from rules.common import reload_spares_ignored
    reload_spares_ignored(run, ctx, 'R7', 'sockets')
