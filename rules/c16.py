"""C16 - configuration files mean what the documentation says."""
import ast
import os
import re

from sa import astq
from sa.astq import norm_text
from sa.idioms import guarded, nodes_within
from sa.project import dotted, walk_local, AnalysisError

EXPLANATION = (    "Table agreement and dataflow shape decided on the source and the "
    "documentation: R1 every default documented in configuration.rst (watcher "
    "section) equals the parser default (config.watcher_defaults / the dget "
    "default of its branch) and the Watcher.__init__ default; R2 the typing "
    "loop of get_config gives each documented option its documented type "
    "(booleans through dget(..., bool) with the documented default, "
    "numprocesses/max_retry/priority int, graceful_timeout float, stop_signal "
    "through to_signum, hooks.* = [callable, to_bool(flag) | False], rlimit_* "
    "through rlimit_value, stream options nested) and reads the option of its "
    "own branch; R3 environment precedence by abstract interpretation of the "
    "dict operations (layer lists): [env] over os.environ for expansion, watcher "
    "env = os.environ+[env] with copy_env else [env] alone, env:PATTERN sections "
    "applied over it in file order with comma lists, strip and fnmatch, and the "
    "expansion environment of a watcher = global env then its own env; R4 every "
    "value read through the parser is expanded with replace_gnu_args, "
    "_expand_section visits every option but name/env and recurses into dicts, "
    "the strict parser keeps the first definition of a key and keys are case-"
    "sensitive; R5 no source of nondeterminism in get_config's call closure and "
    "the three result lists are sorted by name."
    "R3 also requires each watcher's env to be a fresh dict (never an alias of a shared one). "
    "Decides these necessary "
    "conditions, not the meaning of every generated ini file.")
ASSUMPTIONS = ["documentation phrases recognised: '(default: X)', 'Defaults to X', 'Default: X'"]

G = 'circus.config:get_config'


def check(run, ctx):
    run.each(ctx, [r1, r2, r3, r4, r5, r6, r7])


# -- documentation ---------------------------------------------------------------
def doc_defaults(ctx):
    path = os.path.join(ctx.p.root, 'docs', 'source', 'for-ops', 'configuration.rst')
    if not os.path.exists(path):
        raise AnalysisError('C16: %s missing' % path)
    txt = open(path, encoding='utf8').read()
    m = re.search(r'^watcher:NAME.*?\n=+\n(.*?)^socket:NAME', txt, re.S | re.M)
    if not m:
        raise AnalysisError('C16: watcher:NAME section not found in configuration.rst')
    sec = m.group(1)
    entries = re.split(r'^\s{4}\*\*([\w\.\*]+)\*\*\s*$', sec, flags=re.M)
    out = {}
    for i in range(1, len(entries) - 1, 2):
        name, body = entries[i], ' '.join(entries[i + 1].split())
        d = None
        for pat in (r'\(default:\s*([^)]+)\)', r'\(Default:\s*([^)]+)\)',
                    r'Defaults to ([\w\.]+)', r'\(The current \w+ is the default\)'):
            mm = re.search(pat, body)
            if mm and mm.groups():
                d = mm.group(1).strip().rstrip('.')
                break
        out[name] = d
    return out


def norm_default(v):
    """normalise a documented / code default to a comparable python value"""
    if v is None:
        return 'None'
    if isinstance(v, str):
        s = v.strip().rstrip('.')
        low = s.lower()
        if low in ('true', 'false'):
            return low == 'true'
        if low == 'none':
            return 'None'
        m = re.match(r'^(-?\d+(?:\.\d+)?)\s*(s|seconds)?$', low)
        if m:
            return float(m.group(1))
        if low in ('sigterm', 'signal.sigterm'):
            return 'SIGTERM'
        if low == 'being':      # "Defaults to being disabled"
            return 0.0
        return s
    if isinstance(v, bool):
        return v
    if isinstance(v, (int, float)):
        return float(v)
    return v


def code_value(node):
    if node is None:
        return '<absent>'
    if isinstance(node, ast.Constant):
        return norm_default(node.value if node.value is not None else None)
    d = dotted(node)
    if d and d.endswith('SIGTERM'):
        return 'SIGTERM'
    if isinstance(node, ast.Call) and dotted(node.func) == 'dict' and not node.args:
        return '{}'
    if isinstance(node, ast.UnaryOp):
        v = astq.const_value(node, None)
        return norm_default(v)
    return norm_text(node)


def _defaults_dict(ctx):
    """(Dict node, how it is handed out) for watcher_defaults(): 'fresh' when the dict is
    built anew by each call, 'shallow' / 'alias' / 'deep' when it is a module-level table
    returned through dict()/.copy(), as is, or through copy.deepcopy()."""
    f = ctx.fn('circus.config:watcher_defaults')
    mod = ctx.p.mod('circus.config')
    for n in ast.walk(f.node):
        if isinstance(n, ast.Return) and n.value is not None:
            v = n.value
            if isinstance(v, ast.Dict):
                return v, 'fresh', f
            how, src = None, None
            if isinstance(v, ast.Name):
                how, src = 'alias', v
            elif isinstance(v, ast.Call) and dotted(v.func) == 'dict' and len(v.args) == 1:
                how, src = 'shallow', v.args[0]
            elif isinstance(v, ast.Call) and isinstance(v.func, ast.Attribute) and \
                    v.func.attr == 'copy' and not v.args:
                how, src = 'shallow', v.func.value
            elif isinstance(v, ast.Call) and dotted(v.func) in ('copy.copy', 'copy') and v.args:
                how, src = 'shallow', v.args[0]
            elif isinstance(v, ast.Call) and dotted(v.func) in ('copy.deepcopy', 'deepcopy') \
                    and v.args:
                how, src = 'deep', v.args[0]
            if isinstance(src, ast.Name) and isinstance(mod.assigns.get(src.id), ast.Dict):
                return mod.assigns[src.id], how, f
    raise AnalysisError('C16: watcher_defaults() does not return a dict display')


def parser_defaults(ctx):
    d, how, f = _defaults_dict(ctx)
    return {astq.const_value(k): v for k, v in zip(d.keys, d.values)}, f


def ctor_defaults(ctx):
    f = ctx.fn('circus.watcher:Watcher.__init__')
    a = f.node.args
    names = [x.arg for x in a.args]
    defs = [None] * (len(names) - len(a.defaults)) + list(a.defaults)
    return {n: d for n, d in zip(names, defs) if d is not None}, f


def _opt_chain(ctx):
    """if/elif chain over `opt` in get_config's watcher loop ->
    [(keys, prefixes, body, test)]"""
    f = ctx.fn(G)
    best = []
    for st in ast.walk(f.node):
        if isinstance(st, ast.If):
            out = []
            cur = st
            while isinstance(cur, ast.If):
                keys, pre = [], []
                for e in ast.walk(cur.test):
                    if isinstance(e, ast.Compare) and isinstance(e.left, ast.Name) and \
                            e.left.id == 'opt':
                        if isinstance(e.ops[0], ast.Eq):
                            keys.append(astq.const_value(e.comparators[0]))
                        elif isinstance(e.ops[0], ast.In) and \
                                isinstance(e.comparators[0], (ast.Tuple, ast.List)):
                            keys += [astq.const_value(x) for x in e.comparators[0].elts]
                    if isinstance(e, ast.Call) and isinstance(e.func, ast.Attribute) and \
                            e.func.attr == 'startswith' and dotted(e.func.value) == 'opt':
                        pre.append(astq.const_value(e.args[0]))
                if keys or pre:
                    out.append((keys, pre, cur.body, cur.test))
                nxt = cur.orelse
                cur = nxt[0] if len(nxt) == 1 and isinstance(nxt[0], ast.If) else None
            if len(out) > len(best):
                best = out
    if len(best) < 10:
        raise AnalysisError('C16: cannot read the option typing chain of get_config')
    return best, f


def _dget_names(fnode):
    """names that stand for cfg.dget in the function"""
    out = {'dget', 'cfg.dget'}
    for a in ast.walk(fnode):
        if isinstance(a, ast.Assign) and dotted(a.value) == 'cfg.dget':
            for t in a.targets:
                if isinstance(t, ast.Name):
                    out.add(t.id)
    return out


def _dget_of(body, names=('dget', 'cfg.dget')):
    """the dget call of a branch, its Name arguments resolved through plain assignments
    made earlier in the same branch (default = 1; dget(section, opt, default, int))"""
    local = {}
    for st in body:
        if isinstance(st, ast.Assign) and len(st.targets) == 1 and \
                isinstance(st.targets[0], ast.Name):
            local[st.targets[0].id] = st.value
        for c in ast.walk(st):
            if isinstance(c, ast.Call) and dotted(c.func) in names and len(c.args) >= 2:
                import copy
                c2 = copy.copy(c)
                c2.args = [local.get(a.id, a) if isinstance(a, ast.Name) and a.id != 'opt' else a
                           for a in c.args]
                return c2
    return None


def option_types(ctx):
    chain, f = _opt_chain(ctx)
    types = {}
    dnames = _dget_names(f.node)
    for keys, pre, body, test in chain:
        c = _dget_of(body, dnames)
        info = {'reader': None, 'type': 'str', 'default': None, 'dget_key': None, 'body': body,
                'test': test}
        txt = ' '.join(norm_text(s) for s in body)
        if c is not None:
            info['reader'] = 'dget'
            info['dget_key'] = norm_text(c.args[1])
            info['default'] = c.args[2] if len(c.args) > 2 else None
            info['type'] = norm_text(c.args[3]) if len(c.args) > 3 else 'str'
        elif 'to_signum' in txt:
            info['reader'], info['type'] = 'to_signum', 'signal'
        elif 'rlimit_value' in txt:
            info['reader'], info['type'] = 'rlimit_value', 'rlimit'
        elif 'to_bool' in txt:
            info['reader'], info['type'] = 'hook', 'hook'
        elif 'split' in txt and 'stream' in txt:
            info['reader'], info['type'] = 'nested', 'stream'
        else:
            info['reader'], info['type'] = 'raw', 'str'
        for k in keys:
            types[k] = info
        for p in pre:
            types[p + '*'] = info
    return types, f


DOC_EXCEPTIONS = {
    'warmup_delay': None, 'numprocesses': None,   # no default documented
}


def _shared_source(ctx, mod, e):
    """`e` hands out a module-level table as is or through a one-level copy:
    returns the name of the table."""
    src = None
    if isinstance(e, ast.Name):
        src = e
    elif isinstance(e, ast.Call):
        d = dotted(e.func) or ''
        if d in ('dict', 'copy.copy', 'copy') and len(e.args) == 1 and not e.keywords:
            src = e.args[0]
        elif isinstance(e.func, ast.Attribute) and e.func.attr == 'copy' and not e.args:
            src = e.func.value
    if isinstance(src, ast.Name) and src.id in mod.assigns:
        return src.id
    return None


def _nested_fill_sites(run, ctx, has_nested):
    """get_config fills the nested containers of a section's dict in place
    (d[k1][k2] = v): the dict so filled must not be a module-level table or a one-level
    copy of one - whatever watcher_defaults() itself does."""
    from sa.dataflow import reaching_defs
    f = ctx.fn('circus.config:get_config')
    mod = ctx.p.mod('circus.config')
    rd = reaching_defs(ctx, f)
    cfg = ctx.cfg(f)
    n = 0
    seen = set()
    for node in ctx.live_nodes(f):
        if node.kind != 'stmt' or not isinstance(node.ast, (ast.Assign, ast.AugAssign)):
            continue
        tgts = node.ast.targets if isinstance(node.ast, ast.Assign) else [node.ast.target]
        for t in tgts:
            if not (isinstance(t, ast.Subscript) and isinstance(t.value, ast.Subscript) and
                    isinstance(t.value.value, ast.Name)):
                continue
            base = t.value.value
            n += 1
            for alt in rd.expand(node, base):
                shared = _shared_source(ctx, mod, alt.expr)
                key = (base.id, shared)
                if key in seen:
                    continue
                seen.add(key)
                run.check('R1', not (shared and has_nested),
                          'the dict whose nested containers get_config fills in place is '
                          'built for that section alone', f, node.ast,
                          'get_config fills %s in place, and %s comes from the module-level '
                          'table %s (as is or through a one-level copy): its nested dicts are '
                          'one object shared by every watcher section and by every later '
                          'parse, so rlimit_*/hooks.*/stream options of one watcher show up '
                          'in all others, and a reload compares the new configuration with '
                          'itself' % (norm_text(t.value), base.id, shared),
                          construct='watcher defaults share nested containers')
    run.count('R1', n, 3, 'in-place fills of nested option containers in get_config')


def r1(run, ctx):
    run.rule('R1', 'documented defaults = parser defaults = constructor defaults')
    # every watcher section starts from its OWN defaults: the nested containers
    # (rlimits, hooks, stream options) are filled in place by the typing loop
    d_, how_, f_ = _defaults_dict(ctx)
    from rules.common import is_fresh_container
    nested = [astq.const_value(k) for k, v in zip(d_.keys, d_.values) if is_fresh_container(v)]
    run.check('R1', how_ in ('fresh', 'deep') or not nested,
              'each call of watcher_defaults() builds new nested containers', f_, f_.node,
              'watcher_defaults() hands out a %s of a module-level table: the nested dicts %s '
              'are one object shared by every watcher section and by every later parse, so '
              'rlimit_*/hooks.*/stream options of one watcher show up in all others and survive '
              'a reload' % ({'shallow': 'shallow copy', 'alias': 'reference'}.get(how_, how_),
                            nested), construct='watcher defaults share nested containers')
    _nested_fill_sites(run, ctx, bool(nested))
    doc = doc_defaults(ctx)
    pd, pf = parser_defaults(ctx)
    cd, cf = ctor_defaults(ctx)
    types, gf = option_types(ctx)
    run.extra['documented_defaults'] = {k: v for k, v in doc.items() if v is not None}
    n = 0
    for opt, dv in sorted(doc.items()):
        if dv is None or '*' in opt or opt == 'NAME':
            continue
        n += 1
        want = norm_default(dv)
        if opt in pd:
            got = code_value(pd[opt])
            ok = got == want
            run.check('R1', ok, "watcher_defaults()['%s'] == documented %r" % (opt, dv), pf,
                      pd[opt], "the parser default of %s is %s, the documentation says %s"
                      % (opt, norm_text(pd[opt]), dv), construct='parser default %s' % opt)
        if opt in cd:
            got = code_value(cd[opt])
            run.check('R1', got == want, "Watcher.__init__(%s=...) default == documented %r"
                      % (opt, dv), cf, cd[opt], "the constructor default of %s is %s, the "
                      "documentation says %s" % (opt, norm_text(cd[opt]), dv),
                      construct='ctor default %s' % opt)
        info = types.get(opt)
        if info is not None and info['reader'] == 'dget' and info['default'] is not None:
            got = code_value(info['default'])
            run.check('R1', got == want, "dget default of %s == documented %r" % (opt, dv), gf,
                      info['default'], "an explicitly empty/absent %s reads as %s, the "
                      "documentation says %s" % (opt, norm_text(info['default']), dv),
                      construct='dget default %s' % opt)
        if opt not in pd and opt not in cd:
            run.fail('R1', pf, pf.node, 'documented option %s has neither a parser nor a '
                     'constructor default' % opt, construct='no default for %s' % opt)
    run.count('R1', n, 12, 'options with a documented default')
    # parser defaults vs constructor defaults for every shared key
    for k in sorted(set(pd) & set(cd)):
        a, b = code_value(pd[k]), code_value(cd[k])
        if a in ('{}', '') or b in ('{}', ''):
            continue
        run.check('R1', a == b or (a == 'None' and b == 'None'), 'parser and constructor agree on '
                  'the default of %s' % k, pf, pd[k], 'a watcher defined in a file gets %s=%s, '
                  'one created through the API %s' % (k, norm_text(pd[k]), norm_text(cd[k])),
                  construct='parser vs ctor %s' % k)


DOC_BOOLS = ['shell', 'copy_env', 'copy_path', 'autostart', 'close_child_stdin',
             'close_child_stdout', 'close_child_stderr', 'send_hup', 'stop_children',
             'singleton', 'use_sockets', 'on_demand', 'respawn']
DOC_TYPES = {'numprocesses': 'int', 'max_retry': 'int', 'priority': 'int',
             'graceful_timeout': 'float'}


def r2(run, ctx):
    run.rule('R2', 'typing loop of get_config')
    doc = doc_defaults(ctx)
    types, f = option_types(ctx)
    run.count('R2', len(types), 15, 'typed option keys')
    for b in DOC_BOOLS:
        info = types.get(b)
        if info is None:
            run.fail('R2', f, f.node, "boolean option %s is not typed by the parser: 'false' in a "
                     "file is the non-empty string 'false', i.e. true" % b,
                     construct='untyped bool %s' % b)
            continue
        run.check('R2', info['reader'] == 'dget' and info['type'] == 'bool',
                  '%s is read as a boolean' % b, f, info['test'],
                  '%s is read as %s' % (b, info['type']), construct='type of %s' % b)
        if doc.get(b) is not None and info['default'] is not None:
            run.check('R2', code_value(info['default']) == norm_default(doc[b]),
                      '%s sits in the bool group with its documented default' % b, f,
                      info['default'], '%s is in the bool group defaulting to %s but documented '
                      'as %s' % (b, norm_text(info['default']), doc[b]),
                      construct='bool group of %s' % b)
    for k, t in DOC_TYPES.items():
        info = types.get(k)
        run.check('R2', info is not None and info['reader'] == 'dget' and info['type'] == t,
                  '%s is read as %s' % (k, t), f, info['test'] if info else f.node,
                  '%s is read as %s' % (k, info['type'] if info else 'a raw string'),
                  construct='type of %s' % k)
    run.check('R2', types.get('stop_signal', {}).get('reader') == 'to_signum',
              'stop_signal goes through to_signum', f, f.node)
    run.check('R2', types.get('rlimit_*', {}).get('reader') == 'rlimit_value',
              'rlimit_* go through rlimit_value', f, f.node)
    run.check('R2', types.get('hooks.*', {}).get('reader') == 'hook',
              'hooks.* are parsed as [callable, flag]', f, f.node)
    # the key handed to dget is the option of the branch
    seen = set()
    for k, info in types.items():
        if info['reader'] != 'dget' or id(info) in seen:
            continue
        seen.add(id(info))
        keys = [kk for kk, ii in types.items() if ii is info]
        dk = info['dget_key']
        ok = dk == 'opt' or (len(keys) == 1 and dk in ("'%s'" % keys[0], '"%s"' % keys[0]))
        run.check('R2', ok, 'branch %s reads its own option' % '/'.join(keys), f, info['test'],
                  'the branch for %s reads option %s' % ('/'.join(keys), dk),
                  construct='dget key of %s' % '/'.join(keys))
    # every branch stores under its own key
    chain, _ = _opt_chain(ctx)
    for keys, pre, body, test in chain:
        for st in body:
            if isinstance(st, ast.Assign) and isinstance(st.targets[0], ast.Subscript) and \
                    norm_text(st.targets[0].value) == 'watcher':
                sk = st.targets[0].slice
                ok = norm_text(sk) == 'opt' or astq.const_value(sk) in keys or \
                    isinstance(sk, ast.Name)
                run.check('R2', ok, 'branch %s stores under its own key' % '/'.join(
                    [str(k) for k in keys] + [p + '*' for p in pre]), f, st,
                    "the value of %s is stored as watcher[%s]" % (keys, norm_text(sk)))
    # hooks parsing detail
    from rules.common import stores_hook_entry
    h = types.get('hooks.*')
    if h:
        txt = ' '.join(norm_text(s) for s in h['body'])
        run.check('R2', astq.has_pattern(txt, "$v = [$e.strip() for $e in val.split(',', 1)]") and
                  astq.has_pattern(txt, '$v.append(False)') and
                  (astq.has_pattern(txt, '$v[1] = to_bool($v[1])') or
                   astq.has_pattern(txt, '$v = [$v[0], to_bool($v[1])]')) and
                  stores_hook_entry(list(h['body'])),
                  'hook flag: optional, to_bool, default False', f, h['test'])
    # DefaultConfigParser.dget conversions: every value that can be returned, with the
    # condition under which it is
    from sa.dataflow import reaching_defs
    from sa.idioms import eq_test
    dg = ctx.fn('circus.config:DefaultConfigParser.dget')
    cfg = ctx.cfg(dg)
    rd = reaching_defs(ctx, dg)
    rets = [n for n in ctx.live_nodes(dg) if n.kind == 'stmt' and isinstance(n.ast, ast.Return)
            and n.ast.value is not None]
    CONV = {'int': 'int', 'to_bool': 'bool', 'float': 'float'}

    def has_opt(v):
        return lambda e: (v if isinstance(e, ast.Call) and astq.call_last(e) == 'has_option'
                          else None)

    def type_is(t, v):
        def a(e):
            r = eq_test(e, 'type', t)
            return None if r is None else (r == v)
        return a
    seen = set()
    for ret in rets:
        for alt in rd.expand(ret, ret.ast.value):
            e = alt.expr
            site = alt.used[0].ast if alt.used else ret.ast
            if norm_text(e) == 'default':
                seen.add('default')
                run.check('R2', not rd.feasible(alt, has_opt(True)),
                          'dget returns the default only when the option is absent', dg, site)
                continue
            conv = None
            inner = e
            if isinstance(e, ast.Call) and astq.call_last(e) in CONV and len(e.args) == 1:
                conv, inner = CONV[astq.call_last(e)], e.args[0]
            raw = isinstance(inner, ast.Call) and norm_text(inner.func) == 'self.get' and \
                [norm_text(a) for a in inner.args[:2]] == ['section', 'option']
            if not raw:
                run.fail('R2', dg, site, 'dget can return %s' % alt.text()[:120],
                         construct='dget value shape')
                continue
            seen.add(conv or 'str')
            run.check('R2', not rd.feasible(alt, has_opt(False)),
                      'a stored value is returned only when the option is present', dg, site)
            if conv:
                run.check('R2', not rd.feasible(alt, type_is(conv, False)),
                          'dget converts with %s exactly for type=%s' % (conv, conv), dg, site,
                          'the %s conversion is applied for another requested type' % conv,
                          construct='dget conversion %s' % conv)
            else:
                for t in ('int', 'bool', 'float'):
                    run.check('R2', not rd.feasible(alt, type_is(t, True)),
                              'type=%s never gets the raw string' % t, dg, site,
                              'dget returns the unconverted string for type=%s' % t,
                              construct='dget raw for %s' % t)
    for want in ('default', 'int', 'bool', 'float', 'str'):
        run.need('R2', [1] if want in seen else [], 'dget outcome %s' % want, dg)


# -- R3 layer-list interpretation -----------------------------------------------------
def _layers(stmts, env, assume_env_section=True):
    """Tiny abstract interpreter of dict construction over ordered layer lists.
    env: name -> list of layer labels."""
    for st in stmts:
        if isinstance(st, ast.Assign) and len(st.targets) == 1:
            t, v = st.targets[0], st.value
            key = norm_text(t)
            lay = _expr_layers(v, env)
            if lay is not None:
                env[key] = lay
        elif isinstance(st, ast.Expr) and isinstance(st.value, ast.Call) and \
                isinstance(st.value.func, ast.Attribute) and st.value.func.attr == 'update':
            tgt = norm_text(st.value.func.value)
            src = _expr_layers(st.value.args[0], env) if st.value.args else None
            if tgt in env and src is not None:
                env[tgt] = env[tgt] + src
        elif isinstance(st, ast.If):
            t = norm_text(st.test)
            if t == "'env' in cfg.sections()" and assume_env_section:
                _layers(st.body, env)
        elif isinstance(st, ast.Try):
            _layers(st.body, env)
            _layers(st.finalbody, env)
    return env


def _expr_layers(v, env):
    if isinstance(v, ast.Call) and dotted(v.func) == 'dict':
        if not v.args:
            return []
        return _expr_layers(v.args[0], env)
    if isinstance(v, ast.Call) and norm_text(v.func) == 'cfg.items' and v.args:
        return ['[%s]' % astq.const_value(v.args[0])]
    if isinstance(v, ast.Call) and isinstance(v.func, ast.Attribute) and \
            v.func.attr in ('items', 'copy'):
        inner = v.func.value
        if norm_text(inner) == 'os.environ':
            return ['os.environ']
        return _expr_layers(inner, env)
    if isinstance(v, ast.Call) and norm_text(v.func) == 'cfg.items' and v.args:
        return ['[%s]' % astq.const_value(v.args[0])]
    if isinstance(v, ast.Name) and v.id in env:
        return list(env[v.id])
    if isinstance(v, ast.Attribute) and norm_text(v) == 'os.environ':
        return ['os.environ']
    if isinstance(v, ast.Subscript) and norm_text(v) in env:
        return list(env[norm_text(v)])
    return None


def _env_source(e):
    if norm_text(e) == 'os.environ':
        return 'os.environ'
    if isinstance(e, ast.Call) and norm_text(e.func) == 'cfg.items' and e.args and \
            isinstance(e.args[0], ast.Constant) and \
            all(k.arg == 'noreplace' and astq.const_value(k.value, None) is False
                for k in e.keywords):
        return '[%s]' % e.args[0].value
    return None


def _env_section_present(e):
    from sa.idioms import member_test
    return member_test(e, "'env'", 'cfg.sections()')


def r3(run, ctx):
    run.rule('R3', 'environment precedence by abstract interpretation of dict operations')
    from sa.layers import LayerAnalysis
    f = ctx.fn(G)
    cfg = ctx.cfg(f)
    la = LayerAnalysis(cfg, _env_source, assume=_env_section_present)
    BOTH, ENV = {('os.environ', '[env]')}, {('[env]',)}
    se = [(n, c) for n in ctx.live_nodes(f) for c in n.calls()
          if astq.call_last(c) == 'set_env' and c.args]
    if run.need('R3', se, 'cfg.set_env(<expansion environment>)', f,
                'the parser is not given the expansion environment'):
        for n, c in se:
            got = la.at(n, c.args[0])
            run.extra.setdefault('env_layers', {})['set_env'] = sorted(map(list, got or []))
            run.check('R3', got == BOTH, 'expansion environment = os.environ overlaid by the '
                      '[env] section', f, n.ast, 'global environment layers are %s (later wins)'
                      % sorted(got or []), construct='global_env layers')
    # watcher['env'] by copy_env
    wenv = [n for n in ctx.live_nodes(f) if n.kind == 'stmt' and isinstance(n.ast, ast.Assign) and
            norm_text(n.ast.targets[0]) == "watcher['env']"]
    if not run.need('R3', wenv, "assignment of watcher['env']", f):
        return

    def copy_env(e):
        if norm_text(e) == "watcher['copy_env']":
            return True
        return None
    # one analysis per value of copy_env: what the watcher's env starts from
    from sa.idioms import combine
    got = {}
    for flag in (True, False):
        laf = LayerAnalysis(cfg, _env_source, assume=combine(
            _env_section_present, lambda e, flag=flag: (None if copy_env(e) is None else flag)))
        for n in wenv:
            lay = laf.at(n, n.ast.value)
            if laf.IN.get(n.id) is not None:
                got.setdefault(flag, set()).update(lay or {('?',)})
    from rules.common import is_fresh_container
    for n in wenv:
        a = n.ast
        run.check('R3', is_fresh_container(a.value), "each watcher gets its own env object (the "
                  "env:PATTERN sections update it in place)", f, a,
                  "watcher['env'] aliases the shared dict %s: an env:PATTERN section applied to "
                  "one watcher leaks into every watcher sharing it" % norm_text(a.value),
                  construct="watcher env aliases %s" % norm_text(a.value))
    run.check('R3', got.get(True) == BOTH, 'with copy_env a watcher starts from '
              "the daemon's environment overlaid by [env]", f, wenv[0].ast,
              'with copy_env the base environment is %s' % sorted(got.get(True) or []),
              construct='env copy_env')
    run.check('R3', got.get(False) == ENV, 'without copy_env a watcher starts from [env] '
              'alone', f, wenv[-1].ast, 'without copy_env the base environment is %s'
              % sorted(got.get(False) or []), construct='env no copy_env')
    # env:PATTERN loop
    loops = [n for n in ast.walk(f.node) if isinstance(n, ast.For) and
             norm_text(n.iter) == 'cfg.sections()' and "startswith('env:')" in norm_text(n)]
    if run.need('R3', loops, 'env:PATTERN application loop over cfg.sections()', f,
                'env:NAME sections are not applied (or not in file order)'):
        lt = norm_text(loops[0])
        run.check('R3', ("section.split('env:', 1)[1]" in lt or "section[4:]" in lt or
                         "section.partition('env:')[2]" in lt) and ".split(',')" in lt and
                  's.strip()' in lt, 'the pattern list is split on commas and stripped', f, loops[0],
                  'comma-separated watcher lists in env: sections are not honoured')
        run.check('R3', astq.has_pattern(lt, "fnmatch($w['name'], pattern)"), 'patterns are matched with fnmatch '
                  'against the watcher name', f, loops[0], 'wildcards in env: sections are not '
                  'honoured')
        run.check('R3', astq.has_pattern(lt, "$w['env'].update(env_items)"), 'a matching section overrides '
                  'what is already there (later sections win)', f, loops[0],
                  'env: sections do not override earlier values')
        run.check('R3', 'cfg.items(section, noreplace=True)' in lt, 'section values are taken raw '
                  '(expanded later with the full environment)', f, loops[0])
        # the loop runs after all watchers were collected
        wl = [n for n in ast.walk(f.node) if isinstance(n, ast.For) and
              norm_text(n.iter) == 'cfg.sections()' and "startswith('watcher:')" in norm_text(n)]
        def strictly_before(a, b):
            """loop statement a is completed before loop statement b starts (CFG order)"""
            na = [n for n in cfg.nodes if n.kind == 'iter' and n.ast is a]
            nb = [n for n in cfg.nodes if n.kind == 'iter' and n.ast is b]
            return bool(na) and bool(nb) and cfg.reachable(na[0], nb[0]) and \
                not cfg.reachable(nb[0], na[0])
        run.check('R3', bool(wl) and strictly_before(wl[0], loops[0]), 'env: sections are applied '
                  'after every watcher section was read', f, loops[0])
    # expansion env of a watcher (the per-option loop is _expand_section, inlined by the
    # canonical form)
    exp = [n for n in ast.walk(f.node) if isinstance(n, ast.For) and norm_text(n.iter) == 'watchers'
           and '_expand_vars' in norm_text(n)]
    if run.need('R3', exp, 'per-watcher expansion loop', f):
        hdr = [n for n in cfg.nodes if n.kind == 'iter' and n.ast is exp[0]]
        calls = [(n, c) for n in nodes_within(cfg, exp[0].body) for c in n.calls()
                 if astq.call_last(c) == '_expand_vars' and len(c.args) == 3]
        if run.need('R3', calls if hdr else [], '_expand_vars(watcher, option, env) call', f):
            sub = LayerAnalysis(cfg, lambda e: None, seeds={hdr[0].id: {
                'global_env': frozenset([('G',)]), "watcher['env']": frozenset([('W',)])}})
            for n, c in calls:
                lay = sub.at(n, c.args[2])
                run.check('R3', lay == {('G', 'W')}, "a watcher's options are expanded with the "
                          'global environment overlaid by its own env', f, n.ast,
                          'the expansion environment layers are %s' % sorted(lay or []),
                          construct='expansion env layers')
                run.check('R3', norm_text(c.args[0]) == norm_text(exp[0].target),
                          'every watcher is expanded with that environment', f, n.ast)
        if loops:
            run.check('R3', strictly_before(loops[0], exp[0]), 'expansion happens after the env: '
                      'sections were applied', f, exp[0])


def _is_expansion(e, of=None, env='self._env'):
    """replace_gnu_args(<of>, env=<env>)"""
    if not (isinstance(e, ast.Call) and astq.call_last(e) == 'replace_gnu_args' and e.args):
        return False
    kw = astq.kwarg(e, 'env')
    if kw is None or norm_text(kw) != env:
        return False
    return of is None or of(e.args[0])


def r4(run, ctx):
    run.rule('R4', 'expansion is applied everywhere; first definition wins; keys case-sensitive')
    from sa.dataflow import reaching_defs
    from sa.idioms import member_test
    # DefaultConfigParser.get: whatever is returned is the expansion of the stored value
    f = ctx.fn('circus.config:DefaultConfigParser.get')
    rd = reaching_defs(ctx, f)
    rets = [n for n in ctx.live_nodes(f) if n.kind == 'stmt' and isinstance(n.ast, ast.Return)]

    def parent_get(x):
        return isinstance(x, ast.Call) and astq.call_last(x) == 'get' and \
            norm_text(x.func) in ('StrictConfigParser.get', 'super().get', 'ConfigParser.get',
                                  'super(DefaultConfigParser, self).get')
    alts = [a for r in rets if r.ast.value is not None for a in rd.expand(r, r.ast.value)]
    run.check('R4', bool(alts) and all(_is_expansion(a.expr, parent_get) for a in alts) and
              all(r.ast.value is not None for r in rets),
              '%s expands every value' % f.qualname, f, f.node,
              '%s returns unexpanded values' % f.qualname)
    # DefaultConfigParser.items: unless noreplace, every value of the section is expanded
    f = ctx.fn('circus.config:DefaultConfigParser.items')
    rd = reaching_defs(ctx, f)
    rets = [n for n in ctx.live_nodes(f) if n.kind == 'stmt' and isinstance(n.ast, ast.Return)]
    noreplace = lambda v: (lambda e: v if norm_text(e) == 'noreplace' else None)
    good = bool(rets)
    n_exp = 0
    for r in rets:
        if r.ast.value is None:
            good = False
            continue
        for a in rd.expand(r, r.ast.value):
            if not rd.feasible(a, noreplace(False)):
                continue          # only reachable with noreplace: raw items, as documented
            e = a.expr
            ok = isinstance(e, ast.ListComp) and len(e.generators) == 1 and \
                not e.generators[0].ifs and isinstance(e.elt, ast.Tuple) and \
                len(e.elt.elts) == 2 and isinstance(e.generators[0].target, ast.Tuple) and \
                norm_text(e.elt.elts[0]) == norm_text(e.generators[0].target.elts[0]) and \
                _is_expansion(e.elt.elts[1], lambda x: norm_text(x) == norm_text(
                    e.generators[0].target.elts[1])) and \
                isinstance(e.generators[0].iter, ast.Call) and \
                astq.call_last(e.generators[0].iter) == 'items'
            good = good and ok
            n_exp += 1
    run.check('R4', good and n_exp >= 1, '%s expands every value' % f.qualname, f, f.node,
              '%s returns unexpanded values' % f.qualname)
    # every option of a watcher except name and env is expanded (the loop of the nested
    # helper _expand_section; the canonical form inlines it into get_config)
    es = ctx.fn(G)
    cfg = ctx.cfg(es)
    rd = reaching_defs(ctx, es)
    loops = [n for n in cfg.nodes if n.kind == 'iter' and isinstance(n.ast.target, ast.Name) and
             any(astq.call_last(c) == '_expand_vars' and len(c.args) == 3 and
                 norm_text(c.args[0]) in (norm_text(n.ast.iter), norm_text(n.ast.iter)[:-7]
                                          if norm_text(n.ast.iter).endswith('.keys()') else '')
                 for b in nodes_within(cfg, n.ast.body) for c in b.calls())]
    ok = False
    if loops:
        lv = loops[0].ast.target.id
        subject = norm_text(loops[0].ast.iter)
        if subject.endswith('.keys()'):
            subject = subject[:-7]
        calls = [n for n in nodes_within(cfg, loops[0].ast.body) for c in n.calls()
                 if astq.call_last(c) == '_expand_vars' and
                 [norm_text(a) for a in c.args][:2] == [subject, lv]]
        tests = [t for t in nodes_within(cfg, loops[0].ast.body) if t.kind == 'test']
        excl = None
        for t in tests:
            if isinstance(t.ast, ast.Compare) and norm_text(t.ast.left) == lv and \
                    isinstance(t.ast.ops[0], (ast.In, ast.NotIn)):
                excl = norm_text(t.ast.comparators[0])
        # the only condition on the way to the call is `<option> not in <exclusions>`
        ok = bool(calls) and excl is not None and \
            all(member_test(t.ast, lv, excl) is not None for t in tests) and \
            all(guarded(cfg, c, lambda e: member_test(e, lv, excl), False) for c in calls)
        # ... and the exclusion set is exactly {name, env}
        vals = []
        for t in tests:
            for a in rd.expand(t, t.ast.comparators[0]):
                vals.append(a.expr)
        # `exclude=None` replaced by the default set under `if exclude is None`: the None
        # itself never reaches the membership test
        from sa.idioms import none_test
        if excl is not None and any(none_test(x, excl) is not None for x in ast.walk(es.node)):
            vals = [v for v in vals if not (isinstance(v, ast.Constant) and v.value is None)]
        ok = ok and bool(vals) and all(
            isinstance(v, (ast.Tuple, ast.List, ast.Set)) and
            {astq.const_value(x) for x in v.elts} == {'name', 'env'} for v in vals)
    run.check('R4', ok, 'every watcher option except name and env is expanded', es, es.node)
    # _expand_vars: strings are expanded in place, dict values recursively
    ev = ctx.fn(G + '._expand_vars')
    cfg = ctx.cfg(ev)
    isinst = lambda ty: (lambda e: True if isinstance(e, ast.Call) and dotted(e.func) == 'isinstance'
                         and len(e.args) == 2 and norm_text(e.args[0]) == 'target[key]' and
                         norm_text(e.args[1]) == ty else None)
    stores = [n for n in ctx.live_nodes(ev) if n.kind == 'stmt' and isinstance(n.ast, ast.Assign)
              and norm_text(n.ast.targets[0]) == 'target[key]' and
              _is_expansion(n.ast.value, lambda x: norm_text(x) == 'target[key]', env='env')]
    rec = []
    for h in cfg.nodes:
        if h.kind == 'iter' and norm_text(h.ast.iter) in ('target[key].keys()', 'target[key]',
                                                          'list(target[key].keys())') and \
                isinstance(h.ast.target, ast.Name):
            for n in nodes_within(cfg, h.ast.body):
                for c in n.calls():
                    if astq.call_last(c) == '_expand_vars' and \
                            [norm_text(a) for a in c.args] == ['target[key]', h.ast.target.id, 'env']:
                        rec.append((h, n))
    run.check('R4', bool(stores) and all(guarded(cfg, n, isinst('str'), True) for n in stores) and
              bool(rec) and all(guarded(cfg, h, isinst('dict'), True) and
                                not [t for t in nodes_within(cfg, h.ast.body) if t.kind == 'test']
                                for h, n in rec),
              '_expand_vars expands strings and recurses into dict values', ev, ev.node,
              'nested options (streams, hooks, rlimits) are not expanded')
    # StrictConfigParser._read: a key that is already there is not overwritten
    rdf = ctx.fn('circus.util:StrictConfigParser._read')
    cfg = ctx.cfg(rdf)
    t = norm_text(rdf.node)
    first = [n for n in ctx.live_nodes(rdf) if n.kind == 'stmt' and isinstance(n.ast, ast.Assign)
             and norm_text(n.ast.targets[0]) == 'cursect[optname]']
    run.check('R4', bool(first) and all(
        guarded(cfg, n, lambda e: member_test(e, 'optname', 'cursect'), False) for n in first),
        'the first definition of a key is kept', rdf, first[0].ast if first else rdf.node,
        'a later definition of a key overrides the earlier one')
    run.check('R4', 'self.optionxform = str' in t, 'option names are case-sensitive', rdf, rdf.node)
    run.check('R4', 'cursect[optname].append(value)' in t, 'continuation lines extend the value',
              rdf, rdf.node)
    se = ctx.fn('circus.config:DefaultConfigParser.set_env')
    from rules.common import attr_stores, is_copy_of
    est = attr_stores(se.node, '_env')
    run.check('R4', bool(est) and all(is_copy_of(se.node, v, 'env') for _, v in est),
              'set_env installs the expansion environment', se, se.node)


NONDET = ('random.', 'time.time', 'uuid.', 'os.listdir', 'os.getpid', 'datetime.')


def r5(run, ctx):
    run.rule('R5', 'determinism of get_config')
    f = ctx.fn(G)
    seen = ctx.cg.reachable([f], precise_only=True)
    n = 0
    for key, (g, parent, site) in seen.items():
        if not g.module.name.startswith(('circus.config', 'circus.util')):
            continue
        n += 1
        for node in ctx.live_nodes(g):
            for c in node.calls():
                d = dotted(c.func) or ''
                if d.startswith(NONDET) or d in ('id', 'hash'):
                    run.fail('R5', g, node.ast, 'parsing the same files twice can differ: %s is '
                             'called while building the configuration' % d,
                             path=ctx.cg.chain(seen, key))
            if node.kind == 'iter':
                it = node.ast.iter
                if isinstance(it, ast.Call) and dotted(it.func) == 'set':
                    run.fail('R5', g, node.ast, 'iteration over a set while building the '
                             'configuration (order not deterministic)')
    run.count('R5', n, 3, 'functions in the closure of get_config')
    from sa.dataflow import reaching_defs
    rdf = reaching_defs(ctx, f)

    def by_name(e):
        """key function that selects item['name'] (lambda or operator.itemgetter, both
        canonicalised to a lambda)"""
        return isinstance(e, ast.Lambda) and len(e.args.args) == 1 and \
            isinstance(e.body, ast.Subscript) and isinstance(e.body.value, ast.Name) and \
            e.body.value.id == e.args.args[0].arg and astq.const_value(e.body.slice) == 'name'
    for lst in ('watchers', 'plugins', 'sockets'):
        ok = False
        for node in ctx.live_nodes(f):
            for c in node.calls():
                if isinstance(c.func, ast.Attribute) and c.func.attr == 'sort' and \
                        norm_text(c.func.value) == lst and not c.args:
                    key = astq.kwarg(c, 'key')
                    rev = astq.kwarg(c, 'reverse')
                    if key is not None and rev is None:
                        ok = all(by_name(a.expr) for a in rdf.expand(node, key))
        run.check('R5', ok, 'the %s list is sorted by name' % lst, f, f.node,
                  'the order of %s depends on the file layout' % lst, construct='sort %s' % lst)


def r6(run, ctx):
    from rules import c13
    run.share(ctx, c13.r4, 'R4', 'R6', 'a reference to a defined variable expands to its value, '
              'whatever the value (shared with C13 R4, the substitution function '
              'replace_gnu_args._repl): the lookup is by membership and case-folded - a '
              'truthiness test would leave a variable defined as the empty string unexpanded')


def r7(run, ctx):
    from rules import c13
    run.share(ctx, c13.r1, 'R1', 'R7', "the worker runs with the environment that was built for "
              "it (shared with C13 R1, the arguments of Popen): get_config gives a watcher without "
              "copy_env and without env sections an EMPTY environment - Popen(env={}) - and not "
              "passing it at all makes the worker inherit the daemon's",
              keep=lambda key: 'Popen env' in key)
