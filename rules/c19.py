"""C19 - watchers start in priority order, paced by the warmup delays."""
import ast

from sa import astq
from sa.astq import norm_text, ev_setattr
from sa.idioms import guarded, reach_under, attr_truth
from sa.project import dotted, walk_local, AnalysisError

EXPLANATION = (
    "Ordering and pacing shape decided on the source: R1 iter_watchers sorts the "
    "watcher list by priority, descending by default; the start paths iterate "
    "it with that default, the matcher of start/stop/restart sorts its subset "
    "with the same key and default (sibling agreement), and _stop_watchers asks "
    "for the ascending order explicitly; R2 _start_watchers awaits each "
    "watcher's _start inside the iteration (not collected), then awaits "
    "tornado_sleep(global warmup_delay), both only for autostart watchers; "
    "daemon start and restart reach it; R3 in spawn_processes every iteration "
    "that spawns ends in an awaited tornado_sleep of a delay derived from the "
    "watcher's warmup_delay, only reduced by elapsed time and clamped at 0, and "
    "_start awaits spawn_processes before the watcher becomes active. Decides "
    "these necessary conditions, not the spacing in seconds."
    "R4 the paced start sequences hold the exclusive slot for their whole duration. ")
ASSUMPTIONS = ["arbiter-wide reload pacing (a discarded tornado_sleep in Arbiter.reload) is "
               "outside this property and only noted"]

A = 'circus.arbiter:Arbiter.'
W = 'circus.watcher:Watcher.'


def check(run, ctx):
    run.each(ctx, [r1, r2, r3, r4, r5])


def _sorted_call(fnode):
    for n in ast.walk(fnode):
        if isinstance(n, ast.Return) and isinstance(n.value, ast.Call) and \
                dotted(n.value.func) == 'sorted':
            return n.value
    # L = list(SRC) / SRC[:] / list copy; L.sort(key=.., reverse=..); return L
    # is read as sorted(SRC, key=.., reverse=..)
    body = [x for x in fnode.body if not (isinstance(x, ast.Expr) and
                                          isinstance(x.value, ast.Constant))]
    if len(body) == 3 and isinstance(body[0], ast.Assign) and len(body[0].targets) == 1 and \
            isinstance(body[0].targets[0], ast.Name) and isinstance(body[1], ast.Expr) and \
            isinstance(body[1].value, ast.Call) and isinstance(body[1].value.func, ast.Attribute) \
            and body[1].value.func.attr == 'sort' and \
            norm_text(body[1].value.func.value) == body[0].targets[0].id and \
            isinstance(body[2], ast.Return) and isinstance(body[2].value, ast.Name) and \
            body[2].value.id == body[0].targets[0].id:
        v = body[0].value
        src = None
        if isinstance(v, ast.Call) and dotted(v.func) == 'list' and len(v.args) == 1:
            src = v.args[0]
        elif isinstance(v, ast.Subscript) and isinstance(v.slice, ast.Slice) and \
                v.slice.lower is None and v.slice.upper is None:
            src = v.value
        if src is not None:
            c = ast.Call(func=ast.Name(id='sorted', ctx=ast.Load()), args=[src],
                         keywords=body[1].value.keywords)
            return ast.copy_location(c, body[2])
    return None


def _check_sort(run, ctx, f, what, src_text):
    c = _sorted_call(f.node)
    if c is None:
        raise AnalysisError('C19 R1: %s does not return sorted(...)' % f.qualname)
    key = astq.kwarg(c, 'key')
    ok_key = isinstance(key, ast.Lambda) and isinstance(key.body, ast.Attribute) and \
        key.body.attr == 'priority' and isinstance(key.body.value, ast.Name) and \
        key.body.value.id == key.args.args[0].arg
    if not ok_key and key is not None:
        ok_key = norm_text(key) in ("operator.attrgetter('priority')", "attrgetter('priority')")
    run.check('R1', ok_key, '%s orders by the priority option' % what, f, c,
              '%s orders watchers by %s' % (what, norm_text(key) if key is not None else 'identity'))
    rev = astq.kwarg(c, 'reverse')
    run.check('R1', isinstance(rev, ast.Name) and rev.id == 'reverse', '%s passes its reverse flag '
              'to the sort' % what, f, c)
    a = f.node.args
    names = [x.arg for x in a.args]
    d = dict(zip(names[len(names) - len(a.defaults):], a.defaults))
    run.check('R1', 'reverse' in d and astq.const_value(d['reverse'], None) is True,
              '%s sorts descending by default (highest priority first)' % what, f, f.node,
              '%s defaults to ascending priority: low-priority watchers start first' % what,
              construct='%s reverse default' % what)
    run.check('R1', c.args and norm_text(c.args[0]) == src_text, '%s sorts %s' % (what, src_text),
              f, c)


def r1(run, ctx):
    run.rule('R1', 'ordering source')
    iw = ctx.fn(A + 'iter_watchers')
    _check_sort(run, ctx, iw, 'iter_watchers', 'self.watchers')
    wf = ctx.fn('circus.commands.restart:execute_watcher_start_stop_restart.watcher_iter_func')
    _check_sort(run, ctx, wf, 'the start/stop/restart subset iterator', 'watchers')
    for key in (A + '_start_watchers',):
        f = ctx.fn(key)
        asg = [n for n in ctx.live_nodes(f) if n.kind == 'stmt' and isinstance(n.ast, ast.Assign)
               and any(isinstance(t, ast.Name) and t.id == 'watchers' for t in n.ast.targets)]
        run.count('R1', len(asg), 1, 'sources of the start order in %s' % f.qualname)
        for n in asg:
            v = n.ast.value
            ok = isinstance(v, ast.Call) and norm_text(v.func) in ('self.iter_watchers',
                                                                   'watcher_iter_func') and \
                not v.args and not v.keywords
            run.check('R1', ok, 'the start order is the default (descending priority) iteration',
                      f, n.ast, 'watchers are started in the order %s' % norm_text(v))
        loops = [h for h in ctx.cfg(f).nodes if h.kind == 'iter']
        run.check('R1', len(loops) == 1 and norm_text(loops[0].ast.iter) == 'watchers',
                  'the start loop follows that order', f, loops[0].ast.iter if loops else f.node)
    sw = ctx.fn(A + '_stop_watchers')
    for n in ctx.live_nodes(sw):
        if n.kind == 'stmt' and isinstance(n.ast, ast.Assign) and any(
                isinstance(t, ast.Name) and t.id == 'watchers' for t in n.ast.targets):
            v = n.ast.value
            rv = astq.kwarg(v, 'reverse') if isinstance(v, ast.Call) else None
            run.check('R1', astq.const_value(rv, None) is False, 'stopping uses the ascending '
                      'order explicitly', sw, n.ast)


def r2(run, ctx):
    run.rule('R2', 'sequential, paced start')
    f = ctx.fn(A + '_start_watchers')
    cfg = ctx.cfg(f)
    st = ctx.sites_calling(f, [W + '_start'])
    sl = [s for s in ctx.sites(f) if s.kind == 'call' and (
        s.name in ('tornado_sleep', 'gen.sleep') or
        any(t.key == 'circus.util:tornado_sleep' for t in s.targets))]
    ok = run.need('R2', st, 'Watcher._start call in _start_watchers', f)
    ok &= run.need('R2', sl, 'tornado_sleep in _start_watchers', f,
                   'consecutive watchers are not spaced by the global warmup_delay')
    if not ok:
        return
    hdr = [h for h in cfg.nodes if h.kind == 'iter']
    body = cfg.branch_nodes(hdr[0], 'true') if hdr else set()
    for s in st:
        direct = s.node.kind == 'stmt' and isinstance(s.node.ast, ast.Expr) and \
            isinstance(s.node.ast.value, (ast.Yield, ast.Await)) and s.node.ast.value.value is s.call
        run.check('R2', direct and s.node.id in body, "each watcher's start is awaited inside the "
                  'iteration (the next watcher begins only when all workers of this one are '
                  'spawned)', f, s.node.ast,
                  'the starts are collected / not awaited one by one: watchers start '
                  'concurrently, out of priority order')
        run.check('R2', guarded(cfg, s.node, lambda e: True if norm_text(e) == 'watcher.autostart'
                                else None, True), 'only autostart watchers are started', f,
                  s.node.ast, 'watchers with autostart disabled are started by the daemon start')
        recv = s.call.func.value
        run.check('R2', isinstance(recv, ast.Name) and hdr and
                  recv.id == norm_text(hdr[0].ast.target), 'the watcher started is the loop '
                  'variable', f, s.node.ast)
    for s in sl:
        run.check('R2', astq.call_is_yielded(s.node, s.call) and s.node.id in body,
                  'the pause is awaited inside the iteration', f, s.node.ast,
                  'the warm-up pause between watchers is not awaited')
        run.check('R2', s.call.args and norm_text(s.call.args[0]) == 'self.warmup_delay',
                  'the pause is the global warmup_delay', f, s.node.ast,
                  'watchers are spaced by %s' % (norm_text(s.call.args[0]) if s.call.args else '?'))
        for x in st:
            run.check('R2', cfg.dominates([x.node], s.node), 'the pause follows the start of that '
                      'watcher', f, s.node.ast)
    # every iteration with autostart passes start and pause
    if hdr:
        start = [cfg.nodes[i] for i, lab in cfg.succ[hdr[0].id] if lab == 'true']
        assume = lambda e: True if norm_text(e) == 'watcher.autostart' else None
        from sa.idioms import infeasible_edges
        ex = infeasible_edges(cfg, assume)
        r = cfg.reach(start, avoid=[s.node for s in sl], include_src=True, edges_excluded=ex,
                      labels_excluded=('exc',))
        run.check('R2', hdr[0].id not in r, 'every started watcher is followed by the pause', f,
                  hdr[0].ast.iter)
    # reachability: Arbiter.start -> start_watchers -> _start_watchers; restart paths
    for key, via in ((A + 'start', A + 'start_watchers'), (A + 'start_watchers', f.key),
                     (A + '_restart', f.key), (A + 'restart', f.key)):
        g = ctx.fn(key)
        run.check('R2', bool(ctx.sites_calling(g, [via])), '%s reaches %s' % (
            g.qualname, via.split('.')[-1]), g, g.node,
            '%s no longer starts watchers through the ordered, paced routine' % g.qualname)
    sw = ctx.fn(A + 'start_watcher')
    t = norm_text(sw.node)
    run.check('R2', astq.has_pattern(t, 'if $w.autostart') and
              astq.has_pattern(t, 'yield $w._start()') and
              'yield tornado_sleep(self.warmup_delay)' in t, 'start_watcher (reloadconfig adds) '
              'is paced the same way', sw, sw.node)
    # informational: arbiter-wide reload pacing
    rl = ctx.fn(A + 'reload')
    for s in ctx.sites(rl):
        if s.kind == 'call' and s.name == 'tornado_sleep' and not astq.call_is_yielded(s.node, s.call):
            run.note('informational: Arbiter.reload discards tornado_sleep(self.warmup_delay) at '
                     '%s (reload pacing is outside C19)' % rl.where(s.node.ast))


def r3(run, ctx):
    run.rule('R3', 'per-watcher pacing')
    f = ctx.fn(W + 'spawn_processes')
    cfg = ctx.cfg(f)
    loops = [h for h in cfg.nodes if h.kind == 'iter' and isinstance(h.ast.iter, ast.Call) and
             dotted(h.ast.iter.func) == 'range']
    if not run.need('R3', loops, 'spawn loop in spawn_processes', f):
        return
    h = loops[-1]
    body = cfg.branch_nodes(h, 'true')
    sp = [n for n in ctx.nodes_calling(f, [W + 'spawn_process']) if n.id in body]
    sl = [s for s in ctx.sites(f) if s.kind == 'call' and s.node.id in body and (
        s.name in ('tornado_sleep', 'gen.sleep') or
        any(t.key == 'circus.util:tornado_sleep' for t in s.targets))]
    ok = run.need('R3', sp, 'spawn_process in the loop', f)
    ok &= run.need('R3', sl, 'tornado_sleep in the loop', f,
                   'consecutive spawns of a watcher are not spaced by its warmup_delay')
    if not ok:
        return
    for s in sl:
        run.check('R3', astq.call_is_yielded(s.node, s.call), 'the pause between spawns is '
                  'awaited', f, s.node.ast, 'the warm-up pause between spawns is not awaited')
        a = s.call.args[0] if s.call.args else None
        run.check('R3', isinstance(a, ast.Name), 'the pause is a computed delay', f, s.node.ast)
        if isinstance(a, ast.Name):
            dn = a.id
            asg = [n for n in cfg.nodes if n.id in body and n.kind == 'stmt' and
                   isinstance(n.ast, (ast.Assign, ast.AugAssign)) and any(
                       isinstance(t, ast.Name) and t.id == dn for t in astq.attr_targets(n.ast))]
            base = [n for n in asg if isinstance(n.ast, ast.Assign) and
                    norm_text(n.ast.value) == 'self.warmup_delay']
            run.check('R3', len(base) == 1 and cfg.dominates(base, s.node),
                      "the delay starts from the watcher's warmup_delay in every iteration", f,
                      s.node.ast, 'the pause between spawns is not derived from warmup_delay')
            for n in asg:
                if n in base:
                    continue
                if isinstance(n.ast, ast.AugAssign):
                    okk = isinstance(n.ast.op, ast.Sub) and 'time.time()' in norm_text(n.ast.value)
                    run.check('R3', okk, 'the delay is only reduced by the time already elapsed',
                              f, n.ast, 'the pause is altered by %s' % norm_text(n.ast))
                else:
                    okk = astq.const_value(n.ast.value, None) == 0 and guarded(
                        cfg, n, lambda e, dn=dn: (True if isinstance(e, ast.Compare) and
                                                  norm_text(e.left) == dn and
                                                  isinstance(e.ops[0], ast.Lt) and
                                                  astq.const_value(e.comparators[0], None) == 0
                                                  else None), True)
                    run.check('R3', okk, 'the delay is clamped at 0, never otherwise replaced', f,
                              n.ast, 'the pause is replaced by %s' % norm_text(n.ast.value))
    # every iteration that spawned successfully passes the pause before the next spawn
    start = [cfg.nodes[i] for i, lab in cfg.succ[h.id] if lab == 'true']

    def res_ok(e):
        if isinstance(e, ast.Compare) and norm_text(e.left) == 'res' and \
                isinstance(e.ops[0], ast.Is) and astq.const_value(e.comparators[0], 0) is False:
            return False
        return None
    from sa.idioms import infeasible_edges
    r = cfg.reach(start, avoid=[s.node for s in sl], include_src=True,
                  edges_excluded=infeasible_edges(cfg, res_ok), labels_excluded=('exc',))
    run.check('R3', h.id not in r, 'no iteration spawns and loops on without the pause', f,
              h.ast.iter, 'a spawn can be followed by the next one without the warm-up pause')
    run.check('R3', len(sp) == 1, 'one spawn per iteration', f, sp[0].ast)
    st = ctx.fn(W + '_start')
    c2 = ctx.cfg(st)
    ys = [s.node for s in ctx.sites_calling(st, [f.key]) if astq.call_is_yielded(s.node, s.call)]
    act = ctx.direct_nodes(st, ev_setattr('_status', 'active'))
    if run.need('R3', ys, 'awaited spawn_processes in _start', st) and act:
        for a in act:
            run.check('R3', c2.dominates(ys, a), 'all workers are spawned before the watcher '
                      'counts as started', st, a.ast, '_start returns (and the next watcher '
                      'begins) before this watcher\'s workers are spawned')


def r4(run, ctx):
    run.rule('R4', 'the paced start sequences hold the exclusive slot (so the periodic check '
             'cannot spawn in the middle of them)')
    for key in (A + 'start_watchers', A + 'restart', W + 'start', W + 'restart'):
        f = ctx.fn(key)
        si, ci = f.deco_index('synchronized'), f.deco_index('coroutine')
        ok = si is not None and (ci is None or si < ci)
        run.check('R4', ok, '%s runs under the exclusive slot for its whole duration'
                  % f.qualname, f, f.node.decorator_list[0] if f.node.decorator_list else f.node,
                  '%s is not exclusive for its whole duration (%s): the periodic check can run '
                  'while the paced start is sleeping between spawns and start a second spawn '
                  'loop, so spawns come closer than warmup_delay and more than numprocesses are '
                  'started' % (f.qualname, 'synchronized missing' if si is None else
                               'gen.coroutine wraps synchronized, which then releases at once'),
                  construct='%s exclusivity' % f.qualname)
    mw = ctx.fn(A + 'manage_watchers')
    run.check('R4', bool(mw.synchronized), 'the periodic check competes for the same slot', mw,
              mw.node)
    # the unsynchronized body (_start_watchers) is only entered from code that holds the slot
    inner = A + '_start_watchers'

    def under_slot(f, depth=0):
        if f.synchronized:
            return True
        cs = ctx.callers_of([f.key], kinds=('call', 'ref'))
        return bool(cs) and depth < 4 and all(
            c.key != f.key and under_slot(c, depth + 1) for c, _ in cs)
    n = 0
    for caller, site in ctx.callers_of([inner], kinds=('call', 'ref')):
        n += 1
        run.check('R4', under_slot(caller), '%s enters the start sequence holding the slot'
                  % caller.qualname, caller, site.node.ast,
                  '%s runs the start sequence of all watchers through the unsynchronized '
                  '_start_watchers without holding the exclusive slot: the periodic check is not '
                  'refused meanwhile and spawns into the middle of the sequence (spawns closer '
                  'than warmup_delay, more than numprocesses workers)' % caller.qualname,
                  construct='UNSYNCHRONIZED-START-SEQUENCE')
    run.count('R4', n, 3, 'callers of Arbiter._start_watchers')


def r5(run, ctx):
    from rules import c10
    run.share(ctx, c10.r1, 'R1', 'R5', 'the slot held by a paced start sequence cannot be taken '
              'or freed by somebody else (shared with C10 R1, the discipline of the synchronized '
              'wrapper): a refused periodic check that frees the slot lets the next check spawn '
              'into the middle of the sequence - spawns closer together than warmup_delay, more '
              'than numprocesses workers')
