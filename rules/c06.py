"""C06 - every control request gets exactly one well-formed reply bearing its id."""
import ast

from sa import astq
from sa.astq import norm_text
from sa.idioms import reach_under, guarded, combine, attr_truth, infeasible_edges
from sa.raises import caught_by
from sa.project import dotted, walk_local, AnalysisError

EXPLANATION = (    "Reply discipline of the controller decided on the source: R1 wire-taint "
    "totality - every attribute access, method call, subscript or iteration on "
    "a value that came out of json.loads (and values derived from it) is either "
    "guarded by an isinstance test of a type on which the operation is valid, or "
    "inside a try whose handlers catch what a wrongly-typed value raises and "
    "reply; R2 reply-count dataflow over dispatch / _dispatch_callback / "
    "_dispatch_callback_future / handle_message: exactly one logical reply (or "
    "one deferred reply registered) on every normal path, including handler "
    "paths; R3 no send_response call passes an argument of a type the callee "
    "rejects; R4 send_response writes the id last before serialising and every "
    "reply call passes the request's id; R5 no command result carries an "
    "envelope key (status/time/id); R6 done-callbacks never call .result() "
    "unguarded; R7 the execute-try's handlers are ordered specific-first and end "
    "in a catch-all, each replying; R8 both client call() methods return only a "
    "reply whose id equals the call id and turn undecodable replies into "
    "CallError; R9 the configured client timeout reaches the receive and expiry "
    "raises."
    "R4 also requires the cast flag to be handed to every reply call once it is known. "
    "Decides these necessary conditions, not byte-level JSON validity.")
ASSUMPTIONS = ["ZMQ frames are bytes; a message that is not a (cid, msg) pair is dropped by "
               "design", "send_error/send_ok/send_response are total for dict arguments "
               "(they catch IOError/ZMQError themselves)"]

C = 'circus.controller:Controller.'
REPLY_FUNCS = [C + 'send_error', C + 'send_ok', C + 'send_response', C + '_dispatch_callback']

DICT_OPS = {'get', 'items', 'keys', 'values', 'pop', 'copy', 'update', 'setdefault'}
STR_OPS = {'lower', 'upper', 'strip', 'split', 'startswith', 'endswith', 'encode'}


def check(run, ctx):
    run.each(ctx, [r1, r2, r3, r4, r5, r6, r7, r8, r10, r11])


# -- R1 -----------------------------------------------------------------------
def _tainted_names(f):
    """Names holding wire data: assigned from json.loads(...) or from
    .get()/subscript of a tainted name (fixpoint)."""
    taint = set()
    changed = True
    while changed:
        changed = False
        for n in walk_local(f.node):
            if isinstance(n, ast.Assign) and len(n.targets) == 1 and \
                    isinstance(n.targets[0], ast.Name):
                v = n.value
                src = False
                if isinstance(v, ast.Call) and dotted(v.func) in ('json.loads', 'loads'):
                    src = True
                if isinstance(v, ast.Call) and isinstance(v.func, ast.Attribute) and \
                        v.func.attr in ('get', 'pop') and isinstance(v.func.value, ast.Name) \
                        and v.func.value.id in taint:
                    src = True
                if isinstance(v, ast.Subscript) and isinstance(v.value, ast.Name) and \
                        v.value.id in taint:
                    src = True
                if isinstance(v, ast.Name) and v.id in taint:
                    src = True
                if src and n.targets[0].id not in taint:
                    taint.add(n.targets[0].id)
                    changed = True
    return taint


def _handlers_stack(fnode):
    """id(node) -> list of ast.Try whose *body* lexically encloses the node."""
    out = {}

    def rec(node, stack):
        out[id(node)] = stack
        if isinstance(node, ast.Try):
            for st in node.body:
                rec(st, stack + [node])
            for st in node.orelse + node.finalbody:
                rec(st, stack)
            for h in node.handlers:
                for st in h.body:
                    rec(st, stack)
            return
        if isinstance(node, (ast.FunctionDef, ast.Lambda, ast.ClassDef)) and node is not fnode:
            return
        for ch in ast.iter_child_nodes(node):
            rec(ch, stack)
    rec(fnode, [])
    return out


def _handler_names(h):
    if h.type is None:
        return ['*']
    if isinstance(h.type, ast.Tuple):
        return [(dotted(e) or '?').split('.')[-1] for e in h.type.elts]
    return [(dotted(h.type) or '?').split('.')[-1]]


def _replies(ctx, f, stmts):
    """Does the statement list contain a call resolved to a reply function?"""
    ids = set()
    for st in stmts:
        for n in ast.walk(st):
            ids.add(id(n))
    for s in ctx.sites(f):
        if s.kind == 'call' and id(s.call) in ids and \
                any(t.key in REPLY_FUNCS for t in s.targets):
            return True
    return False


def _isinstance_guard(name, types):
    def pred(e):
        if isinstance(e, ast.Call) and dotted(e.func) == 'isinstance' and len(e.args) == 2 \
                and isinstance(e.args[0], ast.Name) and e.args[0].id == name:
            t = e.args[1]
            names = [dotted(x) for x in (t.elts if isinstance(t, ast.Tuple) else [t])]
            if set(names) <= set(types):
                return True
        return None
    return pred


def r1(run, ctx):
    run.rule('R1', 'wire-taint totality in Controller.dispatch')
    f = ctx.fn(C + 'dispatch')
    cfg = ctx.cfg(f)
    taint = _tainted_names(f)
    if not taint:
        raise AnalysisError('C06 R1: no value derived from json.loads found in dispatch')
    hs = _handlers_stack(f.node)
    ops = []
    for node in ctx.live_nodes(f):
        for n in node.walk():
            if isinstance(n, ast.Attribute) and isinstance(n.value, ast.Name) and \
                    n.value.id in taint and isinstance(n.ctx, ast.Load):
                ops.append((node, n, n.value.id, 'attr', n.attr, ['AttributeError']))
            elif isinstance(n, ast.Subscript) and isinstance(n.value, ast.Name) and \
                    n.value.id in taint and isinstance(n.ctx, ast.Load):
                ops.append((node, n, n.value.id, 'subscript', '[]',
                            ['TypeError', 'KeyError', 'IndexError']))
            elif isinstance(n, ast.Subscript) and isinstance(n.ctx, ast.Load) and \
                    isinstance(n.slice, ast.Name) and n.slice.id in taint:
                ops.append((node, n, n.slice.id, 'hash', 'key', ['TypeError', 'KeyError']))
            elif isinstance(n, (ast.For, ast.comprehension)) and isinstance(n.iter, ast.Name) \
                    and n.iter.id in taint:
                ops.append((node, n.iter, n.iter.id, 'iter', 'iter', ['TypeError']))
            elif isinstance(n, ast.BinOp) and isinstance(n.op, ast.Mod) and \
                    isinstance(n.right, ast.Name) and n.right.id in taint and \
                    isinstance(n.left, ast.Constant) and isinstance(n.left.value, str):
                pass   # '%r' % value is total for JSON values (no tuples)
    run.count('R1', len(ops), 3, 'operations applied to wire-derived values in dispatch')
    for node, n, name, kind, what, raises in ops:
        ok = False
        why = ''
        # (a) guarded by an isinstance test of a suitable type
        if kind == 'attr' and what in DICT_OPS:
            ok = guarded(cfg, node, _isinstance_guard(name, ['dict']), True)
        elif kind == 'attr' and what in STR_OPS:
            ok = guarded(cfg, node, _isinstance_guard(name, ['str']), True)
        elif kind == 'subscript':
            ok = guarded(cfg, node, _isinstance_guard(name, ['dict', 'list']), True)
        if not ok:
            # (b) inside a try whose handlers catch the op's exceptions and reply
            for t in reversed(hs.get(id(n), [])):
                remaining = list(raises)
                all_reply = True
                for h in t.handlers:
                    hn = _handler_names(h)
                    caught = [x for x in remaining if caught_by(hn, x)]
                    if caught:
                        if not _replies(ctx, f, h.body):
                            all_reply = False
                        remaining = [x for x in remaining if x not in caught]
                if not remaining and all_reply:
                    ok = True
                    break
                if remaining and remaining != raises:
                    why = ' (%s not handled by the enclosing try)' % ', '.join(remaining)
                elif remaining:
                    why = ' (enclosing try handles only %s)' % ', '.join(
                        sum((_handler_names(h) for h in t.handlers), []))
        run.check('R1', ok, 'operation %s.%s on wire data is type-guarded or under a replying '
                  'handler' % (name, what), f, node.ast,
                  'a request whose `%s` has an unexpected JSON type raises out of dispatch and '
                  'is never answered%s' % (name, why),
                  construct='%s %s on %s' % (kind, what, name))
    # handle_message: everything that is a (cid, msg) pair ends in a reply or dispatch
    hm = ctx.fn(C + 'handle_message')
    c2 = ctx.cfg(hm)
    sinks = ctx.nodes_calling(hm, REPLY_FUNCS + [C + 'dispatch'])
    run.need('R1', sinks, 'reply / dispatch call in handle_message', hm)
    unpack = [n for n in ctx.live_nodes(hm) if n.kind == 'stmt' and isinstance(n.ast, ast.Assign)
              and isinstance(n.ast.targets[0], ast.Tuple)]
    for u in unpack[:1]:
        r = c2.reach(u, avoid=sinks, labels_excluded=('exc',))
        run.check('R1', c2.exit.id not in r, 'a well-framed message always reaches a reply or '
                  'dispatch', hm, u.ast)


# -- R2 -----------------------------------------------------------------------
def _deferred_flags(ctx, f):
    """The send_resp arguments of the completion callbacks registered in f:
    [(add_done_callback node, flag expression)] with locals expanded."""
    from sa.dataflow import reaching_defs
    rd = reaching_defs(ctx, f)
    out = []
    for node in ctx.live_nodes(f):
        for c in node.calls():
            if astq.call_last(c) == 'add_done_callback' and c.args:
                for alt in rd.expand(node, c.args[0]):
                    cb = alt.expr
                    if isinstance(cb, ast.Call) and dotted(cb.func) in ('functools.partial',
                                                                        'partial') \
                            and cb.args and norm_text(cb.args[0]).endswith(
                                '_dispatch_callback_future') and len(cb.args) >= 7:
                        out.append((node, cb.args[6], alt))
    return out


def _flag_texts(ctx, f):
    """names / expressions whose truth decides a non-constant send_resp flag"""
    from sa.normalize import bool_ctx
    import copy
    texts = set()
    for c in [c for n in ctx.live_nodes(f) for c in n.calls()]:
        if dotted(c.func) in ('functools.partial', 'partial') and len(c.args) >= 7 and \
                norm_text(c.args[0]).endswith('_dispatch_callback_future') and \
                not isinstance(c.args[6], ast.Constant):
            texts.add(norm_text(c.args[6]))
    for node, flag, alt in _deferred_flags(ctx, f):
        if not isinstance(flag, ast.Constant):
            texts.add(norm_text(bool_ctx(copy.deepcopy(flag))))
            texts.add(norm_text(flag))
    return texts


def _reply_weight(ctx, f, node, deferred_ok=True, flagval=None):
    """number of logical replies issued at this node (reply call = 1, a
    registered completion callback with send_resp=True = 1; a non-constant
    send_resp counts when the case under analysis (flagval) makes it true)."""
    w = 0
    for s in ctx.sites(f):
        if s.node is not node or s.kind != 'call':
            continue
        if any(t.key in REPLY_FUNCS for t in s.targets):
            w += 1
        if any(t.key == C + 'dispatch' for t in s.targets):
            w += 1
    # a completion callback with send_resp=True counts at its registration
    for n2, flag, alt in _deferred_flags(ctx, f):
        if n2 is node:
            if isinstance(flag, ast.Constant):
                if flag.value is True:
                    w += 1
            elif flagval is True:
                w += 1
            break
    return w


def _count_flow(ctx, f, assume=None, flagval=None):
    """-> dict node_id -> set of reply counts (capped at 2) on entry."""
    cfg = ctx.cfg(f)
    ex = infeasible_edges(cfg, assume) if assume else set()
    state = {cfg.entry.id: {0}}
    todo = [cfg.entry.id]
    while todo:
        cur = todo.pop()
        node = cfg.nodes[cur]
        w = _reply_weight(ctx, f, node, flagval=flagval)
        for nxt, lab in cfg.succ[cur]:
            if (cur, lab) in ex:
                continue
            for c in state[cur]:
                if lab in ('exc',):
                    nc = c           # exception before the reply was issued
                else:
                    nc = min(2, c + w)
                s = state.setdefault(nxt, set())
                if nc not in s:
                    s.add(nc)
                    todo.append(nxt)
    return cfg, state


def r2(run, ctx):
    run.rule('R2', 'reply-count dataflow: exactly one logical reply per request')
    cases = [
        (C + 'dispatch', None, {1}, 'dispatch'),
        (C + '_dispatch_callback', None, {1}, '_dispatch_callback'),
        (C + '_dispatch_callback_future', attr_truth('send_resp', True), {1},
         '_dispatch_callback_future(send_resp=True)'),
        (C + '_dispatch_callback_future', attr_truth('send_resp', False), {0},
         '_dispatch_callback_future(send_resp=False)'),
    ]
    for key, assume, want, label in cases:
        f = ctx.fn(key)
        flags = _flag_texts(ctx, f) if assume is None else set()
        if flags:
            # the send_resp flag is a run-time value: one analysis per value
            got = set()
            for val in (True, False):
                cfg, state = _count_flow(ctx, f, lambda e, val=val: (
                    val if norm_text(e) in flags else None), flagval=val)
                got |= state.get(cfg.exit.id, set())
        else:
            cfg, state = _count_flow(ctx, f, assume)
            got = state.get(cfg.exit.id, set())
        ok = got == want
        wit = None
        if not ok:
            badc = sorted(got - want)
            wit = badc
        run.check('R2', ok, '%s: every normal exit has issued exactly %s logical reply'
                  % (label, sorted(want)[0]), f, f.node,
                  '%s can return having issued %s replies (allowed: %s)' % (
                      label, sorted(got), sorted(want)),
                  construct='%s reply counts' % label)
    # handle_message: garbage frames are dropped by design (0), everything else 1
    f = ctx.fn(C + 'handle_message')
    cfg, state = _count_flow(ctx, f)
    got = state.get(cfg.exit.id, set())
    run.check('R2', got <= {0, 1} and 1 in got, 'handle_message: one reply (or none for a '
              'frame that is not a (cid, msg) pair)', f, f.node)
    # the only 0-reply exit is the garbage-frame handler
    zero_paths = []
    for p, lab in cfg.pred[cfg.exit.id]:
        if 0 in state.get(p, set()) and _reply_weight(ctx, f, cfg.nodes[p]) == 0:
            zero_paths.append(cfg.nodes[p])
    hs = [n for n in cfg.nodes if n.kind == 'except']
    ok = all(any(cfg.dominates([h], z) for h in hs) for z in zero_paths)
    run.check('R2', ok, 'handle_message returns without a reply only from the malformed-frame '
              'handler', f, (zero_paths[0].ast if zero_paths and zero_paths[0].ast is not None
                             else f.node),
              'a well-framed message can be dropped without any reply')


# -- R3 -----------------------------------------------------------------------
def r3(run, ctx):
    run.rule('R3', 'argument-type agreement for send_response')
    sr = ctx.fn(C + 'send_response')
    params = [a.arg for a in sr.node.args.args]
    rejected = set()
    cfg = ctx.cfg(sr)
    for t in cfg.nodes:
        if t.kind == 'test' and isinstance(t.ast, ast.Call) and dotted(t.ast.func) == 'isinstance':
            tn = [cfg.nodes[i] for i, lab in cfg.succ[t.id] if lab == 'true']
            if tn and isinstance(tn[0].ast, ast.Raise):
                ty = t.ast.args[1]
                for x in (ty.elts if isinstance(ty, ast.Tuple) else [ty]):
                    rejected.add(dotted(x))
    n = 0
    for caller, s in ctx.callers_of([sr.key], kinds=('call',)):
        n += 1
        idx = params.index('resp') - 1 if 'resp' in params else 3
        arg = astq.kwarg(s.call, 'resp', idx)
        bad = isinstance(arg, ast.Constant) and type(arg.value).__name__ in rejected
        if isinstance(arg, ast.JoinedStr) and 'str' in rejected:
            bad = True
        run.check('R3', not bad, 'send_response is given a mapping', caller, s.node.ast,
                  'send_response is called with a %s literal, which it rejects by raising: '
                  'the request is never answered' % (type(getattr(arg, 'value', '')).__name__))
    run.count('R3', n, 1, 'call sites of send_response')
    # send_error / send_ok build their reply with error()/ok() (dict displays)
    for key, builder in ((C + 'send_error', 'error'), (C + 'send_ok', 'ok')):
        g = ctx.fn(key)
        okb = any(astq.call_last(c) == builder for nd in ctx.live_nodes(g) for c in nd.calls())
        run.check('R3', okb, '%s builds its reply with %s()' % (g.qualname, builder), g, g.node)
    for name in ('ok', 'error'):
        b = ctx.fn('circus.commands.base:' + name)
        rets = [nd for nd in ctx.live_nodes(b) if nd.kind == 'stmt' and isinstance(nd.ast, ast.Return)]
        good = True
        status_ok = False
        for rnode in rets:
            v = rnode.ast.value
            if isinstance(v, ast.Name):
                for a in ast.walk(b.node):
                    if isinstance(a, ast.Assign) and isinstance(a.targets[0], ast.Name) and \
                            a.targets[0].id == v.id:
                        v = a.value
            if not isinstance(v, ast.Dict):
                good = False
            else:
                keys = {astq.const_value(k): astq.const_value(val, None)
                        for k, val in zip(v.keys, v.values)}
                status_ok = keys.get('status') == name and 'time' in keys
        run.check('R3', good and status_ok, '%s() returns a dict with status=%r and a time'
                  % (name, name), b, b.node)


# -- R4 -----------------------------------------------------------------------
def r4(run, ctx):
    run.rule('R4', 'the id is echoed, last')
    f = ctx.fn(C + 'send_response')
    cfg = ctx.cfg(f)
    setid = [n for n in ctx.live_nodes(f) if n.kind == 'stmt' and isinstance(n.ast, ast.Assign)
             and isinstance(n.ast.targets[0], ast.Subscript) and
             astq.const_value(n.ast.targets[0].slice) == 'id']
    dumps = [n for n in ctx.live_nodes(f)
             if any(dotted(c.func) in ('json.dumps', 'dumps') for c in n.calls())]
    ok = run.need('R4', setid, "resp['id'] = mid in send_response", f)
    ok &= run.need('R4', dumps, 'serialisation in send_response', f)
    if ok:
        for d in dumps:
            run.check('R4', cfg.dominates(setid, d), 'the id is set before serialising', f, d.ast)
        for s_ in setid:
            run.check('R4', isinstance(s_.ast.value, ast.Name) and s_.ast.value.id == 'mid',
                      'the id written is the mid parameter', f, s_.ast)
            between = cfg.reach(s_, avoid=dumps)
            writes = [n for n in cfg.nodes if n.id in between and n.kind == 'stmt' and any(
                isinstance(t, ast.Subscript) and dotted(t.value) == 'resp'
                for t in astq.attr_targets(n.ast)) and n is not s_]
            upd = [n for n in cfg.nodes if n.id in between and any(
                astq.call_last(c) == 'update' and dotted(c.func.value) == 'resp'
                for c in n.calls())]
            run.check('R4', not writes and not upd, 'nothing overwrites the reply between the id '
                      'and serialisation', f, s_.ast)
        sends = [n for n in ctx.live_nodes(f)
                 if any(astq.call_last(c) == 'send' for c in n.calls())]
        run.check('R4', len(sends) >= 2 and all(cfg.dominates(dumps, n) for n in sends),
                  'client id frame and payload frame are sent after serialisation', f, f.node)
    # mid flows from json_msg.get('id') unchanged into every reply call of dispatch
    d = ctx.fn(C + 'dispatch')
    from sa.dataflow import reaching_defs

    def is_get_id(e):
        return isinstance(e, ast.Call) and astq.call_last(e) == 'get' and e.args and \
            astq.const_value(e.args[0]) == 'id'

    def _has_other_calls(e):
        return any(isinstance(x, ast.Call) and x is not e for x in ast.walk(e))
    mids = [n for n in ctx.live_nodes(d) if any(is_get_id(c) for c in n.calls())]
    run.check('R4', len(mids) == 1, "the request's 'id' is read once", d,
              (mids[0].ast if mids else d.node), "mid is not taken from the request's 'id'",
              construct="mid is assigned once, from the request's 'id'")
    cfg = ctx.cfg(d)
    n = 0
    for fkey in (C + 'dispatch', C + '_dispatch_callback', C + '_dispatch_callback_future'):
        g = ctx.fn(fkey)
        rdg = reaching_defs(ctx, g)
        for s in ctx.sites_calling(g, [C + 'send_error', C + 'send_ok', C + 'send_response']):
            a0 = s.call.args[0] if s.call.args else None
            n += 1
            alts = rdg.expand(s.node, a0) if a0 is not None else []
            if fkey == C + 'dispatch' and mids and not ctx.cfg(g).dominates(mids, s.node):
                run.check('R4', bool(alts) and all(astq.const_value(a.expr, 'x') is None
                                                   for a in alts),
                          'before the id is known the reply carries a null id', g, s.node.ast)
            elif fkey == C + 'dispatch':
                run.check('R4', bool(alts) and all(is_get_id(a.expr) for a in alts),
                          'the reply is sent with the request id', g, s.node.ast,
                          'a reply is sent with an id other than the request\'s')
            else:
                run.check('R4', bool(alts) and all(a.text() == 'mid' for a in alts),
                          'the reply is sent with the request id', g, s.node.ast,
                          'a reply is sent with an id other than the request\'s')
        for s in ctx.sites_calling(g, [C + '_dispatch_callback']):
            a = s.call.args[2] if len(s.call.args) > 2 else None
            alts = rdg.expand(s.node, a) if a is not None else []
            run.check('R4', bool(alts) and all(
                (is_get_id(x.expr) if fkey == C + 'dispatch' else x.text() == 'mid')
                for x in alts), 'the id is handed to _dispatch_callback', g, s.node.ast)
    # the cast flag, once known, is handed to every reply call (a cast must never be answered)
    casts = [n_ for n_ in ctx.live_nodes(d) if n_.kind == 'stmt' and isinstance(n_.ast, ast.Assign)
             and any(isinstance(t, ast.Name) and t.id == 'cast' for t in n_.ast.targets)]
    run.need('R4', casts, "cast flag derived from the request's msg_type in dispatch", d,
             'cast messages are answered like ordinary requests')
    for s in ctx.sites_calling(d, [C + 'send_error', C + 'send_ok', C + 'send_response']):
        if casts and cfg.dominates(casts, s.node):
            v = astq.kwarg(s.call, 'cast')
            run.check('R4', isinstance(v, ast.Name) and v.id == 'cast',
                      'the reply call is told whether the request was a cast', d, s.node.ast,
                      'this reply path does not pass cast=cast: a cast (fire-and-forget) message '
                      'taking it is answered, and the stray reply is taken for the answer to '
                      "the sender's next request")
    for s in ctx.sites_calling(d, [C + '_dispatch_callback']):
        a = s.call.args[3] if len(s.call.args) > 3 else astq.kwarg(s.call, 'cast')
        run.check('R4', isinstance(a, ast.Name) and a.id == 'cast',
                  'the cast flag is handed to _dispatch_callback', d, s.node.ast)
    for g_key in (C + '_dispatch_callback', C + '_dispatch_callback_future'):
        g = ctx.fn(g_key)
        for s in ctx.sites_calling(g, [C + 'send_error', C + 'send_ok', C + '_dispatch_callback']):
            if any(t.key == C + '_dispatch_callback' for t in s.targets):
                a = s.call.args[3] if len(s.call.args) > 3 else astq.kwarg(s.call, 'cast')
            else:
                a = astq.kwarg(s.call, 'cast')
            run.check('R4', isinstance(a, ast.Name) and a.id == 'cast',
                      '%s passes the cast flag on' % g.qualname, g, s.node.ast,
                      'a completion reply ignores the cast flag')
    sr = ctx.fn(C + 'send_response')
    csr = ctx.cfg(sr)
    sends = [n_ for n_ in ctx.live_nodes(sr) if any(astq.call_last(c) == 'send' for c in n_.calls())]
    from sa.idioms import reach_under as _ru
    rr = _ru(csr, csr.entry, lambda e: True if norm_text(e) == 'cast' else None)
    run.check('R4', not any(n_.id in rr for n_ in sends), 'send_response sends nothing for a cast',
              sr, sr.node, 'cast messages are answered')
    for c in [c for nd in ctx.live_nodes(d) for c in nd.calls()
              if dotted(c.func) in ('functools.partial', 'partial')]:
        run.check('R4', len(c.args) > 4 and isinstance(c.args[4], ast.Name) and c.args[4].id == 'cast',
                  'the cast flag is bound into the completion callback', d, c)
        run.check('R4', len(c.args) > 3 and isinstance(c.args[3], ast.Name) and c.args[3].id == 'mid',
                  'the id is bound into the completion callback', d, c)
    run.count('R4', n, 5, 'reply call sites in the controller')


# -- R5 -----------------------------------------------------------------------
ENVELOPE = {'status', 'time', 'id'}


def r5(run, ctx):
    run.rule('R5', 'command results do not clobber envelope keys')
    n = 0
    for c in ctx.p.classes.values():
        if not (c.is_subclass_of('Command') and c.module.name.startswith('circus.commands')):
            continue
        e = c.methods.get('execute')
        if e is None:
            continue
        n += 1
        dicts = []
        for x in ast.walk(e.node):
            if isinstance(x, ast.Return) and isinstance(x.value, ast.Dict):
                dicts.append(x.value)
            if isinstance(x, ast.Lambda) and isinstance(x.body, ast.Dict):
                dicts.append(x.body)
        bad = None
        for dct in dicts:
            keys = {astq.const_value(k) for k in dct.keys if k is not None}
            if keys & ENVELOPE:
                bad = (dct, keys & ENVELOPE)
        run.check('R5', bad is None, '%s results carry no envelope key' % c.name, e,
                  (bad[0] if bad else e.node),
                  "the command result overwrites the reply's %s: the reply status is neither "
                  "'ok' nor 'error'" % (sorted(bad[1]) if bad else ''))
    run.count('R5', n, 15, 'command execute methods')
    okf = ctx.fn('circus.commands.base:ok')
    run.check('R5', any(astq.call_last(c) == 'update' for nd in ctx.live_nodes(okf)
                        for c in nd.calls()), 'ok() merges the command result into the '
              'envelope (hence the rule)', okf, okf.node)


# -- R6 -----------------------------------------------------------------------
def r6(run, ctx):
    run.rule('R6', 'done-callbacks never call .result() unguarded')
    cbs = [ctx.fn(C + '_dispatch_callback_future'),
           ctx.fn('circus.util:TransformableFuture._internal_callback'),
           ctx.fn('circus.util:_synchronized_cb')]
    n = 0
    for f in cbs:
        cfg = ctx.cfg(f)
        hs = _handlers_stack(f.node)
        for node in ctx.live_nodes(f):
            for c in node.calls():
                if astq.call_last(c) == 'result' and isinstance(c.func, ast.Attribute) and \
                        isinstance(c.func.value, ast.Name) and c.func.value.id == 'future':
                    n += 1

                    def exc_none(e):
                        # `<x> is None` / `<x> is not None` where x holds future.exception()
                        if isinstance(e, ast.Compare) and isinstance(e.ops[0], (ast.Is, ast.IsNot)) \
                                and astq.const_value(e.comparators[0], 0) is None and \
                                'exception' in norm_text(e.left).lower():
                            return isinstance(e.ops[0], ast.Is)
                        if 'exception' in norm_text(e).lower() and isinstance(e, (ast.Name, ast.Attribute, ast.Call)):
                            return False
                        return None
                    g = guarded(cfg, node, exc_none, True)
                    in_try = any(any(caught_by(_handler_names(h), 'Exception') for h in t.handlers)
                                 for t in hs.get(id(c), []))
                    run.check('R6', g or in_try, '.result() is reached only when the future '
                              'holds no exception', f, node.ast,
                              'the done-callback calls future.result() although the operation may '
                              'have failed: the exception is re-raised inside the callback, the '
                              'relay/reply is skipped and a waiting request is never answered')
        # every path invokes the relay / reply
    run.count('R6', n, 1, '.result() calls in done-callbacks')
    # TransformableFuture relays on every path
    f = ctx.fn('circus.util:TransformableFuture._internal_callback')
    cfg = ctx.cfg(f)
    from sa.dataflow import reaching_defs
    # where add_done_callback keeps what it is given: self.A = fn / [fn] / self.A.append(fn)
    adc = ctx.fn('circus.util:TransformableFuture.add_done_callback')
    params = [a.arg for a in adc.node.args.args[1:]]
    slots = set()
    for nd in ctx.live_nodes(adc):
        if nd.kind == 'stmt' and isinstance(nd.ast, ast.Assign):
            for t in nd.ast.targets:
                if isinstance(t, ast.Attribute) and dotted(t.value) == 'self' and any(
                        isinstance(x, ast.Name) and x.id in params for x in ast.walk(nd.ast.value)):
                    slots.add(t.attr)
        for c in nd.calls():
            if isinstance(c.func, ast.Attribute) and c.func.attr in ('append', 'add') and \
                    isinstance(c.func.value, ast.Attribute) and dotted(c.func.value.value) == 'self' \
                    and any(isinstance(a, ast.Name) and a.id in params for a in c.args):
                slots.add(c.func.value.attr)
    run.need('R6', sorted(slots), 'slot in which add_done_callback keeps the callback', adc,
             'add_done_callback does not keep the callback: it is never run')
    rdf = reaching_defs(ctx, f)

    def from_slot(node, e):
        return any(any(isinstance(x, ast.Attribute) and x.attr in slots and
                       dotted(x.value) == 'self' for x in ast.walk(a.expr))
                   for a in rdf.expand(node, e))
    relay, loop_relay = [], []
    for nd in ctx.live_nodes(f):
        for c in nd.calls():
            if isinstance(c.func, ast.Attribute) and c.func.attr in slots and \
                    dotted(c.func.value) == 'self':
                relay.append(nd)                       # self.A(self)
            elif isinstance(c.func, ast.Name):
                hdr = [h for h in cfg.nodes if h.kind == 'iter' and
                       nd.id in cfg.branch_nodes(h, 'true') and
                       isinstance(h.ast.target, ast.Name) and h.ast.target.id == c.func.id and
                       from_slot(h, h.ast.iter)]
                if hdr:
                    loop_relay.append((hdr[-1], nd))   # for fn in <callbacks>: fn(self)
    run.need('R6', relay + [n_ for _, n_ in loop_relay], 'invocation of the upstream callback', f)

    def registered(e):
        if isinstance(e, ast.Compare) and isinstance(e.ops[0], (ast.Is, ast.IsNot)) and \
                astq.const_value(e.comparators[0], 0) is None and \
                any(isinstance(x, ast.Attribute) and x.attr in slots for x in ast.walk(e.left)):
            return isinstance(e.ops[0], ast.IsNot)
        return None
    must = relay + [h for h, _ in loop_relay]
    r = reach_under(cfg, cfg.entry, registered, avoid=must)
    ok = cfg.exit.id not in r
    for h, nd in loop_relay:
        start = [cfg.nodes[i] for i, lab in cfg.succ[h.id] if lab == 'true']
        ok = ok and h.id not in cfg.reach(start, avoid=[nd], include_src=True)
    run.check('R6', ok, 'the registered callback is invoked on every path '
              '(success and failure)', f, f.node)
    # exception() exposes the stored exception
    g = ctx.fn('circus.util:TransformableFuture.exception')
    run.check('R6', any('_exception' in norm_text(nd.ast) for nd in ctx.live_nodes(g)
                        if nd.kind == 'stmt' and isinstance(nd.ast, ast.Return)),
              'TransformableFuture.exception() returns the relayed exception', g, g.node)
    st = [nd for nd in ctx.live_nodes(f) if nd.kind == 'stmt' and isinstance(nd.ast, ast.Assign)
          and any(isinstance(t, ast.Attribute) and t.attr == '_exception' for t in nd.ast.targets)
          and 'exception()' in norm_text(nd.ast.value)]
    run.need('R6', st, 'the upstream exception is stored', f)


# -- R7 -----------------------------------------------------------------------
def r7(run, ctx):
    run.rule('R7', 'error mapping is total and ordered')
    f = ctx.fn(C + 'dispatch')
    tries = [t for t in ast.walk(f.node) if isinstance(t, ast.Try) and any(
        astq.call_last(c) == 'execute' for st in t.body for c in ast.walk(st)
        if isinstance(c, ast.Call))]
    if not run.need('R7', tries, 'try around cmd.validate/cmd.execute', f):
        return
    # innermost try whose body holds the execute call
    tries.sort(key=lambda t: sum(1 for _ in ast.walk(t)))
    t = tries[0]
    hs = [_handler_names(h) for h in t.handlers]
    run.check('R7', hs and ('*' in hs[-1] or 'Exception' in hs[-1] or 'BaseException' in hs[-1]),
              'the handler list ends in a catch-all', f, t.handlers[-1] if t.handlers else t,
              'an unexpected exception of a command escapes dispatch: the request is never '
              'answered')
    for i, h in enumerate(t.handlers[:-1]):
        run.check('R7', '*' not in hs[i] and 'Exception' not in hs[i],
                  'specific handlers precede the catch-all', f, h)
    for h in t.handlers:
        run.check('R7', _replies(ctx, f, h.body), 'handler %s replies' % _handler_names(h), f, h,
                  'an error of this class is swallowed without a reply')
    want = {'MessageError': 'MESSAGE_ERROR', 'ConflictError': 'COMMAND_ERROR', 'OSError': 'OS_ERROR'}
    for h in t.handlers:
        for nm in _handler_names(h):
            if nm in want:
                txt = ' '.join(norm_text(s_) for s_ in h.body)
                run.check('R7', ('errors.' + want[nm]) in txt, '%s is mapped to errno %s'
                          % (nm, want[nm]), f, h)
    # validate precedes execute inside the try
    val = [i for i, st in enumerate(t.body) if any(isinstance(c, ast.Call) and
           astq.call_last(c) == 'validate' for c in ast.walk(st))]
    exe = [i for i, st in enumerate(t.body) if any(isinstance(c, ast.Call) and
           astq.call_last(c) == 'execute' for c in ast.walk(st))]
    run.check('R7', val and exe and min(val) < min(exe), 'validate and execute are both under '
              'the replying handlers', f, t)
    # invalid JSON -> INVALID_JSON reply; unknown command -> UNKNOWN_COMMAND reply
    txt = norm_text(f.node)
    run.check('R7', 'errors.INVALID_JSON' in txt and 'errors.UNKNOWN_COMMAND' in txt,
              'invalid JSON and unknown commands have their own errno', f, f.node)


# -- R8 / R9 --------------------------------------------------------------------
def r8(run, ctx):
    run.rule('R8', 'client id filter')
    run.rule('R9', 'client timeout')
    for key in ('circus.client:CircusClient.call', 'circus.client:AsyncCircusClient.call'):
        f = ctx.fn(key)
        cfg = ctx.cfg(f)
        rets = []
        for n in ctx.live_nodes(f):
            if n.kind != 'stmt':
                continue
            if isinstance(n.ast, ast.Return) and n.ast.value is not None:
                rets.append(n)
            elif n.tag == 'gen_return':
                rets.append(n)
        run.need('R8', rets, 'value return in %s' % f.qualname, f)

        def id_match(e):
            if isinstance(e, ast.Compare) and len(e.ops) == 1 and \
                    isinstance(e.ops[0], (ast.Eq, ast.NotEq)):
                a, b = norm_text(e.left), norm_text(e.comparators[0])
                pair = {a, b}
                if any('call_id' == x for x in pair) and any(
                        x.endswith(".get('id')") or x.endswith("['id']") for x in pair):
                    return isinstance(e.ops[0], ast.Eq)
            return None
        for rn in rets:
            run.check('R8', guarded(cfg, rn, id_match, True), 'a reply is returned only when its '
                      'id equals the call id', f, rn.ast,
                      'call() can return a stale or foreign reply (no id comparison on the path)')
        # call_id is fresh and put into the request
        txt = norm_text(f.node)
        run.check('R8', 'uuid.uuid4()' in txt and "cmd['id'] = call_id" in txt,
                  'each call tags the request with a fresh id', f, f.node)
        # undecodable reply -> CallError
        loads = [t for t in ast.walk(f.node) if isinstance(t, ast.Try) and any(
            isinstance(c, ast.Call) and dotted(c.func) in ('json.loads',) for st in t.body
            for c in ast.walk(st))]
        okc = False
        for t in loads:
            for h in t.handlers:
                if 'ValueError' in _handler_names(h) and 'CallError' in ' '.join(
                        norm_text(s_) for s_ in h.body):
                    okc = True
        run.check('R8', okc, 'an undecodable reply raises CallError', f, f.node)
        # R9 timeout
        uses = [n for n in ast.walk(f.node) if isinstance(n, ast.Attribute) and
                n.attr in ('timeout', '_timeout')]
        if not uses:
            run.fail('R9', f, f.node, 'the configured timeout is never consulted: a lost reply '
                     'blocks the caller forever', construct='timeout unused in %s' % f.qualname)
        else:
            # the poll is given the timeout - as is, or what is left of it (a value computed
            # from it, seen through the locals)
            from sa.dataflow import reaching_defs
            rdc = reaching_defs(ctx, f)
            polls = [n for n in ctx.live_nodes(f) if any(
                astq.call_last(c) == 'poll' and c.args and
                any('timeout' in a.text() for a in rdc.expand(n, c.args[0]))
                for c in n.calls())]
            run.check('R9', bool(polls), 'the timeout bounds the receive', f, f.node)

            def no_events(e):
                """truth of e when the poll returned nothing"""
                if isinstance(e, ast.Compare) and len(e.ops) == 1 and \
                        norm_text(e.left) == 'len(events)':
                    k = astq.const_value(e.comparators[0], None)
                    op = type(e.ops[0])
                    if (op, k) in ((ast.Eq, 0), (ast.LtE, 0), (ast.Lt, 1)):
                        return True
                    if (op, k) in ((ast.Gt, 0), (ast.NotEq, 0), (ast.GtE, 1)):
                        return False
                if isinstance(e, ast.Name) and e.id == 'events':
                    return False
                return None
            loops = [t for t in cfg.nodes if t.kind == 'test' and isinstance(t.stmt, ast.While)]
            raises = [n for n in ctx.live_nodes(f) if n.kind == 'stmt' and
                      isinstance(n.ast, ast.Raise) and 'CallError' in norm_text(n.ast)]
            for p in polls:
                r = reach_under(cfg, p, no_events, avoid=raises, labels_excluded=('exc',))
                again = p.id in r
                run.check('R9', not again, 'an expired poll leaves the loop by raising', f, p.ast,
                          'after a timeout the client polls again instead of reporting it')


def r11(run, ctx):
    run.rule('R11', 'the dispatcher recognises an operation that completes later')
    # Controller.dispatch answers at once unless the command handed back a Future; the test
    # must name the class of the futures gen.coroutine returns, or every asynchronous
    # operation is "answered" with the Future object itself
    from rules.common import future_tests, coroutine_future_class
    f = ctx.fn(C + 'dispatch')
    ft = future_tests(ctx, f)
    if run.need('R11', ft, 'isinstance(resp, Future) test in dispatch', f,
                'dispatch no longer tells an asynchronous operation from a finished one'):
        for n, e in ft:
            run.check('R11', coroutine_future_class(f, e.args[1]),
                      'the Future test names the class coroutines return', f, n.ast,
                      'dispatch tests the result against %s, not the class of the futures '
                      'gen.coroutine returns: the reply of every asynchronous operation is the '
                      'Future object, which cannot be serialised' % norm_text(e.args[1]),
                      construct='WRONG-FUTURE-CLASS')


def r10(run, ctx):
    run.rule('R10', 'the daemon stops its loop only through a deferred callback')
    # the reply of a waiting quit / restart / reloadconfig is sent from a done-callback of the
    # operation's future, which the loop runs one iteration AFTER the coroutine finished: a
    # loop.stop() called inside the coroutine ends the loop before that iteration, a deferred
    # one (loop.add_callback(loop.stop)) is queued behind the reply
    from rules.common import loop_stop_nodes
    n = 0
    for f in ctx.p.all_functions():
        if not (f.key.startswith('circus.arbiter:') or f.key.startswith('circus.controller:')
                or f.key.startswith('circus.commands.')):
            continue
        for node, deferred in loop_stop_nodes(ctx, f):
            n += 1
            run.check('R10', deferred, '%s stops the loop through add_callback' % f.qualname,
                      f, node.ast,
                      '%s calls loop.stop() directly: the loop ends with the iteration in which '
                      'the operation finished, the done-callback that sends the reply of a waiting '
                      'quit/restart is never run and the client times out' % f.qualname,
                      construct='loop stopped synchronously')
    run.count('R10', n, 3, 'loop-stop sites in arbiter/controller/commands')
