"""C08 - shutdown is complete."""
import ast

from sa import astq
from sa.astq import norm_text, ev_setattr
from sa.idioms import (guarded, reach_under, combine, attr_truth, nodes_within,
                       may_end_with_none, must_end_with_none, branch_starts, eq_test)
from sa.project import dotted, walk_local, AnalysisError

EXPLANATION = (    "Shutdown chain decided on the source: R1 SIGINT/SIGTERM/SIGQUIT are in the "
    "registered signal table, installed with the dispatching handler, mapped to "
    "handle_<name> methods that reach quit(), which posts a quit dispatch with "
    "add_callback_from_signal; R2 no function on the path signal -> dispatch -> "
    "Quit.execute -> Arbiter.stop can refuse with ConflictError without a retry; "
    "R3 Arbiter.stop sets _stopping, awaits _stop_watchers(close_output_streams="
    "True), then schedules the loop stop; Arbiter.start runs the loop inside a "
    "try whose finally closes controller and sockets; "
    "stop_controller_and_close_sockets closes controller, event socket and all "
    "managed sockets on every path; Controller.stop stops the periodic callback "
    "and closes stream and socket; R4 CircusSocket.close closes and unlinks unix "
    "paths, close_all visits every socket; R5 circusd.main unlinks the pid file "
    "in the finally of the run loop when not restarting and ends in sys.exit(0); "
    "R6 Pidfile.validate returns a pid only after a successful kill(pid, 0) and "
    "None for ESRCH / garbled / empty / <=0 / missing; create refuses only a "
    "live foreign pid and does so before opening the file."
    "R3 also requires Arbiter.stop to hold the exclusive slot for its whole duration (decorator order); R6 also requires that the only probe error meaning 'stale' is ESRCH. "
    "Decides these "
    "necessary conditions, not the state left on the machine.")
ASSUMPTIONS = ["posix platform"]

A = 'circus.arbiter:Arbiter.'
C = 'circus.controller:Controller.'
H = 'circus.sighandler:SysHandler.'
S = 'circus.sockets:CircusSocket.'
SS = 'circus.sockets:CircusSockets.'
PF = 'circus.pidfile:Pidfile.'
W = 'circus.watcher:Watcher.'


def check(run, ctx):
    run.each(ctx, [r1, r2, r3, r4, r5, r6, r7, r8])


def r7(run, ctx):
    from rules import c03
    run.share(ctx, c03.r5_standalone, 'R5', 'R7', 'the final SIGKILL reaches the worker and its '
              'descendants whatever happens to single children (shared with C03 R5): the '
              'shutdown waits in the reap loop for every worker, so a lost SIGKILL means circusd '
              'never exits and leaves its pid file and unix sockets behind')


def r1(run, ctx):
    run.rule('R1', 'termination signals: registered, mapped, reach quit()')
    cls = ctx.p.cls('circus.sighandler:SysHandler')
    names = cls.attr('_SIGNALS_NAMES')
    posix = None
    if isinstance(names, ast.Constant):
        posix = names.value           # (the POSIX side of a platform switch)
    if not isinstance(posix, str):
        raise AnalysisError('C08 R1: unrecognised _SIGNALS_NAMES form')
    regd = posix.split()
    sigs = cls.attr('SIGNALS')
    def built_from_names(e):
        # [getattr(signal, <'SIG' joined with x>) for x in _SIGNALS_NAMES.split()], however
        # the name is assembled (%, +, format, f-string)
        if not (isinstance(e, (ast.ListComp, ast.GeneratorExp)) or
                (isinstance(e, ast.Call) and dotted(e.func) in ('list', 'tuple') and e.args and
                 isinstance(e.args[0], (ast.ListComp, ast.GeneratorExp)))):
            return False
        comp = e if isinstance(e, (ast.ListComp, ast.GeneratorExp)) else e.args[0]
        if len(comp.generators) != 1 or comp.generators[0].ifs or \
                not isinstance(comp.generators[0].target, ast.Name) or \
                norm_text(comp.generators[0].iter) != '_SIGNALS_NAMES.split()':
            return False
        var = comp.generators[0].target.id
        el = comp.elt
        if not (isinstance(el, ast.Call) and dotted(el.func) == 'getattr' and len(el.args) == 2
                and norm_text(el.args[0]) == 'signal'):
            return False
        parts = list(ast.walk(el.args[1]))
        return any(isinstance(x, ast.Constant) and isinstance(x.value, str) and
                   x.value.startswith('SIG') for x in parts) and \
            any(isinstance(x, ast.Name) and x.id == var for x in parts)
    run.check('R1', sigs is not None and built_from_names(sigs),
              'SIGNALS is built from every listed name', None, 'SysHandler.SIGNALS')
    reg = ctx.fn(H + '_register')
    cfg = ctx.cfg(reg)
    inst = [n for n in ctx.live_nodes(reg) if any(
        dotted(c.func) == 'signal.signal' and len(c.args) == 2 and
        norm_text(c.args[1]) == 'self.signal' for c in n.calls())]
    okl = False
    for n in inst:
        hdr = [h for h in cfg.nodes if h.kind == 'iter' and n.id in cfg.branch_nodes(h, 'true')]
        if hdr and norm_text(hdr[0].ast.iter) == 'self.SIGNALS':
            start = [cfg.nodes[i] for i, lab in cfg.succ[hdr[0].id] if lab == 'true']
            okl = hdr[0].id not in cfg.reach(start, avoid=[n], include_src=True)
    run.check('R1', okl, 'the dispatching handler is installed for every registered signal',
              reg, reg.node, 'not every registered signal gets the dispatching handler')
    init = ctx.fn(H + '__init__')
    run.check('R1', bool(ctx.nodes_calling(init, [H + '_register'])), 'handlers are installed '
              'at construction', init, init.node)
    sn = cls.attr('SIG_NAMES')
    run.check('R1', sn is not None and astq.has_pattern(sn, '$n[3:].lower()'),
              'SIG_NAMES maps SIGX to x', None, 'SysHandler.SIG_NAMES')
    sig = ctx.fn(H + 'signal')
    def dispatch_lookup(fnode):
        # getattr(self, <'handle_' joined with the signal's name>[, default]), however the
        # attribute name is assembled
        for x in ast.walk(fnode):
            if isinstance(x, ast.Call) and dotted(x.func) == 'getattr' and len(x.args) in (2, 3) \
                    and norm_text(x.args[0]) == 'self':
                parts = list(ast.walk(x.args[1]))
                if any(isinstance(y, ast.Constant) and isinstance(y.value, str) and
                       y.value.startswith('handle_') for y in parts) and \
                        any(isinstance(y, ast.Name) for y in parts):
                    return True
        return False
    run.check('R1', dispatch_lookup(sig.node),
              'the handler dispatches to handle_<name>', sig, sig.node)
    quit_ = ctx.fn(H + 'quit')
    for s in ('INT', 'TERM', 'QUIT'):
        run.check('R1', s in regd, 'SIG%s is registered' % s, None, '_SIGNALS_NAMES',
                  'SIG%s is not in the registered signal table: the default action kills the '
                  'daemon without any cleanup' % s)
        hk = H + 'handle_' + s.lower()
        if not ctx.p.has_fn(hk):
            run.fail('R1', quit_, quit_.node, 'no handle_%s method: SIG%s is swallowed by the '
                     'dispatching handler (AttributeError ignored)' % (s.lower(), s),
                     construct='missing handle_%s' % s.lower())
            continue
        h = ctx.fn(hk)
        c2 = ctx.cfg(h)
        qn = ctx.nodes_calling(h, [quit_.key])
        run.check('R1', bool(qn) and c2.must_pass(c2.entry, [c2.exit], qn),
                  'handle_%s always requests quit' % s.lower(), h, h.node,
                  'SIG%s does not (always) lead to a quit request' % s)
    # quit posts a quit dispatch through the signal-safe API
    okq = False
    for n in ctx.live_nodes(quit_):
        for c in n.calls():
            if astq.call_last(c) == 'add_callback_from_signal' and len(c.args) >= 2:
                tgt = norm_text(c.args[0])
                payload = norm_text(c.args[1])
                okq = tgt.endswith('controller.dispatch') and "make_json('quit')" in payload \
                    and payload.startswith('(None,')
    run.check('R1', okq, 'quit() posts dispatch((None, quit)) with add_callback_from_signal',
              quit_, quit_.node)


def r2(run, ctx):
    run.rule('R2', 'a termination request cannot be refused')
    qe = ctx.fn('circus.commands.quit:Quit.execute')
    callees = [t for t, s in ctx.cg.callees(qe, kinds=('call',)) if t.key.startswith(A)]
    run.count('R2', len(callees), 1, 'arbiter function called by Quit.execute')
    disp = ctx.fn(C + 'dispatch')
    retry = 'add_callback' in norm_text(disp.node) or 'call_later' in norm_text(disp.node)
    for t in callees:
        refused = bool(t.synchronized)
        run.check('R2', (not refused) or retry, 'the shutdown entry point cannot raise '
                  'ConflictError (or dispatch retries it)', t, t.node.decorator_list[0]
                  if t.node.decorator_list else t.node,
                  'SIGTERM/SIGINT/SIGQUIT while any exclusive operation (e.g. the periodic check '
                  'waiting out a graceful_timeout) holds the slot: %s is @synchronized, dispatch '
                  'maps the ConflictError to a reply for a null client id, and the signal is '
                  'silently lost' % t.qualname,
                  construct='synchronized %s on the signal path' % t.qualname)


def _yielded(ctx, f, keys):
    return [s.node for s in ctx.sites_calling(f, keys) if astq.call_is_yielded(s.node, s.call)]


def r3(run, ctx):
    run.rule('R3', 'shutdown chain order')
    f = ctx.fn(A + 'stop')
    cfg = ctx.cfg(f)
    sw = ctx.sites_calling(f, [A + '_stop_watchers'])
    run.need('R3', sw, '_stop_watchers call in Arbiter.stop', f)
    for s in sw:
        v = astq.kwarg(s.call, 'close_output_streams', 0)
        run.check('R3', astq.const_value(v, None) is True and astq.call_is_yielded(s.node, s.call),
                  'shutdown stops all watchers, closing their output streams, and waits', f,
                  s.node.ast)
    ys = [s.node for s in sw if astq.call_is_yielded(s.node, s.call)]
    from rules.common import loop_stop_nodes
    sched = [n for n in ctx.live_nodes(f) if any(
        astq.call_last(c) == 'add_callback' for c in n.calls())]
    sched += [n for n, deferred in loop_stop_nodes(ctx, f) if not deferred and n not in sched]
    run.need('R3', sched, 'loop-stop / close scheduling in Arbiter.stop', f)
    run.check('R3', cfg.must_pass(cfg.entry, [cfg.exit], sched, labels_excluded=('exc',)),
              'every normal path of Arbiter.stop schedules the loop stop (or the close for a '
              'provided loop)', f, f.node, 'Arbiter.stop can complete without stopping the loop: '
              'the daemon never exits')
    for n in sched:
        run.check('R3', cfg.dominates(ys, n), 'the loop is stopped only after the watchers', f,
                  n.ast)
        for c in n.calls():
            if astq.call_last(c) == 'add_callback':
                a = norm_text(c.args[0]) if c.args else ''
                run.check('R3', a in ('self.loop.stop', 'cb', 'self.stop_controller_and_close_sockets'),
                          'what is scheduled is the loop stop or the socket close', f, n.ast)
    si, ci = f.deco_index('synchronized'), f.deco_index('coroutine')
    run.check('R3', si is None or ci is None or si < ci, 'the shutdown keeps the exclusive slot '
              'until it is complete (synchronized wraps the coroutine)', f,
              f.node.decorator_list[0] if f.node.decorator_list else f.node,
              'gen.coroutine wraps synchronized on Arbiter.stop: the slot is released as soon as '
              'the shutdown starts, a second termination signal re-enters the stop, reaches '
              "reap_process's busy-wait on a worker still in its grace period and the daemon "
              'never exits', construct='Arbiter.stop decorator order')
    # Arbiter.start: finally closes
    st = ctx.fn(A + 'start')
    cfg = ctx.cfg(st)
    loopn = ctx.nodes_calling(st, [A + 'start_io_loop'])
    closes = ctx.nodes_calling(st, [A + 'stop_controller_and_close_sockets'])
    if run.need('R3', loopn, 'start_io_loop call in Arbiter.start', st) and \
            run.need('R3', closes, 'stop_controller_and_close_sockets call in Arbiter.start', st):
        assume = attr_truth('_provided_loop', False)
        for n in loopn:
            r = reach_under(cfg, n, assume, avoid=closes)
            bad = cfg.exit.id in r or cfg.raise_exit.id in r
            run.check('R3', not bad, 'when the daemon owns the loop, controller and sockets are '
                      'closed on every way out of the loop (also on error)', st, n.ast,
                      'the loop can end (normally or by an exception) without closing the '
                      'controller and the managed sockets')
    # stop_controller_and_close_sockets
    sc = ctx.fn(A + 'stop_controller_and_close_sockets')
    cfg = ctx.cfg(sc)
    want = {
        'ctrl.stop()': ctx.nodes_calling(sc, [C + 'stop']),
        'evpub_socket.close()': [n for n in ctx.live_nodes(sc) if any(
            astq.call_last(c) == 'close' and 'evpub_socket' in norm_text(c.func) for c in n.calls())],
        'sockets.close_all()': ctx.nodes_calling(sc, [SS + 'close_all']),
    }

    def nonempty(e):
        if isinstance(e, ast.Compare) and 'len(self.sockets)' in norm_text(e.left):
            return True
        # "there is something to close": <the object> is not None / truthy
        if isinstance(e, ast.Compare) and len(e.ops) == 1 and \
                isinstance(e.ops[0], (ast.Is, ast.IsNot)) and \
                astq.const_value(e.comparators[0], 0) is None and \
                any(k in norm_text(e.left) for k in ('evpub_socket', 'ctrl', 'sockets')):
            return isinstance(e.ops[0], ast.IsNot)
        if isinstance(e, ast.Attribute) and e.attr in ('evpub_socket', 'ctrl', 'sockets'):
            return True
        return None
    for name, ns in want.items():
        if run.need('R3', ns, '%s in stop_controller_and_close_sockets' % name, sc):
            r = reach_under(cfg, cfg.entry, nonempty, avoid=ns, labels_excluded=('exc',))
            run.check('R3', cfg.exit.id not in r, '%s runs on every path' % name, sc, ns[0].ast,
                      '%s can be skipped at shutdown' % name)
    # Controller.stop
    cs = ctx.fn(C + 'stop')
    cfg = ctx.cfg(cs)
    parts = {
        'periodic callback stop': [n for n in ctx.live_nodes(cs) if any(
            astq.call_last(c) == 'stop' and 'caller' in norm_text(c.func) for c in n.calls())],
        'stream close': [n for n in ctx.live_nodes(cs) if any(
            astq.call_last(c) == 'close' and 'stream' in norm_text(c.func) for c in n.calls())],
        'control socket close': [n for n in ctx.live_nodes(cs) if any(
            astq.call_last(c) == 'close' and 'ctrl_socket' in norm_text(c.func) for c in n.calls())],
        'signal handlers restored': ctx.nodes_calling(cs, [H + 'stop']),
    }
    assume = combine(attr_truth('started', True),
                     lambda e: (True if isinstance(e, ast.Compare) and 'caller' in
                                norm_text(e.left) and isinstance(e.ops[0], ast.IsNot) else None))
    for name, ns in parts.items():
        if run.need('R3', ns, '%s in Controller.stop' % name, cs):
            lab = ('exc',) if name != 'control socket close' else ()
            r = reach_under(cfg, cfg.entry, assume, avoid=ns, labels_excluded=('exc',))
            run.check('R3', cfg.exit.id not in r, 'Controller.stop: %s on every path of a '
                      'started controller' % name, cs, ns[0].ast)


def r4(run, ctx):
    run.rule('R4', 'unix socket paths are unlinked; every socket is closed')
    f = ctx.fn(S + 'close')
    cfg = ctx.cfg(f)
    sup = [n for n in ctx.live_nodes(f) if any(
        astq.call_last(c) == 'close' and isinstance(c.func.value, ast.Call) and
        dotted(c.func.value.func) == 'super' for c in n.calls() if isinstance(c.func, ast.Attribute))]
    rm = [n for n in ctx.live_nodes(f) if any(
        dotted(c.func) in ('os.remove', 'os.unlink') and c.args and
        norm_text(c.args[0]) == 'self.path' for c in n.calls())]
    if run.need('R4', sup, 'super().close() in CircusSocket.close', f):
        run.check('R4', cfg.must_pass(cfg.entry, [cfg.exit], sup), 'the descriptor is always '
                  'closed', f, sup[0].ast)
    if run.need('R4', rm, 'removal of self.path in CircusSocket.close', f,
                'unix socket files are left behind at shutdown'):
        assume = combine(attr_truth('is_unix', True),
                         lambda e: (True if isinstance(e, ast.Call) and
                                    dotted(e.func) == 'os.path.exists' else None))
        r = reach_under(cfg, cfg.entry, assume, avoid=rm, labels_excluded=('exc',))
        run.check('R4', cfg.exit.id not in r, 'an existing unix socket file is removed on close',
                  f, rm[0].ast, 'a unix socket can be closed without removing its file')
    g = ctx.fn(SS + 'close_all')
    c2 = ctx.cfg(g)
    cl = ctx.nodes_calling(g, [f.key])
    if run.need('R4', cl, 'sock.close() in close_all', g):
        hdr = [h for h in c2.nodes if h.kind == 'iter' and cl[0].id in c2.branch_nodes(h, 'true')]
        okk = bool(hdr) and norm_text(hdr[0].ast.iter) in ('self.values()', 'list(self.values())')
        if okk:
            start = [c2.nodes[i] for i, lab in c2.succ[hdr[0].id] if lab == 'true']
            okk = hdr[0].id not in c2.reach(start, avoid=cl, include_src=True)
        run.check('R4', okk, 'close_all closes every managed socket', g, cl[0].ast,
                  'close_all skips some sockets')


def r8(run, ctx):
    run.rule('R8', 'a managed socket leaves the table only closed')
    # close_all at shutdown closes (and unlinks) what is in the table: a socket that a
    # reloadconfig drops or replaces must be closed when it leaves the table, or its
    # descriptor and its unix-socket file outlive the daemon
    f = ctx.fn(A + 'reload_from_config')
    cfg = ctx.cfg(f)
    closes = [n for n in ctx.live_nodes(f) for c in n.calls()
              if astq.call_last(c) == 'close' and isinstance(c.func, ast.Attribute)]
    dels = [n for n in ctx.live_nodes(f) if n.kind == 'stmt' and isinstance(n.ast, ast.Delete) and
            any(isinstance(t, ast.Subscript) and norm_text(t.value) == 'self.sockets'
                for t in n.ast.targets)]
    if not run.need('R8', dels, 'removal of a socket from the table in reload_from_config', f,
                    'sockets deleted from the configuration stay in the table'):
        return
    for d in dels:
        hdr = [h for h in cfg.nodes if h.kind == 'iter' and d.id in cfg.branch_nodes(h, 'true')]
        if not run.need('R8', hdr, 'loop over the sockets to drop', f):
            continue
        h = hdr[-1]
        start = [cfg.nodes[i] for i, lab in cfg.succ[h.id] if lab == 'true']
        body = cfg.branch_nodes(h, 'true')
        cl_in = [c for c in closes if c.id in body]
        nxt = cfg.reach(start, avoid=cl_in, include_src=True,
                        labels_excluded=('exc', 'raise', 'reraise'))
        run.check('R8', bool(cl_in) and h.id not in nxt,
                  'every socket of the drop loop is closed', f, d.ast,
                  'reload_from_config can go on to the next dropped / replaced socket without '
                  'closing this one: the old socket stays bound, is no longer in the table that '
                  'shutdown closes, and its unix-socket file is left behind when the daemon exits',
                  construct='SOCKET-DROPPED-UNCLOSED')
        nxt = cfg.reach(start, avoid=[d], include_src=True,
                        labels_excluded=('exc', 'raise', 'reraise'))
        run.check('R8', h.id not in nxt, 'every socket of the drop loop leaves the table', f,
                  d.ast, 'a dropped / replaced socket can stay in the table (its replacement '
                  'overwrites the entry, the old object is lost unclosed)',
                  construct='SOCKET-NOT-REMOVED')


def r5(run, ctx):
    run.rule('R5', 'pid file removed and exit status 0')
    m = ctx.fn('circus.circusd:main')
    cfg = ctx.cfg(m)
    un = ctx.nodes_calling(m, [PF + 'unlink'])
    startn = ctx.nodes_calling(m, [A + 'start'])
    if not (run.need('R5', un, 'pidfile.unlink() in circusd.main', m) and
            run.need('R5', startn, 'arbiter.start() in circusd.main', m)):
        return

    def assume(e):
        t = norm_text(e)
        if t == 'restart is False':
            return True
        if t == 'pidfile is not None':
            return True
        if t == 'restart':
            return False
        return None
    for n in startn:
        r = reach_under(cfg, n, assume, avoid=un)
        bad = [x for x in (cfg.exit, cfg.raise_exit) if x.id in r]
        # sys.exit nodes count as exits too
        exits = [x for x in ctx.live_nodes(m) if any(dotted(c.func) == 'sys.exit' for c in x.calls())]
        bad += [x for x in exits if x.id in r]
        run.check('R5', not bad, 'whenever the daemon is not restarting, every way out of the run '
                  'loop (return, exception, KeyboardInterrupt) unlinks the pid file', m, n.ast,
                  'the daemon can exit leaving its pid file behind',
                  path=ctx.path_text(m, cfg.path(n, bad[0], avoid=un) or []) if bad else None)
    # the restart flag is decided anew after every run: a run that ended (with or without
    # an error in its clean-up) must not inherit it from the iteration before
    flags = set()
    for d in ctx.live_nodes(m):
        if d.kind == 'stmt' and isinstance(d.ast, ast.Assign) and \
                '_restarting' in norm_text(d.ast.value):
            flags |= {x.id for x in astq.attr_targets(d.ast) if isinstance(x, ast.Name)}
    if run.need('R5', sorted(flags), 'restart flag taken from arbiter._restarting', m,
                'the run loop never learns that a restart was requested'):
        defs = [d for d in ctx.live_nodes(m) if d.kind == 'stmt' and
                isinstance(d.ast, (ast.Assign, ast.AugAssign)) and any(
                    isinstance(x, ast.Name) and x.id in flags for x in astq.attr_targets(d.ast))]
        reads = [x for x in ctx.live_nodes(m) if x not in defs and x.ast is not None and any(
            isinstance(y, ast.Name) and y.id in flags and isinstance(y.ctx, ast.Load)
            for y in x.walk())]
        for n in startn:
            nxt = [cfg.nodes[i] for i, lab in cfg.succ[n.id] if lab not in ('exc', 'raise')]
            r = cfg.reach(nxt, avoid=defs, labels_excluded=('exc', 'raise', 'reraise'),
                          include_src=True)
            stale = [x for x in reads if x.id in r]
            run.check('R5', not stale, 'after arbiter.start() has returned the restart flag is '
                      'assigned before it is looked at', m, n.ast,
                      'when arbiter.start() returns, the run loop can look at the restart flag '
                      'left from before the run (True): after an accepted quit whose clean-up '
                      'logged an error the daemon starts all over instead of exiting, and keeps '
                      'its pid file', construct='restart flag not reset after a run')
    # the unlink is in a finally
    fin = [t for t in ast.walk(m.node) if isinstance(t, ast.Try) and any(
        isinstance(c, ast.Call) and astq.call_last(c) == 'unlink'
        for st in t.finalbody for c in ast.walk(st))]
    run.check('R5', bool(fin), 'the unlink is in the finally of the run loop', m, un[0].ast)
    # final statement: sys.exit(0)
    # every normal way out after the run loop passes sys.exit(0)
    exit0 = [x for x in ctx.live_nodes(m) if any(
        dotted(c.func) == 'sys.exit' and c.args and astq.const_value(c.args[0], None) == 0
        for c in x.calls())]
    ok = False
    for n in startn:
        r = cfg.reach(n, avoid=exit0, labels_excluded=('exc', 'raise', 'reraise'))
        ok = cfg.exit.id not in r and bool(exit0)
    run.check('R5', ok, 'a completed shutdown exits with status 0', m,
              exit0[-1].ast if exit0 else m.node,
              'after a clean shutdown the daemon does not exit with status 0')
    # exit statuses after the pid file exists
    created = ctx.nodes_calling(m, [PF + 'create'])
    for x in ctx.live_nodes(m):
        for c in x.calls():
            if dotted(c.func) == 'sys.exit' and c.args and created and \
                    cfg.dominates(startn, x):
                run.check('R5', astq.const_value(c.args[0], None) == 0,
                          'exits after the run loop use status 0', m, x.ast)


def r6(run, ctx):
    run.rule('R6', 'pid-file outcome table')
    v = ctx.fn(PF + 'validate')
    cfg = ctx.cfg(v)
    rets = [n for n in ctx.live_nodes(v) if n.kind == 'stmt' and isinstance(n.ast, ast.Return)]
    nonnull = [n for n in rets if n.ast.value is not None and
               astq.const_value(n.ast.value, 'x') is not None]
    kills = [n for n in ctx.live_nodes(v) if any(
        dotted(c.func) == 'os.kill' and len(c.args) == 2 and
        astq.const_value(c.args[1], None) == 0 for c in n.calls())]
    if run.need('R6', kills, 'os.kill(pid, 0) probe in validate', v) and \
            run.need('R6', nonnull, 'a pid-returning path in validate', v):
        for n in nonnull:
            # reached only through the *normal* completion of the probe
            r = cfg.reach(cfg.entry, avoid=kills)
            ok = n.id not in r
            exc_after = set()
            for k in kills:
                for nxt, lab in cfg.succ[k.id]:
                    if lab == 'exc':
                        exc_after |= cfg.reach(cfg.nodes[nxt], include_src=True)
            # ... or from the handler of a probe that failed with EPERM: the process exists
            # and belongs to somebody else
            def eperm(e):
                if isinstance(e, ast.Compare) and len(e.ops) == 1:
                    names = {dotted(x) for x in [e.left] + list(e.comparators)}
                    if 'errno.EPERM' in names and isinstance(e.ops[0], (ast.Eq, ast.NotEq)):
                        return isinstance(e.ops[0], ast.Eq)
                    c0 = e.comparators[0]
                    if isinstance(e.ops[0], (ast.In, ast.NotIn)) and \
                            isinstance(c0, (ast.Tuple, ast.List, ast.Set)) and \
                            [dotted(x) for x in c0.elts] == ['errno.EPERM']:
                        return isinstance(e.ops[0], ast.In)
                return None
            via_eperm = n.id in exc_after and guarded(cfg, n, eperm, True)
            run.check('R6', ok and (n.id not in exc_after or via_eperm),
                      'a pid is reported live only after a successful kill(pid, 0) (or one '
                      'refused with EPERM)', v, n.ast,
                      'validate can report a pid as live without a successful probe')
            run.check('R6', isinstance(n.ast.value, ast.Name) and any(
                isinstance(c.args[0], ast.Name) and c.args[0].id == n.ast.value.id
                for k in kills for c in k.calls() if dotted(c.func) == 'os.kill'),
                'the pid returned is the one probed', v, n.ast)
    # error outcomes -> None, decided on paths: a handler "means stale" when the
    # function can end without a value from it
    src = norm_text(v.node)
    hs = {}
    for t in ast.walk(v.node):
        if isinstance(t, ast.Try):
            for h in t.handlers:
                for nm in ([dotted(e) for e in h.type.elts] if isinstance(h.type, ast.Tuple)
                           else [dotted(h.type)] if h.type is not None else ['*']):
                    hs.setdefault(nm, []).append(h)

    def hnode(h):
        return [n for n in cfg.nodes if n.kind == 'except' and n.ast is h]

    def errnos(test):
        """(errno names compared, True if the test is true exactly for them)"""
        out, pos = set(), None
        for e in ast.walk(test):
            if isinstance(e, ast.Compare) and len(e.ops) == 1:
                c = e.comparators[0]
                op = e.ops[0]
                names = set()
                if isinstance(op, (ast.Eq, ast.NotEq)):
                    for x in (c, e.left):
                        if (dotted(x) or '').startswith('errno.'):
                            names.add(dotted(x))
                if isinstance(op, (ast.In, ast.NotIn)) and \
                        isinstance(c, (ast.Tuple, ast.List, ast.Set)):
                    names |= {dotted(x) for x in c.elts if (dotted(x) or '').startswith('errno.')}
                if names:
                    out |= names
                    pos = isinstance(op, (ast.Eq, ast.In))
        return out, pos

    def stale_errnos(h):
        """errno names for which handler h lets validate() end with None;
        'ALL' when it does so whatever the errno"""
        inside = nodes_within(cfg, h.body)
        tests = [t for t in inside if t.kind == 'test' and errnos(t.ast)[0]]
        if not tests:
            return {'ALL'} if may_end_with_none(cfg, hnode(h)) else set()
        out = set()
        for t in tests:
            names, pos = errnos(t.ast)
            for lab in ('true', 'false'):
                if may_end_with_none(cfg, branch_starts(cfg, t, lab)):
                    out |= names if (lab == 'true') == pos else {'ALL'}
        return out
    run.check('R6', any(must_end_with_none(cfg, hnode(h)) for h in hs.get('ValueError', [])),
              'garbled contents -> stale (None)', v, v.node,
              'a garbled pid file is not taken over')
    run.check('R6', any('errno.ESRCH' in stale_errnos(h) for h in hs.get('OSError', [])),
              'no such process (ESRCH) -> stale (None)', v, v.node,
              'a pid file naming a dead process is not taken over')

    # the only probe failure that means "stale" is ESRCH (EPERM = alive, owned by someone else)
    def innermost(t):
        return not any(isinstance(x, ast.Try) and x is not t and any(
            isinstance(c, ast.Call) and dotted(c.func) == 'os.kill' for c in ast.walk(x))
            for st in t.body for x in ast.walk(st))
    for t in ast.walk(v.node):
        if isinstance(t, ast.Try) and innermost(t) and any(
                isinstance(c, ast.Call) and dotted(c.func) == 'os.kill'
                for st in t.body for c in ast.walk(st)):
            for h in t.handlers:
                hn_ = [dotted(e) for e in h.type.elts] if isinstance(h.type, ast.Tuple) else \
                    [dotted(h.type)] if h.type is not None else ['*']
                if not any(x in ('*', 'Exception', 'BaseException', 'OSError', 'IOError',
                                 'EnvironmentError', 'PermissionError', 'ProcessLookupError')
                           for x in hn_):
                    continue      # not an answer of the kernel (OverflowError: no such pid_t)
                stale = stale_errnos(h)
                run.check('R6', stale == {'errno.ESRCH'},
                          'a failed liveness probe means "stale" only for ESRCH; any other error '
                          '(EPERM = the process exists) is not a take-over', v, h,
                          'probe errors %s are treated as "no such process": a pid file naming a '
                          'live process of another user is taken over and later unlinked'
                          % sorted(stale), construct='probe errnos treated as stale')
    run.check('R6', any('errno.ENOENT' in stale_errnos(h) for h in
                        hs.get('IOError', []) + hs.get('OSError', []) + hs.get('FileNotFoundError', [])),
              'missing file (ENOENT) -> None', v, v.node)

    def positive(e):
        """atom: truth of `pid > 0` when e is a comparison of a name with 0/1"""
        if isinstance(e, ast.Compare) and len(e.ops) == 1 and isinstance(e.left, ast.Name):
            k = astq.const_value(e.comparators[0], None)
            op = type(e.ops[0])
            if (op, k) in ((ast.Gt, 0), (ast.GtE, 1)):
                return True
            if (op, k) in ((ast.LtE, 0), (ast.Lt, 1)):
                return False
        return None
    run.check('R6', bool(kills) and all(guarded(cfg, k, positive, True) for k in kills),
              'an empty or non-positive pid is never probed', v, v.node,
              'pid 0 / negative pids are probed with kill (process groups!)')
    zero = [n for n in ctx.live_nodes(v) if n.kind == 'stmt' and isinstance(n.ast, ast.Assign)
            and astq.const_value(n.ast.value, None) == 0 and
            any(isinstance(c.args[0], ast.Name) and isinstance(n.ast.targets[0], ast.Name) and
                c.args[0].id == n.ast.targets[0].id
                for k in kills for c in k.calls() if dotted(c.func) == 'os.kill')]
    run.check('R6', 'or 0' in src or bool(zero), 'an empty file reads as 0', v, v.node)
    # create
    c = ctx.fn(PF + 'create')
    cfg = ctx.cfg(c)
    val = ctx.nodes_calling(c, [v.key])
    raises = [n for n in ctx.live_nodes(c) if n.kind == 'stmt' and isinstance(n.ast, ast.Raise)
              and n.ast.exc is not None and
              guarded(cfg, n, lambda e: True if norm_text(e) == 'oldpid' else None, True)]
    opens = [n for n in ctx.live_nodes(c) if any(dotted(x.func) in ('os.open', 'open',
                                                                   'tempfile.mkstemp')
                                                 for x in n.calls())]
    if run.need('R6', val, 'validate() call in create', c) and \
            run.need('R6', raises, 'refusal raise in create', c,
                     'create never refuses: a second daemon overwrites the pid file of a live one') \
            and run.need('R6', opens, 'file open in create', c):
        for o in opens:
            run.check('R6', cfg.dominates(val, o), 'the pid file is validated before it is '
                      'opened', c, o.ast, 'the pid file can be truncated before the live-owner '
                      'check')

        def assume_live_foreign(e):
            t = norm_text(e)
            if t == 'oldpid':
                return True
            eq = eq_test(e, 'oldpid', 'pid')
            if eq is not None:
                return not eq
            return None
        r = reach_under(cfg, cfg.entry, assume_live_foreign, avoid=raises, labels_excluded=('exc',))
        run.check('R6', not any(o.id in r for o in opens) and cfg.exit.id not in r,
                  'a live foreign pid always ends in the refusal', c, raises[0].ast,
                  'create can proceed although the pid file names another live process')

        def assume_stale(e):
            if norm_text(e) == 'oldpid':
                return False
            return None
        r = reach_under(cfg, cfg.entry, assume_stale)
        run.check('R6', not any(x.id in r for x in raises), 'a stale/empty/garbled pid file is '
                  'taken over (no refusal)', c, raises[0].ast)
    m = ctx.fn('circus.circusd:main')
    txt = norm_text(m.node)
    run.check('R6', 'pidfile.create(os.getpid())' in txt and 'except RuntimeError' in txt and
              'sys.exit(1)' in txt, 'circusd refuses to run (exit 1) when create refuses', m, m.node)
