"""C15 - the watcher directory stays coherent; names are unique ignoring case."""
import ast

from sa import astq
from sa.astq import norm_text
from sa.idioms import guarded, reach_under
from sa.project import dotted, walk_local, AnalysisError

EXPLANATION = (
    "Directory discipline (Arbiter.watchers list + _watchers_names dict) decided "
    "on CFGs: R1 in every function that adds to / removes from one structure, "
    "the matching operation on the other lies on every normal path, with no "
    "suspension point between the two, and the dict key is the lower-cased name; "
    "R2 add_watcher returns normally only after both registrations and never "
    "returns an exception instance; R3 every dict insertion is dominated by a "
    "membership test of the lower-cased key whose true branch raises or skips; "
    "R4 every lookup lower-cases the client-supplied name (get_watcher, "
    "_get_watcher, rm_watcher, the glob/regex matcher of start/stop/restart); R5 "
    "list / numwatchers / status / stats read these two structures and nothing "
    "else; R6 rm stops the watcher unless nostop (C02 R6). Coherence over "
    "arbitrary sequences follows by induction over the writers (stated, not "
    "mechanised).")
ASSUMPTIONS = ["Arbiter.__init__ fills the list before initialize() builds the dict"]

A = 'circus.arbiter:Arbiter.'
W = 'circus.watcher:Watcher.'


def check(run, ctx):
    run.each(ctx, [r1, r2, r3, r4, r5, r6])


def _ops(ctx, f):
    """-> (list_adds, list_rems, dict_adds, dict_rems) nodes"""
    la, lr, da, dr = [], [], [], []
    for n in ctx.live_nodes(f):
        for c in n.calls():
            if isinstance(c.func, ast.Attribute) and norm_text(c.func.value) == 'self.watchers':
                if c.func.attr in ('append', 'insert', 'extend'):
                    la.append(n)
                if c.func.attr in ('remove', 'pop', 'clear'):
                    lr.append(n)
            if isinstance(c.func, ast.Attribute) and \
                    norm_text(c.func.value) == 'self._watchers_names':
                if c.func.attr in ('pop', 'popitem', 'clear'):
                    dr.append(n)
                if c.func.attr in ('update', 'setdefault'):
                    da.append(n)
        if n.kind == 'stmt':
            for t in astq.attr_targets(n.ast):
                if isinstance(t, ast.Subscript) and norm_text(t.value) == 'self._watchers_names':
                    (dr if isinstance(n.ast, ast.Delete) else da).append(n)
                if isinstance(t, ast.Subscript) and norm_text(t.value) == 'self.watchers' and \
                        isinstance(n.ast, ast.Delete):
                    lr.append(n)
                if isinstance(t, ast.Attribute) and norm_text(t) == 'self.watchers' and \
                        f.name != '__init__':
                    la.append(n)
    return la, lr, da, dr


def _dict_key(n):
    for c in n.calls():
        if isinstance(c.func, ast.Attribute) and norm_text(c.func.value) == 'self._watchers_names' \
                and c.args:
            return c.args[0]
    if n.kind == 'stmt':
        for t in astq.attr_targets(n.ast):
            if isinstance(t, ast.Subscript) and norm_text(t.value) == 'self._watchers_names':
                return t.slice
    return None


def r1(run, ctx):
    run.rule('R1', 'list and dict move together')
    acls = ctx.p.cls('circus.arbiter:Arbiter')
    writers = 0
    for m in acls.methods.values():
        if m.name == '__init__':
            continue
        la, lr, da, dr = _ops(ctx, m)
        if not (la or lr or da or dr):
            continue
        writers += 1
        cfg = ctx.cfg(m)
        ys = [n for n in ctx.live_nodes(m) if astq.has_yield(n)]
        if m.name == 'initialize':
            # builds the dict from every watcher of the list
            for d in da:
                hdr = [h for h in cfg.nodes if h.kind == 'iter' and d.id in cfg.branch_nodes(h, 'true')]
                okk = bool(hdr) and norm_text(hdr[0].ast.iter) in ('self.iter_watchers()',
                                                                   'self.watchers')
                if okk:
                    start = [cfg.nodes[i] for i, lab in cfg.succ[hdr[0].id] if lab == 'true']
                    okk = hdr[0].id not in cfg.reach(start, avoid=[d], include_src=True)
                run.check('R1', okk, 'initialize indexes every watcher of the list', m, d.ast,
                          'some watchers of the list are not put into the name index')
        else:
            for kind, L, D in (('add', la, da), ('remove', lr, dr)):
                for a, b, an, bn in ((L, D, 'list', 'dict'), (D, L, 'dict', 'list')):
                    for x in a:
                        if cfg.dominates(b, x):
                            between_from = [y for y in b if cfg.reachable(y, x)]
                            rng = set()
                            for y in between_from:
                                rng |= cfg.reach(y, avoid=[x])
                            susp = [s for s in ys if s.id in rng and s not in a and s not in b]
                            run.check('R1', not susp, '%s: %s %s follows the %s %s with no '
                                      'suspension point between' % (m.qualname, an, kind, bn, kind),
                                      m, x.ast, 'the two directory structures disagree while the '
                                      'coroutine is suspended between the two updates')
                            continue
                        r = cfg.reach(x, avoid=b, labels_excluded=('exc',))
                        hdrs = [h for h in cfg.nodes if h.kind == 'iter' and
                                x.id in cfg.branch_nodes(h, 'true')]
                        leak = cfg.exit.id in r or any(h.id in r for h in hdrs)
                        run.check('R1', bool(b) and not leak, '%s: a %s %s is matched by a %s %s '
                                  'on every path' % (m.qualname, an, kind, bn, kind), m, x.ast,
                                  '%s changes the %s without the matching %s update: list, '
                                  'numwatchers, status and stats describe different sets of '
                                  'watchers' % (m.qualname, an, bn))
        from sa.dataflow import reaching_defs
        rdm = reaching_defs(ctx, m)
        for d in da + dr:
            k = _dict_key(d)
            lowered = k is not None and all('.lower()' in a.text() for a in rdm.expand(d, k))
            run.check('R1', lowered, 'the index key is the '
                      'lower-cased name', m, d.ast, 'the name index is keyed by %s (not '
                      'lower-cased): lookups in another letter case miss the watcher'
                      % (norm_text(k) if k is not None else '?'))
    run.count('R1', writers, 3, 'directory writer functions')


def r2(run, ctx):
    run.rule('R2', 'add reports success only when the watcher is registered')
    f = ctx.fn(A + 'add_watcher')
    cfg = ctx.cfg(f)
    la, lr, da, dr = _ops(ctx, f)
    rets = [n for n in ctx.live_nodes(f) if n.kind == 'stmt' and isinstance(n.ast, ast.Return)]
    if not (run.need('R2', la, 'list registration in add_watcher', f) and
            run.need('R2', da, 'dict registration in add_watcher', f)):
        return
    for r in rets:
        v = r.ast.value
        is_exc = isinstance(v, ast.Call) and (dotted(v.func) or '').split('.')[-1].endswith(
            ('Error', 'Exception', 'Exist'))
        run.check('R2', not is_exc, 'exceptions are raised, not returned', f, r.ast,
                  'add_watcher returns an exception instance: the add command answers ok '
                  'although no watcher was created')
        if not is_exc:
            run.check('R2', cfg.dominates(la, r) and cfg.dominates(da, r),
                      'a normal return happens only after both registrations', f, r.ast,
                      'add_watcher can return normally without having registered the watcher')
    r_ = cfg.reach(cfg.entry, avoid=la + da, labels_excluded=('exc', 'raise'))
    run.check('R2', cfg.exit.id not in r_, 'every normal completion registered the watcher', f,
              f.node, 'add_watcher can complete normally without registering: add is reported ok '
              'but the watcher does not exist')
    ae = ctx.fn('circus.commands.addwatcher:AddWatcher.execute')
    run.check('R2', bool(ctx.nodes_calling(ae, [f.key])), 'the add command goes through '
              'add_watcher', ae, ae.node)


def r3(run, ctx):
    run.rule('R3', 'a uniqueness test dominates every insertion')
    acls = ctx.p.cls('circus.arbiter:Arbiter')
    n = 0
    for m in acls.methods.values():
        la, lr, da, dr = _ops(ctx, m)
        cfg = ctx.cfg(m)
        from sa.dataflow import reaching_defs
        rdm = reaching_defs(ctx, m)
        tests = {id(t.ast): t for t in cfg.nodes if t.kind == 'test'}
        for d in da:
            n += 1

            def member(e):
                if isinstance(e, ast.Compare) and isinstance(e.ops[0], (ast.In, ast.NotIn)) and \
                        norm_text(e.comparators[0]) == 'self._watchers_names':
                    # the tested key, seen through temporaries
                    holder = [t for t in cfg.nodes if t.kind == 'test' and
                              any(x is e for x in ast.walk(t.ast))]
                    alts = rdm.expand(holder[0], e.left) if holder else []
                    if alts and all('.lower()' in a.text() for a in alts):
                        return isinstance(e.ops[0], ast.In)
                return None
            ok = guarded(cfg, d, member, False)
            run.check('R3', ok, '%s: the insertion is reached only when the lower-cased name is '
                      'not yet indexed' % m.qualname, m, d.ast,
                      '%s inserts into the name index without a case-insensitive uniqueness '
                      'test: a section/name differing only in letter case overwrites the index '
                      'entry while the list keeps both watchers' % m.qualname,
                      construct='UNGUARDED-INDEX-INSERTION')
    run.count('R3', n, 2, 'insertions into _watchers_names')


def r4(run, ctx):
    run.rule('R4', 'every lookup lower-cases')
    for key in (A + 'get_watcher', 'circus.commands.base:Command._get_watcher', A + 'rm_watcher'):
        f = ctx.fn(key)
        hits = []
        for n in ctx.live_nodes(f):
            for e in n.walk():
                if isinstance(e, ast.Subscript) and norm_text(e.value) == 'self._watchers_names':
                    hits.append((n, e.slice))
                if isinstance(e, ast.Call) and isinstance(e.func, ast.Attribute) and \
                        norm_text(e.func.value) == 'self._watchers_names' and e.args:
                    hits.append((n, e.args[0]))
                if isinstance(e, ast.Call) and astq.call_last(e) == 'get_watcher' and e.args:
                    hits.append((n, e.args[0]))
        if key.endswith('_get_watcher'):
            # delegates to arbiter.get_watcher (which lower-cases)
            run.check('R4', bool(hits), '_get_watcher resolves through the arbiter index', f, f.node)
            continue
        from sa.dataflow import reaching_defs
        rd = reaching_defs(ctx, f)
        run.check('R4', bool(hits) and all('.lower()' in a.text() for n, k in hits
                                           for a in rd.expand(n, k)),
                  '%s lower-cases the name before the lookup' % f.qualname, f,
                  hits[0][0].ast if hits else f.node,
                  '%s looks the name up case-sensitively: a request naming the watcher in another '
                  'letter case misses it' % f.qualname)
    m = ctx.fn('circus.commands.restart:execute_watcher_start_stop_restart')
    t = norm_text(m.node)
    run.check('R4', "watcher_name = props['name'].lower()" in t and
              'name.match(watcher.name.lower())' in t,
              'the glob/regex matcher lower-cases both sides', m, m.node,
              'start/stop/restart match watcher names case-sensitively')
    gw = ctx.fn('circus.commands.base:Command._get_watcher')
    refused = False
    for t in ast.walk(gw.node):
        if isinstance(t, ast.Try):
            for h in t.handlers:
                names = [(dotted(e) or '').split('.')[-1] for e in (
                    h.type.elts if isinstance(h.type, ast.Tuple) else [h.type])] \
                    if h.type is not None else ['*']
                if {'KeyError', 'LookupError', 'Exception', '*'} & set(names) and any(
                        isinstance(r, ast.Raise) and r.exc is not None and
                        'MessageError' in norm_text(r.exc) for st in h.body for r in ast.walk(st)):
                    refused = True
    run.check('R4', refused, 'an unknown name is a message error', gw, gw.node)


def r5(run, ctx):
    run.rule('R5', 'views read the directory, nothing else')
    le = ctx.fn('circus.commands.list:List.execute')
    run.check('R5', any(isinstance(x, ast.Attribute) and x.attr == '_watchers_names' and
                        norm_text(x.value) == 'arbiter' for x in ast.walk(le.node)),
              'list reads the name index', le, le.node)
    for key, src in ((A + 'numwatchers', 'len(self.watchers)'),
                     (A + 'statuses', 'self.watchers'), (A + 'numprocesses', 'self.watchers')):
        f = ctx.fn(key)
        run.check('R5', src in norm_text(f.node), '%s reads the watcher list' % f.qualname, f, f.node)
    se = ctx.fn('circus.commands.stats:Stats.execute')
    run.check('R5', 'arbiter.watchers' in norm_text(se.node), 'stats reads the watcher list', se,
              se.node)
    # no other attribute holds watchers
    acls = ctx.p.cls('circus.arbiter:Arbiter')
    extra = set()
    for m in acls.methods.values():
        for n in ctx.live_nodes(m):
            if n.kind == 'stmt':
                for t in astq.attr_targets(n.ast):
                    if isinstance(t, ast.Attribute) and dotted(t.value) == 'self' and \
                            'watcher' in t.attr and t.attr not in ('watchers', '_watchers_names'):
                        extra.add(t.attr)
    run.check('R5', not extra, 'the arbiter keeps watchers in exactly two structures', None,
              'Arbiter attributes', 'additional watcher containers: %s' % sorted(extra))


def r6(run, ctx):
    run.rule('R6', 'rm removes from both structures and stops unless nostop')
    f = ctx.fn(A + 'rm_watcher')
    cfg = ctx.cfg(f)
    la, lr, da, dr = _ops(ctx, f)
    run.need('R6', lr, 'list removal in rm_watcher', f, 'a removed watcher stays in the list')
    run.need('R6', dr, 'index removal in rm_watcher', f, 'a removed watcher stays in the index '
             '(its name cannot be reused)')
    stops = [s.node for s in ctx.sites_calling(f, [W + '_stop']) if astq.call_is_yielded(s.node, s.call)]
    if run.need('R6', stops, 'awaited _stop in rm_watcher', f):
        def nostop(e):
            return False if (isinstance(e, ast.Name) and e.id == 'nostop') else None
        r = reach_under(cfg, cfg.entry, nostop, avoid=stops, labels_excluded=('exc',))
        run.check('R6', cfg.exit.id not in r, 'without nostop the workers are stopped', f,
                  stops[0].ast, 'rm can complete with nostop false without stopping the watcher')
        for s in stops:
            for c in s.calls():
                if astq.call_last(c) == '_stop':
                    v = c.func.value
                    run.check('R6', isinstance(v, ast.Name), 'the stopped watcher is the removed '
                              'one', f, s.ast)
