"""F-STATUS-KEY probe.

commands/status.py returns {"status": watcher.status()} for a named watcher.
Controller.send_ok() -> commands.base.ok(props) does
    resp = {"status": "ok", "time": ...}; resp.update(props)
so the command's "status" overwrites the envelope's "status": the reply to a
successful `status <name>` has status "active"/"stopped"/... instead of "ok".
Every other command replies with status in ("ok", "error").

Driven through the real Controller.handle_message with a capturing stream;
no process is started.

exit 1: defect present (reply['status'] not in ('ok', 'error'))
exit 0: envelope status preserved
"""
import json
import sys
from unittest import mock

from tornado import ioloop

from circus.arbiter import Arbiter


class Stream(object):
    def __init__(self):
        self.sent = []

    def send(self, data, flags=0):
        self.sent.append(data)

    def flush(self):
        pass


def request(a, msg):
    a.ctrl.stream.sent[:] = []
    a.ctrl.handle_message([b'cid', json.dumps(msg).encode()])
    replies = [json.loads(s) for s in a.ctrl.stream.sent if s != b'cid']
    assert len(replies) == 1, replies
    return replies[0]


with mock.patch('circus.controller.SysHandler'):
    a = Arbiter([], 'ipc:///tmp/p_status_key_ctl',
                'ipc:///tmp/p_status_key_pub',
                loop=ioloop.IOLoop.current(), check_delay=-1)
a.ctrl.stream = Stream()
w = a.add_watcher('w', 'sleep 60', autostart=False)

defect = False

r_stopped = request(a, {"id": "1", "command": "status",
                        "properties": {"name": "w"}})
print('status w (watcher stopped)      -> %s' % json.dumps(r_stopped))
if r_stopped.get('status') not in ('ok', 'error'):
    defect = True

# same request with the watcher flagged active (no process needed: status()
# just returns the _status string)
w._status = 'active'
r_active = request(a, {"id": "2", "command": "status",
                       "properties": {"name": "w"}})
w._status = 'stopped'
print('status w (watcher active)       -> %s' % json.dumps(r_active))
if r_active.get('status') not in ('ok', 'error'):
    defect = True

# for comparison: the no-name form and a failing request keep the envelope
r_all = request(a, {"id": "3", "command": "status"})
print('status (no name)                -> %s' % json.dumps(r_all))
r_err = request(a, {"id": "4", "command": "status",
                    "properties": {"name": "nope"}})
print('status nope (unknown watcher)   -> status=%r reason=%r'
      % (r_err.get('status'), r_err.get('reason')))

assert not w.processes

if defect:
    print("DEFECT PRESENT: reply 'status' is %r / %r, the ok/error envelope "
          "was overwritten by the watcher status"
          % (r_stopped.get('status'), r_active.get('status')))
    sys.exit(1)
print("OK: reply 'status' is an envelope value")
sys.exit(0)
