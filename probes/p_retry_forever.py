#!/usr/bin/env python
"""F-RETRY-FOREVER probe.

Watcher.spawn_process():

    while nb_tries < self.max_retry or self.max_retry == -1:
        ...
        try:
            process = ProcCls(...)            # Popen
        except (OSError, ValueError) as e:
            logger.warning(...)
        if process is None:
            nb_tries += 1
            continue                          # no sleep, no yield

With max_retry=-1 ("retry indefinitely") and a command that cannot be
executed the loop never terminates and never yields to the event loop:
the whole supervisor freezes in a hot fork/exec-fail loop.

The risky call runs in a child interpreter (this same file with the argument
"child").  The parent gives it WAIT seconds, then inspects it: still alive,
no "RETURNED" line, event-loop heartbeats stopped, warnings piling up, CPU
being burnt.  A control run with max_retry=5 must return promptly.

exit 1 = defect present, exit 0 = code behaves correctly.
"""
import os
import signal
import subprocess
import sys
import threading
import time

WAIT = 3.0
BAD_CMD = "/nonexistent/PROBEA_WORKER_RETRYFOREVER_binary"


# --------------------------------------------------------------------- child
def child(max_retry):
    import logging
    from tornado import gen
    from tornado.ioloop import IOLoop, PeriodicCallback
    from circus import logger
    from circus.watcher import Watcher

    class FakeArbiter(object):
        socket_event = False
        _exclusive_running_command = None
        _restarting = False

    class EvPub(object):
        closed = False

        def send_multipart(self, msg):
            pass

    counts = {"warn": 0, "beats": 0}

    class Counter(logging.Handler):
        def emit(self, record):
            if record.levelno >= logging.WARNING:
                counts["warn"] += 1

    logger.addHandler(Counter())
    logger.propagate = False

    def out(line):
        sys.stdout.write(line + "\n")
        sys.stdout.flush()

    def ticker():
        # plain thread: keeps reporting even when the loop is frozen
        while True:
            time.sleep(0.5)
            out("TICK warnings=%d loop_heartbeats=%d" %
                (counts["warn"], counts["beats"]))

    threading.Thread(target=ticker, daemon=True).start()

    w = Watcher("retryforever", BAD_CMD, numprocesses=1,
                max_retry=max_retry, graceful_timeout=0.3)
    w.initialize(EvPub(), {}, FakeArbiter())

    def beat():
        counts["beats"] += 1

    @gen.coroutine
    def scenario():
        PeriodicCallback(beat, 50).start()
        yield gen.sleep(0.3)          # prove the heartbeat works first
        out("BEFORE heartbeats=%d" % counts["beats"])
        w._status = "starting"        # as _start() does before spawning
        out("CALLING spawn_process max_retry=%d" % max_retry)
        t0 = time.time()
        res = w.spawn_process()
        out("RETURNED %r after %.3fs warnings=%d" %
            (res, time.time() - t0, counts["warn"]))

    IOLoop.current().run_sync(scenario)
    return 0


# -------------------------------------------------------------------- parent
def run_child(max_retry, wait):
    """Run the child for at most `wait` seconds after it announced the call.
    Returns (lines, still_running, cpu_seconds_during_wait)."""
    import psutil
    env = dict(os.environ)
    proc = subprocess.Popen([sys.executable, os.path.abspath(__file__),
                             "child", str(max_retry)],
                            stdout=subprocess.PIPE, stderr=subprocess.DEVNULL,
                            env=env, universal_newlines=True,
                            start_new_session=True)
    lines = []
    called = threading.Event()
    returned = threading.Event()

    def reader():
        for line in proc.stdout:
            line = line.rstrip("\n")
            lines.append(line)
            if line.startswith("CALLING"):
                called.set()
            if line.startswith("RETURNED"):
                returned.set()

    t = threading.Thread(target=reader, daemon=True)
    t.start()
    still_running = False
    cpu = None
    try:
        if not called.wait(8):
            return lines, False, None
        ps = psutil.Process(proc.pid)

        def cpu_total():
            c = ps.cpu_times()
            return (c.user + c.system +
                    getattr(c, "children_user", 0.0) +
                    getattr(c, "children_system", 0.0))
        try:
            c0 = cpu_total()
        except psutil.Error:
            c0 = None
        returned.wait(wait)
        still_running = proc.poll() is None and not returned.is_set()
        try:
            cpu = cpu_total() - c0 if c0 is not None else None
        except psutil.Error:
            cpu = None
    finally:
        # kill the whole session of the child (it may be mid-fork)
        try:
            os.killpg(proc.pid, signal.SIGKILL)
        except OSError:
            pass
        try:
            proc.kill()
        except OSError:
            pass
        proc.wait()
        t.join(2)
    return lines, still_running, cpu


def last(lines, prefix):
    found = [ln for ln in lines if ln.startswith(prefix)]
    return found[-1] if found else None


def main():
    # control: finite retry count returns promptly
    lines_c, running_c, _ = run_child(5, WAIT)
    print("control  max_retry=5 : %s" % last(lines_c, "RETURNED"))

    lines, running, cpu = run_child(-1, WAIT)
    print("max_retry=-1, cmd=%r:" % BAD_CMD)
    print("  %s" % last(lines, "BEFORE"))
    print("  %s" % last(lines, "CALLING"))
    print("  returned line        : %s" % last(lines, "RETURNED"))
    ticks = [ln for ln in lines if ln.startswith("TICK")]
    for ln in ticks[-3:]:
        print("  %s" % ln)
    print("  still inside spawn_process() after %.1fs: %s" % (WAIT, running))
    if cpu is not None:
        print("  CPU seconds burnt (self+reaped children) in that window: "
              "%.2f" % cpu)

    beats = []
    warns = []
    for ln in ticks:
        try:
            parts = dict(p.split("=") for p in ln.split()[1:])
            beats.append(int(parts["loop_heartbeats"]))
            warns.append(int(parts["warnings"]))
        except (ValueError, KeyError):
            pass
    loop_frozen = len(beats) >= 2 and beats[-1] == beats[0]
    warn_growing = len(warns) >= 2 and warns[-1] > warns[0] > 0
    print("  event loop frozen (heartbeat count constant %s): %s" %
          (beats[-1] if beats else None, loop_frozen))
    print("  warnings still growing: %s (%s -> %s)" %
          (warn_growing, warns[0] if warns else None,
           warns[-1] if warns else None))

    control_ok = last(lines_c, "RETURNED") is not None
    if not control_ok:
        print("UNEXPECTED: control run with max_retry=5 did not return")
    if running and last(lines, "RETURNED") is None and loop_frozen:
        print("DEFECT PRESENT: spawn_process() with max_retry=-1 and an "
              "unexecutable cmd spins synchronously forever; the event loop "
              "is frozen while warnings accumulate.")
        return 1
    print("OK: spawn_process() returned / yielded; defect not reproduced.")
    return 0


if __name__ == "__main__":
    if len(sys.argv) >= 3 and sys.argv[1] == "child":
        sys.exit(child(int(sys.argv[2])))
    sys.exit(main())
