"""F-SILENT-DROP probe.

Watcher.manage_processes() starts with a "remove dead or zombie processes
first" sweep that pops dead entries out of self.processes without publishing
a 'reap' (or 'kill') event and without calling the before/after_reap hooks.

Scenario: active watcher, 2 workers, recording evpub stand-in.  One worker is
SIGKILLed from outside, we wait until it is a zombie, then call
Watcher.manage_processes() directly (as incr/decr/set_numprocesses/
do_action/_reload do) -- NOT arbiter.manage_watchers, which reaps first.

exit 1: defect present (pid vanished from w.processes, no reap/kill event)
exit 0: a reap (or kill) event for that pid was published
"""
import json
import os
import signal
import sys
import time
from unittest import mock

from tornado import gen, ioloop

from circus.arbiter import Arbiter
from circus.process import DEAD_OR_ZOMBIE, UNEXISTING


class RecordingPub(object):
    closed = False

    def __init__(self):
        self.msgs = []

    def send_multipart(self, msg):
        self.msgs.append(msg)


def events_for_pid(pub, pid):
    out = []
    for topic, payload in pub.msgs:
        try:
            data = json.loads(payload)
        except ValueError:
            continue
        if data.get('process_pid') == pid:
            out.append((topic, data))
    return out


result = {}
spawned = set()


@gen.coroutine
def scenario():
    loop = ioloop.IOLoop.current()
    with mock.patch('circus.controller.SysHandler'):
        a = Arbiter([], 'ipc:///tmp/p_silent_drop_ctl',
                    'ipc:///tmp/p_silent_drop_pub', loop=loop, check_delay=-1)
    w = a.add_watcher('sd', sys.executable,
                      args=['-c', 'import time; time.sleep(120)'],
                      numprocesses=2, graceful_timeout=0.2, warmup_delay=0,
                      respawn=True)
    after_reap_calls = []
    w.hooks['after_reap'] = lambda **kw: after_reap_calls.append(kw) or True
    pub = RecordingPub()
    w.evpub_socket = pub
    try:
        yield w._start()
        spawned.update(w.processes)
        print('status=%s pids=%s' % (w.status(), sorted(w.processes)))
        assert w.is_active() and len(w.processes) == 2

        victim = sorted(w.processes)[0]
        vproc = w.processes[victim]
        os.kill(victim, signal.SIGKILL)
        deadline = time.time() + 5
        while time.time() < deadline:
            if vproc.status in (DEAD_OR_ZOMBIE, UNEXISTING):
                break
            yield gen.sleep(0.05)
        print('victim pid %d status after external SIGKILL: %r'
              % (victim, vproc.status))
        assert vproc.status in (DEAD_OR_ZOMBIE, UNEXISTING)

        before = len(pub.msgs)
        # same path as incr/decr/set_numprocesses(np)/do_action(0)
        yield w.set_numprocesses(2)
        spawned.update(w.processes)

        gone = victim not in w.processes
        evs = events_for_pid(pub, victim)
        topics = [t.decode() for t, _ in evs]
        new_topics = [m[0].decode() for m in pub.msgs[before:]]
        print('victim still in w.processes: %s' % (not gone))
        print('w.processes now: %s' % sorted(w.processes))
        print('all events mentioning victim pid %d: %s' % (victim, topics))
        print('events published by set_numprocesses(): %s' % new_topics)
        print('after_reap hook calls for victim: %d'
              % len([c for c in after_reap_calls
                     if c.get('process_pid') == victim]))
        result['gone'] = gone
        result['reap_or_kill'] = [t for t in topics
                                  if t.endswith('.reap') or t.endswith('.kill')]
    finally:
        yield w._stop()
        spawned.update(w.processes)


def cleanup():
    for pid in spawned:
        try:
            os.kill(pid, signal.SIGKILL)
        except OSError:
            pass
        try:
            os.waitpid(pid, 0)
        except OSError:
            pass


try:
    ioloop.IOLoop.current().run_sync(scenario, timeout=14)
finally:
    cleanup()

if result.get('gone') and not result.get('reap_or_kill'):
    print('DEFECT PRESENT: dead pid dropped from w.processes by '
          'manage_processes() with no reap/kill event')
    sys.exit(1)
print('OK: no silent drop observed (gone=%s reap_or_kill=%s)'
      % (result.get('gone'), result.get('reap_or_kill')))
sys.exit(0)
