"""Drive Controller.handle_message with a capturing stream; count replies."""
import json, sys
from unittest import mock
from circus.controller import Controller
from tornado import ioloop

class Stream:
    def __init__(self): self.sent=[]
    def send(self, data, flags=0): self.sent.append(data)
    def flush(self): pass

class Arb:
    _exclusive_running_command=None; _restarting=False; watchers=[]; _watchers_names={}
    def numwatchers(self): return 0

with mock.patch('circus.controller.SysHandler'):
    c = Controller('tcp://127.0.0.1:0', None, None, ioloop.IOLoop.current(), Arb())
c.stream = Stream()
cases = [b'', b'   ', b'[]', b'1', b'null', b'"x"', b'{}', b'{"command": 5}', b'{"command": null, "id": "a"}',
         b'{"command": "numwatchers", "id": "ok1"}', b'not json', b'{"command":"nosuch","id":"u"}',
         b'{"command":"numwatchers","properties":[1],"id":"p"}']
bad = 0
for m in cases:
    c.stream.sent = []
    try:
        c.handle_message([b'cid', m])
        err = None
    except BaseException as e:
        err = repr(e)
    replies = [s for s in c.stream.sent if s != b'cid']
    ok = len(replies) == 1 and err is None
    bad += (not ok)
    print('%-50r replies=%d exc=%s %s' % (m, len(replies), err, '' if ok else '  <-- VIOLATION'))
    for r in replies:
        d = json.loads(r); assert d['status'] in ('ok','error'), d
print('violations:', bad)
sys.exit(1 if bad else 0)
