"""F-ASYNC-NOTIMEOUT probe.

AsyncCircusClient.__init__ stores timeout (self._timeout / self.timeout) but
AsyncCircusClient.call() never consults it: once the request is sent it loops
on `yield future` for a message bearing the call id and waits forever if none
arrives.  The synchronous CircusClient raises CallError("Timed out.") after
`timeout` seconds.

A zmq ROUTER bound on an ipc:// endpoint in a temp dir receives the requests
but never answers.

exit 1: defect present (async call still pending at 2 s with timeout=0.3,
        while the sync client timed out)
exit 0: async call failed with CallError (or otherwise completed) in time
"""
import os
import shutil
import sys
import tempfile
import time

import zmq
from tornado import gen, ioloop

from circus.client import AsyncCircusClient, CircusClient
from circus.exc import CallError

tmp = tempfile.mkdtemp(prefix='p_async_notimeout_')
endpoint = 'ipc://%s/mute' % tmp

ctx = zmq.Context()
router = ctx.socket(zmq.ROUTER)
router.linger = 0
router.bind(endpoint)

TIMEOUT = 0.3
WAIT = 2.0
result = {}


def drain():
    n = 0
    while True:
        try:
            router.recv_multipart(zmq.NOBLOCK)
            n += 1
        except zmq.Again:
            return n


# ---- reference: synchronous client ------------------------------------------
sync = CircusClient(context=ctx, endpoint=endpoint, timeout=TIMEOUT)
t0 = time.time()
try:
    sync.call({'command': 'list'})
    result['sync'] = 'returned'
except CallError as e:
    result['sync'] = 'CallError(%r)' % str(e)
result['sync_elapsed'] = time.time() - t0
sync.stop()
print('sync  CircusClient(timeout=%.1f).call -> %s after %.2fs; '
      'mute server received %d request(s)'
      % (TIMEOUT, result['sync'], result['sync_elapsed'], drain()))


# ---- async client -----------------------------------------------------------
@gen.coroutine
def scenario():
    client = AsyncCircusClient(context=ctx, endpoint=endpoint,
                               timeout=TIMEOUT)
    print('async client: _timeout=%r timeout(ms)=%r'
          % (client._timeout, client.timeout))
    t0 = time.time()
    fut = client.call({'command': 'list'})
    received = 0
    while time.time() - t0 < WAIT and not fut.done():
        yield gen.sleep(0.05)
        received += drain()
    elapsed = time.time() - t0
    result['async_done'] = fut.done()
    result['async_received'] = received
    if fut.done():
        exc = fut.exception()
        result['async_outcome'] = ('raised %r' % exc if exc is not None
                                   else 'returned %r' % (fut.result(),))
    else:
        result['async_outcome'] = 'still pending'
    print('async AsyncCircusClient(timeout=%.1f).call -> %s after %.2fs; '
          'mute server received %d request(s)'
          % (TIMEOUT, result['async_outcome'], elapsed, received))
    client.stop()


try:
    ioloop.IOLoop.current().run_sync(scenario, timeout=12)
finally:
    router.close()
    ctx.term()
    shutil.rmtree(tmp, ignore_errors=True)

sync_timed_out = result['sync'].startswith('CallError') and \
    result['sync_elapsed'] < 1.5
if not sync_timed_out:
    print('NOTE: synchronous client did not time out as expected: %s'
          % result['sync'])

if not result['async_done']:
    assert result['async_received'] >= 1, 'request never reached the server'
    print('DEFECT PRESENT: AsyncCircusClient.call ignores its timeout (%.1fs):'
          ' still pending after %.1fs, no CallError' % (TIMEOUT, WAIT))
    sys.exit(1)
print('OK: async call completed: %s' % result['async_outcome'])
sys.exit(0)
