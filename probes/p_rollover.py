"""FileStream with time_format: the active file must never reach max_bytes for small writes."""
import os, sys, tempfile
from circus.stream.file_stream import FileStream
d = tempfile.mkdtemp(); fn = os.path.join(d, 'out.log')
s = FileStream(filename=fn, max_bytes=100, backup_count=2, time_format='%Y-%m-%d %H:%M:%S')
worst = 0
for i in range(30):
    s({'data': ('x' * 25 + '\n').encode(), 'pid': 4242})
    worst = max(worst, os.path.getsize(fn))
s.close()
import shutil; shutil.rmtree(d)
print('largest active file size with max_bytes=100 and 26-byte writes:', worst)
ok = worst < 100
print('OK' if ok else 'VIOLATION: active file reached/passed max_bytes')
sys.exit(0 if ok else 1)
