"""F-CASE-DUP probe.

Arbiter.initialize() (and reload_from_config()) index watchers by
name.lower() in arbiter._watchers_names but append every watcher to the list
arbiter.watchers without any duplicate check (add_watcher() does check).
Two config sections [watcher:Foo] and [watcher:foo] are therefore both kept in
arbiter.watchers but collapse into a single _watchers_names entry: one of the
two watchers is unreachable by name, `numwatchers` says 2, `list` shows 1.

Part 1: load_from_config + initialize().
Part 2: start from [watcher:foo] only, then reload_from_config() with a file
        that adds [watcher:Foo].
All watchers have autostart = False: no process is ever started.

exit 1: defect present (len(watchers) != len(_watchers_names))
exit 0: duplicates rejected / both views agree
"""
import json
import logging
import os
import shutil
import sys
import tempfile
from unittest import mock

from tornado import gen, ioloop

from circus.arbiter import Arbiter

logging.getLogger('circus').setLevel(logging.CRITICAL)

tmp = tempfile.mkdtemp(prefix='p_case_dup_')

CIRCUS = """[circus]
endpoint = ipc://%(tmp)s/ctl
pubsub_endpoint = ipc://%(tmp)s/pub
check_delay = -1

""" % {'tmp': tmp}

W_UPPER = "[watcher:Foo]\ncmd = sleep 60\nautostart = False\n\n"
W_LOWER = "[watcher:foo]\ncmd = sleep 60\nautostart = False\n\n"


def write_ini(name, *sections):
    path = os.path.join(tmp, name)
    with open(path, 'w') as f:
        f.write(CIRCUS + ''.join(sections))
    return path


class Stream(object):
    def __init__(self):
        self.sent = []

    def send(self, data, flags=0):
        self.sent.append(data)

    def flush(self):
        pass


def request(a, msg):
    a.ctrl.stream.sent[:] = []
    a.ctrl.handle_message([b'cid', json.dumps(msg).encode()])
    replies = [json.loads(s) for s in a.ctrl.stream.sent if s != b'cid']
    assert len(replies) == 1, replies
    return replies[0]


def report(tag, a):
    a.ctrl.stream = Stream()
    nw = request(a, {"id": "1", "command": "numwatchers"})
    ls = request(a, {"id": "2", "command": "list"})
    st = request(a, {"id": "3", "command": "status"})
    print('[%s] arbiter.watchers names      : %s'
          % (tag, [w.name for w in a.watchers]))
    print('[%s] arbiter._watchers_names keys: %s'
          % (tag, sorted(a._watchers_names)))
    print('[%s] numwatchers reply: %s ; list reply: %s ; status reply: %s'
          % (tag, nw.get('numwatchers'), ls.get('watchers'),
             st.get('statuses')))
    reachable = set(id(w) for w in a._watchers_names.values())
    orphans = [w.name for w in a.watchers if id(w) not in reachable]
    print('[%s] watchers not reachable by name (get_watcher): %s'
          % (tag, orphans))
    return len(a.watchers), len(a._watchers_names)


def make_arbiter(path, loop):
    with mock.patch('circus.controller.SysHandler'):
        return Arbiter.load_from_config(path, loop=loop)


def close_arbiter(a):
    if a.evpub_socket is not None and not a.evpub_socket.closed:
        a.evpub_socket.close()
    for w in a.watchers:
        assert not w.processes, 'unexpected child processes'


results = {}


@gen.coroutine
def scenario():
    loop = ioloop.IOLoop.current()

    # ---- part 1: initialize() --------------------------------------------
    a = make_arbiter(write_ini('both.ini', W_UPPER, W_LOWER), loop)
    try:
        a.initialize()
        results['init'] = report('initialize', a)
    finally:
        close_arbiter(a)

    # ---- part 2: reload_from_config() -------------------------------------
    a = make_arbiter(write_ini('one.ini', W_LOWER), loop)
    try:
        a.initialize()
        print('[reload] before: watchers=%s names=%s'
              % ([w.name for w in a.watchers], sorted(a._watchers_names)))
        yield a.reload_from_config(write_ini('two.ini', W_LOWER, W_UPPER))
        results['reload'] = report('reload', a)
    finally:
        close_arbiter(a)


try:
    ioloop.IOLoop.current().run_sync(scenario, timeout=14)
finally:
    shutil.rmtree(tmp, ignore_errors=True)

defect = False
for tag in ('init', 'reload'):
    nlist, nnames = results[tag]
    if nlist != nnames:
        print('%s: len(arbiter.watchers)=%d but len(_watchers_names)=%d'
              % (tag, nlist, nnames))
        defect = True

if defect:
    print('DEFECT PRESENT: watcher names differing only in case are both '
          'kept in arbiter.watchers but collapse in _watchers_names')
    sys.exit(1)
print('OK: watcher list and name index agree')
sys.exit(0)
