"""F-IGNORE-DEFAULT probe.

Watcher.__init__ seeds self.ignore_hook_failure with
['before_stop', 'after_stop', 'before_signal', 'after_signal',
'extended_stats'].  call_hook() turns an exception in a hook into
`hook_name in self.ignore_hook_failure`, so a before_signal hook that RAISES
and was registered WITHOUT the ignore flag ((fn, False)) counts as True and
the signal is sent.  The documentation (for-ops/configuration.rst, "hooks.*":
"If set to false (the default), the hook will return False"; and
for-devs/writing-hooks.rst: before_signal returning False => signal not sent,
SIGKILL excepted) says the signal must be suppressed.

Two watchers, one worker each; the worker installs a SIGUSR1 handler that
appends to a marker file.  We spy on circus.process.Process.send_signal and
also look at the marker file (real delivery).

exit 1: defect present (raising, non-ignored before_signal hook => SIGUSR1
        delivered)
exit 0: raising hook suppressed the signal like a hook returning False
"""
import os
import shutil
import signal
import sys
import tempfile
import time
from unittest import mock

from tornado import gen, ioloop

from circus.arbiter import Arbiter
import circus.process

WORKER = r'''
import signal, sys, time
marker = sys.argv[1]
def handler(signum, frame):
    with open(marker + '.got', 'a') as f:
        f.write('x')
signal.signal(signal.SIGUSR1, handler)
open(marker + '.ready', 'w').close()
while True:
    time.sleep(0.05)
'''

tmp = tempfile.mkdtemp(prefix='p_ignore_default_')
worker_py = os.path.join(tmp, 'worker.py')
with open(worker_py, 'w') as f:
    f.write(WORKER)

hook_calls = []


def raising_hook(watcher, arbiter, hook_name, pid, signum, **kw):
    hook_calls.append(('raising', pid, signum))
    raise RuntimeError('before_signal hook blew up')


def false_hook(watcher, arbiter, hook_name, pid, signum, **kw):
    hook_calls.append(('false', pid, signum))
    return False


sent = []  # (pid, signum) seen by the real Process.send_signal
orig_send_signal = circus.process.Process.send_signal


def spy_send_signal(self, sig):
    sent.append((self.pid, sig))
    return orig_send_signal(self, sig)


spawned = set()
result = {}


@gen.coroutine
def wait_for(path, timeout=5):
    deadline = time.time() + timeout
    while time.time() < deadline:
        if os.path.exists(path):
            raise gen.Return(True)
        yield gen.sleep(0.05)
    raise gen.Return(False)


@gen.coroutine
def scenario():
    loop = ioloop.IOLoop.current()
    with mock.patch('circus.controller.SysHandler'):
        a = Arbiter([], 'ipc://%s/ctl' % tmp, 'ipc://%s/pub' % tmp,
                    loop=loop, check_delay=-1)
    watchers = []
    try:
        for label, hook in (('raising', raising_hook), ('false', false_hook)):
            marker = os.path.join(tmp, label)
            w = a.add_watcher('w_' + label, sys.executable,
                              args=[worker_py, marker], numprocesses=1,
                              graceful_timeout=0.2, warmup_delay=0,
                              hooks={'before_signal': (hook, False)})
            watchers.append(w)
            print('[%s] registered with ignore flag False; '
                  "'before_signal' in w.ignore_hook_failure -> %s"
                  % (label, 'before_signal' in w.ignore_hook_failure))
            yield w._start()
            spawned.update(w.processes)
            assert w.is_active() and len(w.processes) == 1
            ready = yield wait_for(marker + '.ready')
            assert ready, 'worker never became ready'
            pid = list(w.processes)[0]

            with mock.patch.object(circus.process.Process, 'send_signal',
                                   spy_send_signal):
                w.send_signal(pid, signal.SIGUSR1)
            yield wait_for(marker + '.got', timeout=1.0)

            spy_hit = (pid, signal.SIGUSR1) in sent
            delivered = os.path.exists(marker + '.got')
            called = [c for c in hook_calls if c[0] == label]
            print('[%s] hook called: %s; Process.send_signal(SIGUSR1) '
                  'invoked: %s; worker handler ran: %s'
                  % (label, bool(called), spy_hit, delivered))
            result[label] = (bool(called), spy_hit, delivered)
    finally:
        for w in watchers:
            yield w._stop()
            spawned.update(w.processes)


def cleanup():
    for pid in spawned:
        try:
            os.kill(pid, signal.SIGKILL)
        except OSError:
            pass
        try:
            os.waitpid(pid, 0)
        except OSError:
            pass
    shutil.rmtree(tmp, ignore_errors=True)


import logging
logging.getLogger('circus').setLevel(logging.CRITICAL)  # hide hook traceback

try:
    ioloop.IOLoop.current().run_sync(scenario, timeout=14)
finally:
    cleanup()

r_called, r_spy, r_delivered = result['raising']
f_called, f_spy, f_delivered = result['false']
assert r_called and f_called, 'hooks were not invoked'
if f_spy or f_delivered:
    print('UNEXPECTED: hook returning False did not suppress the signal')
if r_spy or r_delivered:
    print('DEFECT PRESENT: before_signal hook raised (ignore flag False) but '
          'SIGUSR1 was still sent; the hook returning False gave '
          'send_signal invoked=%s' % (f_spy,))
    sys.exit(1)
print('OK: raising before_signal hook (flag False) suppressed the signal')
sys.exit(0)
