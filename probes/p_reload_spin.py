#!/usr/bin/env python
"""F-RELOAD-SPIN probe (sibling of /verif/probes/p_reap_spin.py).

Watcher._reload(graceful=True, sequential=True):

    for process in active_processes:
        yield self.kill_process(process)     # False at once if process.stopping
        self.reap_process(process.pid)       # no status -> waitpid(WNOHANG) spin
        self.spawn_process()
        yield tornado_sleep(self.warmup_delay)

Scenario: a worker ignores SIGTERM.  The real `kill` command (Kill.execute,
not synchronized) is in flight on it: it has sent SIGTERM, set
process.stopping and waits out graceful_timeout on the event loop, after which
it would SIGKILL.  Meanwhile `watcher.reload(graceful=True, sequential=True)`
is called (what the `reload` command does).  If the claim holds, the loop
thread spins inside reap_process() on the live pid for ever.

A watchdog thread watches a loop heartbeat.  If the loop is silent for more
than BLOCK_SECS (> graceful_timeout, so the pending SIGKILL was overdue) while
the worker is alive, it dumps the main-thread stack, declares the defect and
SIGKILLs the worker from outside so the probe can end cleanly.

exit 1 = defect present, exit 0 = reload completed, loop stayed responsive.
"""
import os
import signal
import sys
import tempfile
import threading
import time
import traceback

import psutil
from tornado import gen
from tornado.ioloop import IOLoop, PeriodicCallback

from circus.commands.kill import Kill
from circus.watcher import Watcher

MARKER = "PROBE_WORKER_RELOADSPIN"
GRACEFUL = 3.0          # in-flight kill would SIGKILL after 3 s
BLOCK_SECS = 5.0        # loop silent that long (> GRACEFUL) => defect
HARD_LIMIT = 22.0       # absolute fail-safe

WORKER_SRC = (
    "import signal, sys, time; "
    "signal.signal(signal.SIGTERM, signal.SIG_IGN); "
    "open(sys.argv[1] + '.' + str(__import__('os').getpid()), 'w').close(); "
    "time.sleep(60)"
)


class FakeArbiter(object):
    socket_event = False
    _exclusive_running_command = None
    _restarting = False

    def __init__(self):
        self.watchers = {}

    def get_watcher(self, name):
        return self.watchers[name]


class EvPub(object):
    closed = False

    def __init__(self):
        self.msgs = []

    def send_multipart(self, msg):
        self.msgs.append(msg)


def alive(pid):
    try:
        p = psutil.Process(pid)
        return p.is_running() and p.status() != psutil.STATUS_ZOMBIE
    except psutil.NoSuchProcess:
        return False


def kill_leftovers(pids):
    for pid in pids:
        try:
            os.kill(pid, signal.SIGKILL)
        except OSError:
            pass
        try:
            os.waitpid(pid, 0)
        except OSError:
            pass
    for proc in psutil.process_iter(["pid", "cmdline"]):
        try:
            if MARKER in (proc.info["cmdline"] or []):
                proc.kill()
        except psutil.Error:
            pass


def main():
    tmp = tempfile.mkdtemp(prefix="probe_reloadspin_")
    ready = os.path.join(tmp, "ready")
    arb = FakeArbiter()
    w = Watcher("reloadspin", sys.executable,
                args=["-c", WORKER_SRC, ready, MARKER],
                numprocesses=1, graceful_timeout=GRACEFUL, warmup_delay=0.1)
    w.initialize(EvPub(), {}, arb)
    arb.watchers[w.name] = w
    main_tid = threading.get_ident()

    st = {
        "beat": time.time(),
        "reload_called": None,
        "reload_returned": None,
        "reload_result": None,
        "pid": None,
        "max_gap": 0.0,
        "wedged": False,
        "worker_alive_when_wedged": None,
        "rescued_at": None,
        "kill_future_done_at_rescue": None,
        "stack": None,
    }
    pids = []
    done = threading.Event()

    def heartbeat():
        st["beat"] = time.time()

    def watchdog():
        t0 = time.time()
        while not done.is_set():
            time.sleep(0.05)
            now = time.time()
            if st["reload_called"] is not None and \
                    st["reload_returned"] is None:
                gap = now - max(st["beat"], st["reload_called"])
                st["max_gap"] = max(st["max_gap"], gap)
                if gap > BLOCK_SECS and not st["wedged"]:
                    st["wedged"] = True
                    st["worker_alive_when_wedged"] = alive(st["pid"])
                    frame = sys._current_frames().get(main_tid)
                    st["stack"] = "".join(traceback.format_stack(frame)) \
                        if frame is not None else "<no frame>"
                    fut = st.get("kill_future")
                    st["kill_future_done_at_rescue"] = \
                        fut.done() if fut is not None else None
                    st["rescued_at"] = now
                    try:
                        os.kill(st["pid"], signal.SIGKILL)
                    except OSError:
                        pass
            if now - t0 > HARD_LIMIT:
                sys.stdout.write("FAIL-SAFE: hard limit hit, aborting\n")
                if st["stack"]:
                    sys.stdout.write(st["stack"])
                sys.stdout.flush()
                kill_leftovers(pids + list(w.processes))
                os._exit(1 if st["wedged"] else 2)

    @gen.coroutine
    def scenario():
        hb = PeriodicCallback(heartbeat, 50)
        hb.start()
        yield w._start()
        pid = list(w.processes)[0]
        pids.append(pid)
        st["pid"] = pid
        deadline = time.time() + 8
        while not os.path.exists("%s.%d" % (ready, pid)) and \
                time.time() < deadline:
            yield gen.sleep(0.02)
        process = w.processes[pid]
        # the real `kill` command, scheduled and NOT awaited (this is what
        # the controller does: each request is its own coroutine)
        st["kill_future"] = Kill().execute(arb, {"name": w.name, "pid": pid})
        yield gen.sleep(0.3)
        st["stopping_flag"] = process.stopping
        st["alive_before_reload"] = alive(pid)
        st["kill_done_before_reload"] = st["kill_future"].done()
        st["reload_called"] = time.time()
        st["reload_result"] = yield w.reload(graceful=True, sequential=True)
        st["reload_returned"] = time.time()
        pids.extend(w.processes)
        hb.stop()

    wd = threading.Thread(target=watchdog, daemon=True)
    wd.start()
    try:
        IOLoop.current().run_sync(scenario)
        done.set()
        took = st["reload_returned"] - st["reload_called"]
        print("worker pid %d ignores SIGTERM; `kill` command (graceful_timeout"
              "=%.1f) in flight, not awaited" % (st["pid"], GRACEFUL))
        print("before reload(): process.stopping=%s worker alive=%s kill "
              "command finished=%s" %
              (st["stopping_flag"], st["alive_before_reload"],
               st["kill_done_before_reload"]))
        print("reload(graceful=True, sequential=True) took %.2fs -> %r; "
              "longest event-loop stall (no heartbeat) during it: %.2fs" %
              (took, st["reload_result"], st["max_gap"]))
        if st["wedged"]:
            print("watchdog: loop silent for > %.1fs; worker alive at that "
                  "point=%s; in-flight kill finished=%s (its SIGKILL was due "
                  "after %.1fs but could not run)" %
                  (BLOCK_SECS, st["worker_alive_when_wedged"],
                   st["kill_future_done_at_rescue"], GRACEFUL))
            print("main (event-loop) thread stack at that point, innermost "
                  "frames:")
            lines = st["stack"].rstrip("\n").split("\n")
            print("\n".join(lines[-12:]))
            print("watchdog SIGKILLed the worker externally -> reload() "
                  "returned %.2fs later" %
                  (st["reload_returned"] - st["rescued_at"]))
        if st["wedged"] and st["worker_alive_when_wedged"]:
            in_reap = "in reap_process" in st["stack"]
            print("DEFECT PRESENT: sequential reload called reap_process() on "
                  "a live worker whose kill was in flight; loop thread stuck "
                  "in reap_process=%s; event loop blocked > %.1fs; the "
                  "pending SIGKILL escalation never ran." %
                  (in_reap, BLOCK_SECS))
            return 1
        print("OK: reload completed without wedging the loop; defect not "
              "reproduced.")
        return 0
    finally:
        done.set()
        kill_leftovers(pids + list(w.processes))
        try:
            for f in os.listdir(tmp):
                os.unlink(os.path.join(tmp, f))
            os.rmdir(tmp)
        except OSError:
            pass


if __name__ == "__main__":
    sys.exit(main())
