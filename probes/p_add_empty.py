"""add with an empty name must not be answered ok when no watcher was created."""
import json, sys
from unittest import mock
from circus.controller import Controller
from circus.arbiter import Arbiter
from tornado import ioloop
class Stream:
    def __init__(self): self.sent=[]
    def send(self, data, flags=0): self.sent.append(data)
    def flush(self): pass
with mock.patch('circus.controller.SysHandler'):
    a = Arbiter([], 'tcp://127.0.0.1:7561', 'tcp://127.0.0.1:7562', loop=ioloop.IOLoop.current(), check_delay=-1)
a.ctrl.stream = Stream()
a.ctrl.handle_message([b'cid', json.dumps({'id': 'x', 'command': 'add', 'properties': {'name': '', 'cmd': 'sleep 1'}}).encode()])
rep = json.loads([s for s in a.ctrl.stream.sent if s != b'cid'][0])
print('reply status:', rep['status'], '| watchers:', [w.name for w in a.watchers])
ok = not (rep['status'] == 'ok' and not a.watchers)
print('OK' if ok else 'VIOLATION: add answered ok but no watcher exists')
sys.exit(0 if ok else 1)
