"""reloadconfig must notice an option that was added to (or removed from) a watcher section."""
import os, sys, tempfile
import tornado.ioloop
from tornado import gen
from circus.arbiter import Arbiter
BASE = "[circus]\ncheck_delay = -1\nendpoint = tcp://127.0.0.1:7555\npubsub_endpoint = tcp://127.0.0.1:7556\n\n[watcher:test1]\ncmd = sleep 120\n%s"
class FakeSocket(object):
    closed = False
    def send_multipart(self, *a): pass
    close = send_multipart
d = tempfile.mkdtemp()
f1 = os.path.join(d, 'a.ini'); open(f1, 'w').write(BASE % '')
f2 = os.path.join(d, 'b.ini'); open(f2, 'w').write(BASE % 'max_age = 10\n')
@gen.coroutine
def main():
    a = Arbiter.load_from_config(f1, loop=tornado.ioloop.IOLoop.current())
    a.evpub_socket = FakeSocket()
    for w in a.iter_watchers():
        a._watchers_names[w.name.lower()] = w
    before = a.get_watcher('test1')
    yield a.reload_from_config(f2)
    after = a.get_watcher('test1')
    res = (before is after, after.max_age)
    for w in a.iter_watchers():
        yield w._stop()
    raise gen.Return(res)
same, max_age = tornado.ioloop.IOLoop.current().run_sync(main)
import shutil; shutil.rmtree(d)
print('same watcher object kept:', same, ' max_age now:', max_age, '(file says 10)')
ok = max_age == 10
print('OK' if ok else 'VIOLATION: an added option is not noticed by reloadconfig')
sys.exit(0 if ok else 1)
