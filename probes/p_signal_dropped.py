#!/usr/bin/env python
"""F-SIGNAL-DROPPED probe.

SIGTERM/SIGINT/SIGQUIT handling (circus/sighandler.py) posts

    controller.dispatch((None, make_json("quit")))

to the loop.  Quit.execute() calls arbiter.stop(), which is decorated with
@synchronized("arbiter_stop").  If any exclusive command is in flight
(arbiter._exclusive_running_command is not None -- e.g. 'manage_watchers'
while the periodic check waits out a graceful_timeout) the wrapper raises
ConflictError; Controller.dispatch() catches it and "replies" with
send_error() to cid None, which sends nothing.  The termination signal is
silently lost: no retry, no log above debug, arbiter._stopping stays False.

Part A: flag set by hand on a running arbiter, quit dispatched directly.
Part B: the flag is set for real by Arbiter.manage_watchers() (it is killing
        a surplus worker that ignores SIGTERM and waits graceful_timeout);
        SIGTERM is delivered through the real SysHandler.signal() code path
        (the handler object is built without registering OS signal handlers).
Control: the same delivery with nothing in flight stops the arbiter.

exit 1 = defect present, exit 0 = code behaves correctly.
"""
import logging
import os
import shutil
import signal
import sys
import tempfile
import threading
import time
from unittest import mock

import psutil
from tornado import gen
from tornado.ioloop import IOLoop

from circus import logger
from circus.arbiter import Arbiter
from circus.client import make_json
from circus.sighandler import SysHandler
from circus.watcher import Watcher

MARKER = "PROBEA_WORKER_SIGNALDROPPED"
GRACEFUL = 2.0
HARD_LIMIT = 14.0

WORKER_SRC = (
    "import os, signal, sys, time; "
    "signal.signal(signal.SIGTERM, signal.SIG_IGN); "
    "open(os.path.join(sys.argv[1], str(os.getpid())), 'w').close(); "
    "time.sleep(60)"
)


class Capture(logging.Handler):
    def __init__(self):
        logging.Handler.__init__(self)
        self.records = []

    def emit(self, record):
        try:
            self.records.append((record.levelname, record.getMessage()))
        except Exception:
            pass


def alive(pid):
    try:
        p = psutil.Process(pid)
        return p.is_running() and p.status() != psutil.STATUS_ZOMBIE
    except psutil.NoSuchProcess:
        return False


def kill_leftovers(pids):
    for pid in pids:
        try:
            os.kill(pid, signal.SIGKILL)
        except OSError:
            pass
        try:
            os.waitpid(pid, os.WNOHANG)
        except OSError:
            pass
    for proc in psutil.process_iter(["pid", "cmdline"]):
        try:
            if MARKER in (proc.info["cmdline"] or []):
                proc.kill()
        except psutil.Error:
            pass


def main():
    tmp = tempfile.mkdtemp(prefix="probe_sigdrop_")
    readydir = os.path.join(tmp, "ready")
    os.mkdir(readydir)
    cap = Capture()
    logger.addHandler(cap)
    logger.setLevel(logging.DEBUG)
    logger.propagate = False

    loop = IOLoop.current()
    w = Watcher("sigdrop", sys.executable,
                args=["-c", WORKER_SRC, readydir, MARKER],
                numprocesses=2, graceful_timeout=GRACEFUL)
    # do not install process-wide signal handlers while constructing
    with mock.patch("circus.controller.SysHandler"):
        arbiter = Arbiter([w], "ipc://%s/ctl" % tmp, "ipc://%s/pub" % tmp,
                          loop=loop, check_delay=-1)
    # real signal-handling code, minus signal.signal() registration
    hdl = SysHandler.__new__(SysHandler)
    hdl.controller = arbiter.ctrl

    all_pids = []
    obs = {}

    def failsafe():
        time.sleep(HARD_LIMIT)
        sys.stdout.write("FAIL-SAFE: hard limit hit, aborting\n")
        sys.stdout.flush()
        kill_leftovers(all_pids)
        shutil.rmtree(tmp, ignore_errors=True)
        os._exit(2)

    threading.Thread(target=failsafe, daemon=True).start()

    @gen.coroutine
    def scenario():
        yield arbiter.start()
        all_pids.extend(w.processes)
        deadline = time.time() + 8
        while len(os.listdir(readydir)) < 2 and time.time() < deadline:
            yield gen.sleep(0.02)
        obs["started"] = (arbiter.running, w.status(), sorted(w.processes))

        # ---- Part A: flag set by hand, quit dispatched directly ----------
        arbiter._exclusive_running_command = "manage_watchers"
        n0 = len(cap.records)
        try:
            ret = arbiter.ctrl.dispatch((None, make_json("quit")))
            obs["A_exc"] = None
        except BaseException as e:      # noqa
            ret = None
            obs["A_exc"] = e
        yield gen.sleep(0.3)
        obs["A_ret"] = ret
        obs["A_stopping"] = arbiter._stopping
        obs["A_running"] = arbiter.running
        obs["A_wstatus"] = w.status()
        obs["A_logs"] = [r for r in cap.records[n0:]
                         if r[0] in ("WARNING", "ERROR", "CRITICAL")
                         or "already running" in r[1]]
        arbiter._exclusive_running_command = None

        # ---- Part B: flag set for real by manage_watchers ----------------
        w.numprocesses = 1               # one surplus worker, ignores SIGTERM
        manage_fut = arbiter.manage_watchers()   # what the periodic cb does
        yield gen.sleep(0.2)
        obs["B_flag"] = arbiter._exclusive_running_command
        obs["B_manage_done_at_signal"] = manage_fut.done()
        hdl.signal(signal.SIGTERM)       # real SysHandler path -> dispatch
        yield gen.sleep(0.3)
        obs["B_stopping_right_after"] = arbiter._stopping
        yield manage_fut                 # ~graceful_timeout
        yield gen.sleep(0.7)             # any deferred retry would show now
        obs["B_flag_after"] = arbiter._exclusive_running_command
        obs["B_stopping_later"] = arbiter._stopping
        obs["B_running_later"] = arbiter.running
        obs["B_wstatus_later"] = w.status()
        obs["B_alive_later"] = [p for p in w.processes if alive(p)]

        # ---- Control: nothing in flight ----------------------------------
        hdl.signal(signal.SIGTERM)
        yield gen.sleep(0.2)
        obs["C_stopping"] = arbiter._stopping
        deadline = time.time() + GRACEFUL + 3
        while arbiter.running and time.time() < deadline:
            yield gen.sleep(0.1)
        obs["C_running"] = arbiter.running
        obs["C_wstatus"] = w.status()

    try:
        loop.run_sync(scenario)
        print("arbiter started: running=%s watcher=%r pids=%r" %
              obs["started"])
        print("[A] _exclusive_running_command='manage_watchers' (set by "
              "hand); ctrl.dispatch((None, quit)):")
        print("    raised=%r returned=%r" % (obs["A_exc"], obs["A_ret"]))
        print("    arbiter._stopping=%s arbiter.running=%s watcher=%r" %
              (obs["A_stopping"], obs["A_running"], obs["A_wstatus"]))
        print("    log records >= WARNING or mentioning the conflict: %r" %
              obs["A_logs"])
        print("[B] real manage_watchers() in flight (killing surplus worker, "
              "graceful_timeout=%.1f): flag=%r done=%s" %
              (GRACEFUL, obs["B_flag"], obs["B_manage_done_at_signal"]))
        print("    SysHandler.signal(SIGTERM) delivered; 0.3s later "
              "_stopping=%s" % obs["B_stopping_right_after"])
        print("    after manage_watchers finished (+0.7s): flag=%r "
              "_stopping=%s running=%s watcher=%r live workers=%r" %
              (obs["B_flag_after"], obs["B_stopping_later"],
               obs["B_running_later"], obs["B_wstatus_later"],
               obs["B_alive_later"]))
        print("[control] same SIGTERM with nothing in flight: _stopping=%s "
              "-> running=%s watcher=%r" %
              (obs["C_stopping"], obs["C_running"], obs["C_wstatus"]))

        a_dropped = (obs["A_exc"] is None and not obs["A_stopping"] and
                     obs["A_running"])
        b_dropped = (obs["B_flag"] == "manage_watchers" and
                     not obs["B_stopping_later"] and obs["B_running_later"])
        if not obs["C_stopping"]:
            print("UNEXPECTED: control quit did not set _stopping")
        if a_dropped or b_dropped:
            print("DEFECT PRESENT: termination request %s silently dropped "
                  "while an exclusive command was in flight (no exception, "
                  "no warning, _stopping stayed False, arbiter kept "
                  "running)." %
                  ("/".join(n for n, f in (("[A]", a_dropped),
                                           ("[B]", b_dropped)) if f)))
            return 1
        print("OK: the quit request was honoured (or deferred and then "
              "honoured); defect not reproduced.")
        return 0
    finally:
        kill_leftovers(all_pids + list(w.processes))
        try:
            if arbiter.running:
                arbiter.stop_controller_and_close_sockets()
        except Exception:
            pass
        shutil.rmtree(tmp, ignore_errors=True)


if __name__ == "__main__":
    sys.exit(main())
