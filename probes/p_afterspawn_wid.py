#!/usr/bin/env python
"""F-AFTERSPAWN-WID probe.

Watcher.spawn_process(): when after_spawn returns False the code does

    self.kill_process(process)          # coroutine, NOT awaited
    del self.processes[process.pid]
    return False

so the SIGKILL escalation (Watcher.send_signal only signals pids present in
self.processes) is dropped and a SIGTERM-ignoring worker survives untracked.

Claim checked here: Watcher._nextwid allocates from the wids of the *tracked*
processes only, so on the next start() the new worker gets the same wid as the
survivor: two live workers of one watcher with the same $(circus.wid).

exit 1 = defect present (two live workers share a wid), exit 0 = not.
"""
import os
import shutil
import signal
import sys
import tempfile
import time

import psutil
from tornado import gen
from tornado.ioloop import IOLoop

from circus.watcher import Watcher

MARKER = "PROBEWID_WORKER_AFTERSPAWN"
GRACEFUL = 0.3

# argv: <outdir> <wid> <marker>
WORKER_SRC = (
    "import os, signal, sys, time; "
    "signal.signal(signal.SIGTERM, signal.SIG_IGN); "
    "d, wid = sys.argv[1], sys.argv[2]; "
    "tmp = os.path.join(d, 'tmp.%d' % os.getpid()); "
    "f = open(tmp, 'w'); f.write('%s %d' % (wid, os.getpid())); f.close(); "
    "os.rename(tmp, os.path.join(d, 'w.%d' % os.getpid())); "
    "time.sleep(60)"
)


class FakeArbiter(object):
    socket_event = False
    _exclusive_running_command = None
    _restarting = False


class EvPub(object):
    closed = False

    def __init__(self):
        self.msgs = []

    def send_multipart(self, msg):
        self.msgs.append(msg)


def alive(pid):
    try:
        p = psutil.Process(pid)
        return p.is_running() and p.status() != psutil.STATUS_ZOMBIE
    except psutil.NoSuchProcess:
        return False


def kill_leftovers(pids):
    for pid in pids:
        try:
            os.kill(pid, signal.SIGKILL)
        except OSError:
            pass
        try:
            os.waitpid(pid, 0)
        except OSError:
            pass
    for proc in psutil.process_iter(["pid", "cmdline"]):
        try:
            if MARKER in (proc.info["cmdline"] or []):
                proc.kill()
        except psutil.Error:
            pass


def read_report(outdir, pid):
    """-> (wid_as_seen_by_the_worker, pid_written_by_the_worker) or None"""
    try:
        with open(os.path.join(outdir, "w.%d" % pid)) as f:
            wid, wpid = f.read().split()
        return wid, int(wpid)
    except (IOError, OSError, ValueError):
        return None


def main():
    outdir = tempfile.mkdtemp(prefix="probe_afterspawn_wid_")
    spawned = []     # pids in spawn order
    hook_wids = {}   # pid -> Process.wid as tracked by the watcher
    sent = []

    def after_spawn(watcher, arbiter, hook_name, pid, **kw):
        spawned.append(pid)
        hook_wids[pid] = watcher.processes[pid].wid
        # wait until the worker ignores SIGTERM and has written its report
        deadline = time.time() + 8
        while (not os.path.exists(os.path.join(outdir, "w.%d" % pid))
               and time.time() < deadline):
            time.sleep(0.02)
        return len(spawned) > 1      # False the first time, True afterwards

    def after_signal(watcher, arbiter, hook_name, pid, signum, **kw):
        sent.append((pid, signum))
        return True

    w = Watcher("afterspawnwid", sys.executable,
                args=["-c", WORKER_SRC, outdir, "$(circus.wid)", MARKER],
                numprocesses=1, graceful_timeout=GRACEFUL,
                hooks={"after_spawn": (after_spawn, False),
                       "after_signal": (after_signal, True)})
    w.initialize(EvPub(), {}, FakeArbiter())

    r = {}

    @gen.coroutine
    def scenario():
        # ---- first start: vetoed by after_spawn
        r["start1"] = yield w.start()
        r["status1"] = w.status()
        r["tracked1"] = sorted(w.processes)
        # ample time for graceful_timeout + (dropped) SIGKILL escalation
        yield gen.sleep(GRACEFUL + 1.2)
        if not spawned:
            return
        r["alive1_before_restart"] = alive(spawned[0])
        r["tracked_before_restart"] = sorted(w.processes)
        r["status_before_restart"] = w.status()
        r["nextwid_before_restart"] = w._nextwid
        # ---- second start: hook now returns True
        r["start2"] = yield w.start()
        r["status2"] = w.status()
        r["tracked2"] = dict((pid, p.wid) for pid, p in w.processes.items())
        yield gen.sleep(0.5)

    try:
        IOLoop.current().run_sync(scenario, timeout=25)
        if len(spawned) < 2:
            print("UNEXPECTED: after_spawn ran %d time(s), expected 2; "
                  "result=%r" % (len(spawned), r))
            return 2
        pid1, pid2 = spawned[0], spawned[1]
        rep1, rep2 = read_report(outdir, pid1), read_report(outdir, pid2)
        a1, a2 = alive(pid1), alive(pid2)

        print("graceful_timeout                        : %.1f" % GRACEFUL)
        print("--- first start (after_spawn -> False)")
        print("start() returned                        : %r" % (r["start1"],))
        print("status / tracked pids right after       : %r / %r"
              % (r["status1"], r["tracked1"]))
        print("worker #1 pid, Process.wid at hook time  : %d, %r"
              % (pid1, hook_wids[pid1]))
        print("worker #1 own report '<wid> <pid>'      : %r" % (rep1,))
        print("signals sent via Watcher.send_signal    : %r" % sent)
        print("SIGKILL delivered by watcher            : %s"
              % any(s == signal.SIGKILL for _, s in sent))
        print("after %.1fs: status=%r tracked=%r worker #1 alive=%s"
              % (GRACEFUL + 1.2, r["status_before_restart"],
                 r["tracked_before_restart"], r["alive1_before_restart"]))
        print("watcher._nextwid while #1 still alive   : %r"
              % r["nextwid_before_restart"])
        print("--- second start (after_spawn -> True)")
        print("start() returned                        : %r" % (r["start2"],))
        print("status / tracked {pid: wid}             : %r / %r"
              % (r["status2"], r["tracked2"]))
        print("worker #2 pid, Process.wid at hook time  : %d, %r"
              % (pid2, hook_wids[pid2]))
        print("worker #2 own report '<wid> <pid>'      : %r" % (rep2,))
        print("--- now")
        print("worker #1 (pid %d) alive=%s tracked=%s ; "
              "worker #2 (pid %d) alive=%s tracked=%s"
              % (pid1, a1, pid1 in w.processes, pid2, a2, pid2 in w.processes))

        if rep1 is None or rep2 is None:
            print("UNEXPECTED: a worker did not write its report")
            return 2
        same_wid = rep1[0] == rep2[0]
        if a1 and a2 and same_wid and pid1 != pid2:
            print("DEFECT PRESENT: two live workers of watcher %r share "
                  "wid %s: pid %d (survivor of the aborted start, untracked) "
                  "and pid %d (tracked)." % (w.name, rep1[0], pid1, pid2))
            return 1
        print("OK: no two live workers share a wid (wid #1=%s alive=%s, "
              "wid #2=%s alive=%s); claim not reproduced."
              % (rep1[0], a1, rep2[0], a2))
        return 0
    finally:
        kill_leftovers(spawned)
        shutil.rmtree(outdir, ignore_errors=True)


if __name__ == "__main__":
    sys.exit(main())
