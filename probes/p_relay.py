"""TransformableFuture must relay a failed upstream operation to the done-callback."""
import sys
from tornado import ioloop, gen
from tornado.concurrent import Future
from circus.util import TransformableFuture, check_future_exception_and_log
called = []
@gen.coroutine
def main():
    up = Future()
    tf = TransformableFuture()
    tf.set_upstream_future(up)
    tf.set_transform_function(lambda x: {'numprocesses': x})
    tf.add_done_callback(lambda f: called.append(check_future_exception_and_log(f)))
    up.set_exception(ValueError('operation failed'))
    yield gen.sleep(0.05)
loop = ioloop.IOLoop.current()
if not hasattr(loop, 'handle_callback_exception'):
    loop.handle_callback_exception = lambda cb: None
loop.run_sync(main)
print('done-callback invocations:', called)
ok = len(called) == 1 and isinstance(called[0], ValueError)
print('OK' if ok else 'VIOLATION: a waiting request whose operation fails is never answered')
sys.exit(0 if ok else 1)
