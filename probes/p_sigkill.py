import sys, time, signal
from tornado import gen, ioloop
from circus.watcher import Watcher
from circus import watcher as wmod
sent = []
orig = Watcher.send_signal
def spy(self, pid, signum):
    sent.append(signum); return orig(self, pid, signum)
Watcher.send_signal = spy
code = "import signal,time,sys; signal.signal(signal.SIGTERM, lambda *a: (time.sleep(0.03), sys.exit(0))); time.sleep(30)"
@gen.coroutine
def main():
    w = Watcher('x', sys.executable, args=['-c', code], graceful_timeout=0.1, numprocesses=1)
    class A: socket_event=False; _exclusive_running_command=None; _restarting=False
    w.arbiter = A()
    yield w._start()
    yield gen.sleep(0.5)
    p = list(w.processes.values())[0]
    yield w.kill_process(p)
    print('signals sent:', sent)
    yield w._stop()
ioloop.IOLoop.current().run_sync(main)
print('SIGKILL sent to a worker that exited in time' if signal.SIGKILL in sent else 'ok: no SIGKILL')
