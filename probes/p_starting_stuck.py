#!/usr/bin/env python
"""F-STARTING-STUCK probe.

Watcher._start() sets self._status = "starting" and then awaits
spawn_processes() -> spawn_process().  spawn_process() only catches
(OSError, ValueError).  With stdin_socket naming a socket that does not exist,
Process.spawn()'s preexec_fn raises in the forked child, so Popen raises
subprocess.SubprocessError ("Exception occurred in preexec_fn.") which is
neither OSError nor ValueError.  The exception escapes _start() and the
watcher is left in status 'starting' with zero processes, forever
(is_stopped() is False, is_active() is False; nothing resets it).

exit 1 = defect present, exit 0 = code behaves correctly.
"""
import os
import signal
import subprocess
import sys

import psutil
from tornado import gen
from tornado.ioloop import IOLoop

from circus.watcher import Watcher

MARKER = "PROBEA_WORKER_STARTINGSTUCK"
WORKER_SRC = "import time; time.sleep(30)"


class FakeArbiter(object):
    socket_event = False
    _exclusive_running_command = None
    _restarting = False


class EvPub(object):
    closed = False

    def __init__(self):
        self.msgs = []

    def send_multipart(self, msg):
        self.msgs.append(msg)


def kill_leftovers(pids):
    for pid in pids:
        try:
            os.kill(pid, signal.SIGKILL)
        except OSError:
            pass
        try:
            os.waitpid(pid, 0)
        except OSError:
            pass
    for proc in psutil.process_iter(["pid", "cmdline"]):
        try:
            if MARKER in (proc.info["cmdline"] or []):
                proc.kill()
        except psutil.Error:
            pass


def main():
    w = Watcher("startingstuck", sys.executable,
                args=["-c", WORKER_SRC, MARKER],
                numprocesses=1, graceful_timeout=0.3,
                stdin_socket="nosuch")
    w.initialize(EvPub(), {}, FakeArbiter())   # no socket called 'nosuch'
    obs = {}

    @gen.coroutine
    def scenario():
        obs["before"] = w.status()
        try:
            yield w._start()
            obs["exc"] = None
        except BaseException as e:      # noqa
            obs["exc"] = e
        obs["after"] = w.status()
        obs["nproc"] = len(w.processes)
        # a second start attempt: not stopped -> goes to the "top up" branch
        try:
            yield w._start()
            obs["exc2"] = None
        except BaseException as e:      # noqa
            obs["exc2"] = e
        obs["after2"] = w.status()
        # let a few loop iterations pass: nothing repairs the status
        yield gen.sleep(0.5)
        obs["later"] = w.status()

    try:
        IOLoop.current().run_sync(scenario, timeout=12)
        exc = obs.get("exc")
        print("status before _start()        : %r" % obs["before"])
        print("exception from _start()       : %s%s" % (
            type(exc).__module__ + "." + type(exc).__name__ + ": "
            if exc is not None else "", exc))
        if exc is not None:
            print("  isinstance SubprocessError  : %s" %
                  isinstance(exc, subprocess.SubprocessError))
            print("  isinstance OSError/ValueError: %s" %
                  isinstance(exc, (OSError, ValueError)))
        print("status after failed _start()  : %r  (processes: %d)" %
              (obs["after"], obs["nproc"]))
        exc2 = obs.get("exc2")
        print("2nd _start(): raised %s; status %r" % (
            type(exc2).__name__ if exc2 is not None else None, obs["after2"]))
        print("status 0.5s later             : %r" % obs["later"])
        print("is_stopped=%s is_active=%s is_stopping=%s" %
              (w.is_stopped(), w.is_active(), w.is_stopping()))
        if exc is not None and obs["after"] == "starting" and \
                obs["nproc"] == 0 and obs["later"] == "starting":
            print("DEFECT PRESENT: _start() propagated %s and left the "
                  "watcher in 'starting' with 0 processes (expected "
                  "'stopped')." % type(exc).__name__)
            return 1
        print("OK: watcher status is %r after the failed start; defect not "
              "reproduced." % obs["after"])
        return 0
    finally:
        kill_leftovers(list(w.processes))


if __name__ == "__main__":
    sys.exit(main())
