#!/usr/bin/env python
"""F-ONDEMAND-STOPPED probe.

Watcher.spawn_processes():

    if self.pending_socket_event:      # on_demand and not arbiter.socket_event
        self._status = "stopped"
        return

Scenario: on_demand watcher with numprocesses=2 is started (socket_event
True) and is 'active' with two workers.  The arbiter's socket_event flag goes
back to False.  One worker dies.  The periodic reap + manage_processes() wants
to respawn, enters spawn_processes(), and flips the whole watcher to
'stopped' -- although one worker is still alive and tracked, and without any
'stop' event / after_stop hook / actual stopping.

exit 1 = defect present, exit 0 = code behaves correctly.
"""
import json
import os
import signal
import sys
import time

import psutil
from tornado import gen
from tornado.ioloop import IOLoop

from circus.arbiter import Arbiter
from circus.watcher import Watcher

MARKER = "PROBEA_WORKER_ONDEMAND"
WORKER_SRC = "import time; time.sleep(60)"


class FakeArbiter(object):
    socket_event = False
    _exclusive_running_command = None
    _restarting = False
    watchers = ()

    def iter_watchers(self, reverse=True):
        return list(self.watchers)


class EvPub(object):
    closed = False

    def __init__(self):
        self.msgs = []

    def send_multipart(self, msg):
        self.msgs.append(msg)

    def topics(self):
        out = []
        for m in self.msgs:
            t = m[0]
            if isinstance(t, bytes):
                t = t.decode()
            out.append(t.split(".")[-1])
        return out


def alive(pid):
    try:
        p = psutil.Process(pid)
        return p.is_running() and p.status() != psutil.STATUS_ZOMBIE
    except psutil.NoSuchProcess:
        return False


def kill_leftovers(pids):
    for pid in pids:
        try:
            os.kill(pid, signal.SIGKILL)
        except OSError:
            pass
        try:
            os.waitpid(pid, 0)
        except OSError:
            pass
    for proc in psutil.process_iter(["pid", "cmdline"]):
        try:
            if MARKER in (proc.info["cmdline"] or []):
                proc.kill()
        except psutil.Error:
            pass


def main():
    arbiter = FakeArbiter()
    evpub = EvPub()
    hooks_called = []

    def after_stop(watcher, arbiter, hook_name, **kw):
        hooks_called.append(hook_name)
        return True

    w = Watcher("ondemand", sys.executable,
                args=["-c", WORKER_SRC, MARKER],
                numprocesses=2, on_demand=True, graceful_timeout=0.5,
                hooks={"after_stop": (after_stop, True)})
    w.initialize(evpub, {}, arbiter)
    arbiter.watchers = [w]
    all_pids = []
    obs = {}

    @gen.coroutine
    def scenario():
        arbiter.socket_event = True          # a connection arrived
        yield w._start()
        pids = sorted(w.processes)
        all_pids.extend(pids)
        obs["start_status"] = w.status()
        obs["start_pids"] = pids
        if len(pids) != 2 or w.status() != "active":
            return
        arbiter.socket_event = False         # back to "waiting for event"
        victim, survivor = pids
        obs["victim"], obs["survivor"] = victim, survivor
        n_before = len(evpub.msgs)
        os.kill(victim, signal.SIGKILL)
        deadline = time.time() + 5
        while time.time() < deadline:
            try:
                if psutil.Process(victim).status() == psutil.STATUS_ZOMBIE:
                    break
            except psutil.NoSuchProcess:
                break
            yield gen.sleep(0.02)
        # What the arbiter's periodic check (Arbiter.manage_watchers) does:
        # the real Arbiter.reap_processes (waitpid(-1) -> watcher.reap_process
        # (pid, status)) followed by watcher.manage_processes().
        # NB: Watcher.reap_processes() cannot be used here: on a watcher with
        # a live worker it busy-waits forever in reap_process (see
        # p_reap_spin.py).
        Arbiter.reap_processes(arbiter)
        obs["tracked_after_reap"] = sorted(w.processes)
        yield w.manage_processes()
        obs["topics_after"] = evpub.topics()[n_before:]
        obs["status"] = w.status()
        obs["tracked"] = sorted(w.processes)
        obs["survivor_alive"] = alive(survivor)
        # consequence: a later explicit stop is a no-op, worker is orphaned
        yield w._stop()
        yield gen.sleep(0.3)
        obs["after_stop_call_alive"] = alive(survivor)
        obs["after_stop_call_tracked"] = sorted(w.processes)

    try:
        IOLoop.current().run_sync(scenario, timeout=13)
        print("after _start(): status=%r pids=%r" %
              (obs.get("start_status"), obs.get("start_pids")))
        if "status" not in obs:
            print("UNEXPECTED: could not set the scenario up")
            return 2
        print("killed worker %d externally; survivor is %d" %
              (obs["victim"], obs["survivor"]))
        print("after Arbiter.reap_processes(): tracked=%r" %
              obs["tracked_after_reap"])
        print("after manage_processes() with socket_event=False:")
        print("  w.status()               : %r" % obs["status"])
        print("  tracked pids             : %r" % obs["tracked"])
        print("  survivor alive           : %s" % obs["survivor_alive"])
        print("  events published         : %r" % obs["topics_after"])
        print("  after_stop hook calls    : %r" % hooks_called)
        print("follow-up w._stop(): survivor alive=%s tracked=%r (stop is a "
              "no-op on a 'stopped' watcher)" %
              (obs["after_stop_call_alive"], obs["after_stop_call_tracked"]))
        defect = (obs["status"] == "stopped" and obs["survivor_alive"] and
                  obs["survivor"] in obs["tracked"] and
                  "stop" not in obs["topics_after"])
        if defect:
            print("DEFECT PRESENT: watcher reports 'stopped' while worker %d "
                  "is alive and still in w.processes; no 'stop' event was "
                  "published." % obs["survivor"])
            return 1
        print("OK: status stays consistent with the live worker; defect not "
              "reproduced.")
        return 0
    finally:
        kill_leftovers(all_pids + list(w.processes))


if __name__ == "__main__":
    sys.exit(main())
