"""reload of a send_hup watcher must consult before_signal before sending SIGHUP."""
import sys, signal
from tornado import gen, ioloop
from circus.watcher import Watcher
calls = []
def veto(watcher, arbiter, hook_name, pid, signum, **kw):
    calls.append(signum); return False
sent = []
import circus.process as cp
orig = cp.Process.send_signal
def spy(self, sig):
    sent.append(sig); return orig(self, sig)
cp.Process.send_signal = spy
@gen.coroutine
def main():
    w = Watcher('x', sys.executable, args=['-c', 'import time; time.sleep(30)'], send_hup=True,
                hooks={'before_signal': (veto, False)}, graceful_timeout=0.2)
    class A: socket_event=False; _exclusive_running_command=None; _restarting=False
    w.arbiter = A()
    yield w._start()
    yield w._reload()
    res = (list(calls), list(sent))
    w.hooks.clear()
    yield w._stop()
    raise gen.Return(res)
calls_, sent_ = ioloop.IOLoop.current().run_sync(main)
print('before_signal consulted for:', calls_, ' signals actually sent during reload:', sent_)
ok = signal.SIGHUP in calls_ and signal.SIGHUP not in sent_
print('OK' if ok else 'VIOLATION: SIGHUP sent although before_signal vetoed / was not consulted')
sys.exit(0 if ok else 1)
