"""reloadconfig: numprocesses 1 -> 2 -> 1 with a reload after each edit must end at 1."""
import os, sys
import tornado.ioloop
from tornado import gen
from circus.arbiter import Arbiter
CONF = '/repo/tests/config'
class FakeSocket(object):
    closed = False
    def send_multipart(self, *a): pass
    close = send_multipart
@gen.coroutine
def main():
    loop = tornado.ioloop.IOLoop.current()
    a = Arbiter.load_from_config(os.path.join(CONF, 'reload_base.ini'), loop=loop)
    a.evpub_socket = FakeSocket()
    for w in a.iter_watchers():
        a._watchers_names[w.name.lower()] = w
    w = a.get_watcher('test1')
    seq = [w.numprocesses]
    yield a.reload_from_config(os.path.join(CONF, 'reload_numprocesses.ini'))
    seq.append(a.get_watcher('test1').numprocesses)
    yield a.reload_from_config(os.path.join(CONF, 'reload_base.ini'))
    seq.append(a.get_watcher('test1').numprocesses)
    for w in a.iter_watchers():
        yield w._stop()
    a.sockets.close_all()
    raise gen.Return(seq)
seq = tornado.ioloop.IOLoop.current().run_sync(main)
print('numprocesses after each reload (file says 1, 2, 1):', seq)
ok = seq == [1, 2, 1]
print('OK' if ok else 'VIOLATION: reverting the edit is not applied (stale baseline)')
sys.exit(0 if ok else 1)
