"""stop_children: the final SIGKILL must reach the worker's children and grandchildren."""
import os, sys, time, signal, tempfile, psutil
from tornado import gen, ioloop
from circus.watcher import Watcher
LEAF = "import signal,time; signal.signal(signal.SIGTERM, signal.SIG_IGN); time.sleep(60)"
MID = ("import os,sys,time,signal,subprocess\n"
       "signal.signal(signal.SIGTERM, signal.SIG_IGN)\n"
       "c = subprocess.Popen([sys.executable,'-c',%r])\n"
       "open(sys.argv[1],'a').write(str(c.pid)+'\\n')\n"
       "time.sleep(60)\n") % LEAF
TOP = ("import os,sys,time,signal,subprocess\n"
       "signal.signal(signal.SIGTERM, signal.SIG_IGN)\n"
       "c = subprocess.Popen([sys.executable,'-c',%r, sys.argv[1]])\n"
       "open(sys.argv[1],'a').write(str(c.pid)+'\\n')\n"
       "time.sleep(60)\n") % MID
f = tempfile.mktemp()
@gen.coroutine
def main():
    w = Watcher('x', sys.executable, args=['-c', TOP, f], graceful_timeout=0.3, stop_children=True)
    class A: socket_event=False; _exclusive_running_command=None; _restarting=False
    w.arbiter = A()
    yield w._start()
    for _ in range(80):
        if os.path.exists(f) and len(open(f).read().split()) >= 2: break
        yield gen.sleep(0.1)
    pids = [int(x) for x in open(f).read().split()]
    yield gen.sleep(0.2)
    yield w._stop()
    yield gen.sleep(0.3)
    alive = [p for p in pids if psutil.pid_exists(p) and psutil.Process(p).status() != psutil.STATUS_ZOMBIE]
    raise gen.Return((pids, alive))
pids, alive = ioloop.IOLoop.current().run_sync(main)
print('descendants of the worker:', pids, ' still alive after stop with stop_children:', alive)
for p in alive:
    try: os.kill(p, signal.SIGKILL)
    except OSError: pass
try: os.unlink(f)
except OSError: pass
if alive:
    print('VIOLATION: the final SIGKILL did not reach every descendant of the worker'); sys.exit(1)
print('OK'); sys.exit(0)
