import signal, sys
from circus.util import to_signum
bad = 0
accept = {'15': 15, 15: 15, 'TERM': 15, 'term': 15, 'SIGTERM': 15, 'sigkill': 9, 'SIGRTMIN+1': signal.SIGRTMIN + 1, 'hup': 1}
for k, v in accept.items():
    r = to_signum(k)
    if r != v: bad += 1; print('WRONG', k, r)
for s in ('TERM;x', 'KILL-9', 'term garbage', '_ign', 'sig_dfl', 'nope', 'SIGNOPE', '', 'TERM+', '9 ', 'SIG'):
    try:
        r = to_signum(s)
        if s.strip().isdigit():
            continue
        bad += 1; print('ACCEPTED %r -> %r' % (s, r))
    except ValueError:
        pass
    except Exception as e:
        bad += 1; print('WRONG EXCEPTION %r -> %r' % (s, e))
print('violations:', bad); sys.exit(1 if bad else 0)
