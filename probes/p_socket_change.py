"""Probe (C12, finding F-SOCKET-CHANGE-REFUSED): editing an option of a [socket:] section that a
watcher uses makes reloadconfig fail with ValueError('Watchers ... uses a socket which is
deleted') - after the old socket was already closed and the new one bound.  The guard
`wn_with_deleted_socket not in new_wn` tests a SET for membership in a set of names, which is
never true, so the error is raised whenever a changed (or deleted) socket is referenced by any
watcher.  Exit 1 if the reload does not converge to the file, 0 if it does."""
import os, sys, tempfile, shutil, socket
from tornado import gen, ioloop
from circus.arbiter import Arbiter

tmp = tempfile.mkdtemp()
ini = os.path.join(tmp, 'c.ini')
def write(backlog):
    open(ini, 'w').write('''[circus]
endpoint = ipc://%(t)s/ctl
pubsub_endpoint = ipc://%(t)s/pub
check_delay = -1
[socket:web]
path = %(t)s/web.sock
backlog = %(b)d
[watcher:w]
cmd = sleep 60 $(circus.sockets.web)
use_sockets = True
numprocesses = 1
''' % {'t': tmp, 'b': backlog})
write(5)
loop = ioloop.IOLoop.current()
arbiter = Arbiter.load_from_config(ini, loop=loop)
rc = [0]
@gen.coroutine
def main():
    try:
        yield arbiter.start()
        old_pids = sorted(arbiter.get_watcher('w').processes)
        write(7)
        try:
            yield arbiter.reload_from_config(ini)
            print('reload accepted; socket backlog now', arbiter.sockets['web'].backlog)
            if int(arbiter.sockets['web'].backlog) != 7:
                rc[0] = 1
            names = [w.name for w in arbiter.watchers]
            new_pids = sorted(arbiter.get_watcher('w').processes)
            fd = arbiter.sockets['web'].fileno()
            argv = [open('/proc/%d/cmdline' % p).read().split('\0') for p in new_pids]
            print('watchers', names, 'old pids', old_pids, 'new pids', new_pids, 'socket fd', fd, 'argv', argv)
            import psutil
            alive_old = [p for p in old_pids if psutil.pid_exists(p) and psutil.Process(p).status() != 'zombie']
            if names != ['w'] or alive_old or len(new_pids) != 1 or str(fd) not in argv[0]:
                print('the watcher using the changed socket was not replaced cleanly: still alive', alive_old)
                rc[0] = 1
        except Exception as e:
            print('reloadconfig FAILED: %s: %s' % (type(e).__name__, e))
            print('sockets in table:', dict((k, v.backlog) for k, v in arbiter.sockets.items()))
            rc[0] = 1
    finally:
        yield arbiter.stop()
        loop.stop()
loop.add_callback(main)
loop.start()
shutil.rmtree(tmp, ignore_errors=True)
print('PROPERTY VIOLATED: the file was not applied' if rc[0] else 'OK')
sys.exit(rc[0])
