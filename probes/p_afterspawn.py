#!/usr/bin/env python
"""F-AFTERSPAWN probe.

Watcher.spawn_process(): when the after_spawn hook returns False the code does

    self.kill_process(process)          # coroutine, NOT awaited
    del self.processes[process.pid]     # entry removed at once
    return False

kill_process() sends the stop signal synchronously (pid still tracked), then
sleeps graceful_timeout and escalates to SIGKILL through
Watcher.send_signal(), which only signals pids found in self.processes.
The pid is gone by then, so SIGKILL is never delivered.  A worker that ignores
SIGTERM therefore survives the aborted start, untracked by the watcher.

exit 1 = defect present, exit 0 = code behaves correctly.
"""
import os
import signal
import sys
import tempfile
import time

import psutil
from tornado import gen
from tornado.ioloop import IOLoop

from circus.watcher import Watcher

MARKER = "PROBEA_WORKER_AFTERSPAWN"
GRACEFUL = 0.3

WORKER_SRC = (
    "import signal, sys, time; "
    "signal.signal(signal.SIGTERM, signal.SIG_IGN); "
    "open(sys.argv[1], 'w').close(); "
    "time.sleep(60)"
)


class FakeArbiter(object):
    socket_event = False
    _exclusive_running_command = None
    _restarting = False


class EvPub(object):
    closed = False

    def __init__(self):
        self.msgs = []

    def send_multipart(self, msg):
        self.msgs.append(msg)


def alive(pid):
    try:
        p = psutil.Process(pid)
        return p.is_running() and p.status() != psutil.STATUS_ZOMBIE
    except psutil.NoSuchProcess:
        return False


def kill_leftovers(pids):
    for pid in pids:
        try:
            os.kill(pid, signal.SIGKILL)
        except OSError:
            pass
        try:
            os.waitpid(pid, 0)
        except OSError:
            pass
    # belt and braces: anything carrying our marker as an exact argv element
    for proc in psutil.process_iter(["pid", "cmdline"]):
        try:
            if MARKER in (proc.info["cmdline"] or []):
                proc.kill()
        except psutil.Error:
            pass


def main():
    tmp = tempfile.mkdtemp(prefix="probe_afterspawn_")
    ready = os.path.join(tmp, "ready")
    spawned = []
    sent = []

    def after_spawn(watcher, arbiter, hook_name, pid, **kw):
        # Wait until the worker has installed its SIGTERM-ignore handler so
        # the outcome does not depend on interpreter start-up time, then
        # veto the start.
        spawned.append(pid)
        deadline = time.time() + 8
        while not os.path.exists(ready) and time.time() < deadline:
            time.sleep(0.02)
        return False

    def after_signal(watcher, arbiter, hook_name, pid, signum, **kw):
        sent.append((pid, signum))
        return True

    w = Watcher("afterspawn", sys.executable,
                args=["-c", WORKER_SRC, ready, MARKER],
                numprocesses=1, graceful_timeout=GRACEFUL,
                hooks={"after_spawn": (after_spawn, False),
                       "after_signal": (after_signal, True)})
    evpub = EvPub()
    w.initialize(evpub, {}, FakeArbiter())

    result = {}

    @gen.coroutine
    def scenario():
        yield w._start()
        result["status_after_start"] = w.status()
        result["nproc_after_start"] = len(w.processes)
        # leave ample time for graceful_timeout + SIGKILL escalation
        yield gen.sleep(1.5)

    try:
        IOLoop.current().run_sync(scenario, timeout=12)
        if not spawned:
            print("UNEXPECTED: after_spawn hook never ran")
            return 2
        pid = spawned[0]
        worker_ready = os.path.exists(ready)
        is_alive = alive(pid)
        print("worker pid                      : %d" % pid)
        print("worker installed SIGTERM ignore : %s" % worker_ready)
        print("w._start() returned; status     : %r" %
              result.get("status_after_start"))
        print("len(w.processes) after _start   : %r" %
              result.get("nproc_after_start"))
        print("signals delivered via send_signal (pid, signum): %r" % sent)
        print("SIGKILL delivered by watcher    : %s" %
              any(s == signal.SIGKILL for _, s in sent))
        print("after %.1fs (graceful_timeout=%.1f): status=%r tracked=%r "
              "worker alive=%s" % (1.5, GRACEFUL, w.status(),
                                   sorted(w.processes), is_alive))
        if is_alive and not w.processes and w.status() == "stopped":
            print("DEFECT PRESENT: worker %d survived the aborted start; the "
                  "watcher is 'stopped' with 0 tracked processes and the "
                  "SIGKILL escalation was dropped (pid no longer in "
                  "self.processes)." % pid)
            return 1
        print("OK: worker was terminated (or is still tracked); defect not "
              "reproduced.")
        return 0
    finally:
        kill_leftovers(spawned)
        try:
            if os.path.exists(ready):
                os.unlink(ready)
            os.rmdir(tmp)
        except OSError:
            pass


if __name__ == "__main__":
    sys.exit(main())
