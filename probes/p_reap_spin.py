#!/usr/bin/env python
"""F-REAP-SPIN probe.

Watcher.reap_process() busy-waits:

    while status is None:
        resulting_pid, status = os.waitpid(pid, os.WNOHANG)
        if (resulting_pid, status) == (0, 0):
            status = None
            time.sleep(timeout)          # 1 ms, synchronous
            continue

i.e. it blocks the (single-threaded) event loop until the child exits.

Scenario: a worker ignores SIGTERM.  A non-awaited kill_process() is in
flight (this is what the `kill` command does: it is waiting out its
graceful_timeout and would SIGKILL afterwards, from the event loop).  Now
_stop() is called: kill_processes() returns at once (process.stopping is
already True -> kill_process returns False), reap_processes() is called on the
'stopping' watcher and reap_process() spins on the still-live pid.  Since the
spin blocks the loop, the in-flight kill_process can never escalate to
SIGKILL: the supervisor is dead-locked until somebody else kills the worker.

A watchdog thread observes a loop heartbeat; if no heartbeat is seen for more
than BLOCK_SECS while the worker is still alive, it declares the defect and
SIGKILLs the worker from outside (which un-wedges the loop so the probe can
finish cleanly).

exit 1 = defect present, exit 0 = code behaves correctly.
"""
import os
import signal
import sys
import tempfile
import threading
import time

import psutil
from tornado import gen
from tornado.ioloop import IOLoop, PeriodicCallback

from circus.watcher import Watcher

MARKER = "PROBEA_WORKER_REAPSPIN"
GRACEFUL = 1.0          # in-flight kill would SIGKILL after 1 s
BLOCK_SECS = 5.0        # how long the loop must be wedged to call it a defect
HARD_LIMIT = 13.0       # absolute fail-safe

WORKER_SRC = (
    "import signal, sys, time; "
    "signal.signal(signal.SIGTERM, signal.SIG_IGN); "
    "open(sys.argv[1], 'w').close(); "
    "time.sleep(60)"
)


class FakeArbiter(object):
    socket_event = False
    _exclusive_running_command = None
    _restarting = False


class EvPub(object):
    closed = False

    def __init__(self):
        self.msgs = []

    def send_multipart(self, msg):
        self.msgs.append(msg)


def alive(pid):
    try:
        p = psutil.Process(pid)
        return p.is_running() and p.status() != psutil.STATUS_ZOMBIE
    except psutil.NoSuchProcess:
        return False


def kill_leftovers(pids):
    for pid in pids:
        try:
            os.kill(pid, signal.SIGKILL)
        except OSError:
            pass
        try:
            os.waitpid(pid, 0)
        except OSError:
            pass
    for proc in psutil.process_iter(["pid", "cmdline"]):
        try:
            if MARKER in (proc.info["cmdline"] or []):
                proc.kill()
        except psutil.Error:
            pass


def main():
    tmp = tempfile.mkdtemp(prefix="probe_reapspin_")
    ready = os.path.join(tmp, "ready")
    w = Watcher("reapspin", sys.executable,
                args=["-c", WORKER_SRC, ready, MARKER],
                numprocesses=1, graceful_timeout=GRACEFUL)
    w.initialize(EvPub(), {}, FakeArbiter())

    st = {
        "beat": time.time(),      # last loop heartbeat
        "stop_called": None,      # when _stop() was entered
        "stop_returned": None,
        "pid": None,
        "max_gap": 0.0,
        "wedged": False,
        "worker_alive_when_wedged": None,
        "rescued_at": None,
        "kill_future_done_at_rescue": None,
    }
    pids = []
    done = threading.Event()

    def heartbeat():
        st["beat"] = time.time()

    def watchdog():
        t0 = time.time()
        while not done.is_set():
            time.sleep(0.05)
            now = time.time()
            if st["stop_called"] is not None and st["stop_returned"] is None:
                gap = now - max(st["beat"], st["stop_called"])
                st["max_gap"] = max(st["max_gap"], gap)
                if gap > BLOCK_SECS and not st["wedged"]:
                    st["wedged"] = True
                    st["worker_alive_when_wedged"] = alive(st["pid"])
                    fut = st.get("kill_future")
                    st["kill_future_done_at_rescue"] = \
                        fut.done() if fut is not None else None
                    st["rescued_at"] = now
                    # rescue: kill the worker from outside the loop
                    try:
                        os.kill(st["pid"], signal.SIGKILL)
                    except OSError:
                        pass
            if now - t0 > HARD_LIMIT:
                sys.stdout.write("FAIL-SAFE: hard limit hit, aborting\n")
                sys.stdout.flush()
                kill_leftovers(pids)
                os._exit(1 if st["wedged"] else 2)

    @gen.coroutine
    def scenario():
        hb = PeriodicCallback(heartbeat, 50)
        hb.start()
        yield w._start()
        pid = list(w.processes)[0]
        pids.append(pid)
        st["pid"] = pid
        deadline = time.time() + 8
        while not os.path.exists(ready) and time.time() < deadline:
            yield gen.sleep(0.02)
        process = w.processes[pid]
        # like the `kill` command: schedule it, do not wait for it
        st["kill_future"] = w.kill_process(process, graceful_timeout=GRACEFUL)
        yield gen.sleep(0.3)
        st["stopping_flag"] = process.stopping
        st["alive_before_stop"] = alive(pid)
        st["stop_called"] = time.time()
        yield w._stop()
        st["stop_returned"] = time.time()
        hb.stop()

    wd = threading.Thread(target=watchdog, daemon=True)
    wd.start()
    try:
        IOLoop.current().run_sync(scenario)
        done.set()
        took = st["stop_returned"] - st["stop_called"]
        print("worker pid %d ignores SIGTERM; in-flight kill_process("
              "graceful_timeout=%.1f) scheduled, not awaited" %
              (st["pid"], GRACEFUL))
        print("before _stop(): process.stopping=%s worker alive=%s" %
              (st["stopping_flag"], st["alive_before_stop"]))
        print("_stop() took %.2fs; longest event-loop stall (no heartbeat) "
              "during _stop(): %.2fs" % (took, st["max_gap"]))
        if st["wedged"]:
            print("watchdog: loop silent for > %.1fs; worker alive at that "
                  "point=%s; in-flight kill_process finished=%s (its SIGKILL "
                  "was due after %.1fs but could not run)" %
                  (BLOCK_SECS, st["worker_alive_when_wedged"],
                   st["kill_future_done_at_rescue"], GRACEFUL))
            print("watchdog SIGKILLed the worker externally -> _stop() "
                  "returned %.2fs later" %
                  (st["stop_returned"] - st["rescued_at"]))
        if st["wedged"] and st["worker_alive_when_wedged"]:
            print("DEFECT PRESENT: reap_process() busy-waited on the live "
                  "worker and blocked the event loop for > %.1fs; the pending "
                  "SIGKILL escalation never ran." % BLOCK_SECS)
            return 1
        print("OK: _stop() completed without wedging the loop; defect not "
              "reproduced.")
        return 0
    finally:
        done.set()
        kill_leftovers(pids + list(w.processes))
        try:
            if os.path.exists(ready):
                os.unlink(ready)
            os.rmdir(tmp)
        except OSError:
            pass


if __name__ == "__main__":
    sys.exit(main())
