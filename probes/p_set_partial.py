"""F-SET-PARTIAL probe.

commands/set.py applies the options one by one with Watcher.set_opt(); if a
later option raises (uid -> util.to_uid on an unknown user, numprocesses > 1 on
a singleton) the reply is an error but the earlier options stay applied: the
`set` request is not atomic.

Driven through the real Controller.handle_message with a capturing stream.
No process is started (watchers stay stopped).

exit 1: defect present (error reply, yet warmup_delay was changed)
exit 0: error reply and watcher unchanged (or request accepted)
"""
import json
import sys
from unittest import mock

from tornado import ioloop

from circus.arbiter import Arbiter


class Stream(object):
    def __init__(self):
        self.sent = []

    def send(self, data, flags=0):
        self.sent.append(data)

    def flush(self):
        pass


def request(a, msg):
    a.ctrl.stream.sent[:] = []
    a.ctrl.handle_message([b'cid', json.dumps(msg).encode()])
    replies = [json.loads(s) for s in a.ctrl.stream.sent if s != b'cid']
    assert len(replies) == 1, replies
    return replies[0]


with mock.patch('circus.controller.SysHandler'):
    a = Arbiter([], 'ipc:///tmp/p_set_partial_ctl',
                'ipc:///tmp/p_set_partial_pub',
                loop=ioloop.IOLoop.current(), check_delay=-1)
a.ctrl.stream = Stream()

w = a.add_watcher('w', 'sleep 60', warmup_delay=0, autostart=False)
s = a.add_watcher('single', 'sleep 60', warmup_delay=0, singleton=True,
                  numprocesses=1, autostart=False)

defect = False

# --- case A: warmup_delay then an unknown uid -------------------------------
opts = {"warmup_delay": 3, "uid": "nosuchuser_xyz"}
assert list(opts) == ["warmup_delay", "uid"]
before = (w.warmup_delay, w.uid)
r = request(a, {"id": "A", "command": "set",
                "properties": {"name": "w", "options": opts}})
after = (w.warmup_delay, w.uid)
print('case A request options: %s' % json.dumps(opts))
print('case A reply: status=%r reason=%r' % (r.get('status'), r.get('reason')))
print('case A (warmup_delay, uid) before=%r after=%r' % (before, after))
if r.get('status') == 'error' and after != before:
    print('case A: PARTIAL APPLICATION (error reply but warmup_delay changed)')
    defect = True
print('case A: arbiter._exclusive_running_command = %r'
      % a._exclusive_running_command)

# --- case B: warmup_delay then numprocesses=2 on a singleton ----------------
opts = {"warmup_delay": 4, "numprocesses": 2}
assert list(opts) == ["warmup_delay", "numprocesses"]
before = (s.warmup_delay, s.numprocesses)
r = request(a, {"id": "B", "command": "set",
                "properties": {"name": "single", "options": opts}})
after = (s.warmup_delay, s.numprocesses)
print('case B request options: %s' % json.dumps(opts))
print('case B reply: status=%r reason=%r' % (r.get('status'), r.get('reason')))
print('case B (warmup_delay, numprocesses) before=%r after=%r'
      % (before, after))
if r.get('status') == 'error' and after != before:
    print('case B: PARTIAL APPLICATION (error reply but warmup_delay changed)')
    defect = True

assert not w.processes and not s.processes

if defect:
    print('DEFECT PRESENT: set is not atomic; an error reply leaves earlier '
          'options applied')
    sys.exit(1)
print('OK: failed set requests left the watchers unchanged')
sys.exit(0)
