"""Canonical local names.

Rules (and the receiver-type table) refer to local variables of anchored
functions by the names they have in the pinned tree ('waited', 'removes',
'watcher', ...).  A behaviour-preserving rename of a local must not change
any verdict, so before analysis every function is aligned with a frozen
reference table (sa/local_names.json, generated from the pinned tree by
tools/gen_local_names.py): a local whose name is not in the reference but
whose *binding fingerprints* (its binding statements with every local
replaced by '$', plus its position among the targets) equal those of a
reference local that is missing from the function is renamed back to that
reference name in the analysis AST.  Unchanged code is never touched; a
local that matches nothing keeps its name.
"""
import ast
import json
import os

from .astq import local_names, norm_text, alpha_text

TABLE = os.path.join(os.path.dirname(os.path.abspath(__file__)), 'local_names.json')


def _flatten(t):
    if isinstance(t, (ast.Tuple, ast.List)):
        out = []
        for e in t.elts:
            out.extend(_flatten(e))
        return out
    if isinstance(t, ast.Starred):
        return _flatten(t.value)
    return [t]


def binding_fingerprints(fnode):
    """local name -> sorted tuple of fingerprints of its binding sites."""
    names = local_names(fnode)
    out = {n: [] for n in names}

    def add(targets, node_or_text):
        flat = []
        for t in targets:
            flat.extend(_flatten(t))
        fp_text = alpha_text(node_or_text, fnode, names)
        for i, t in enumerate(flat):
            if isinstance(t, ast.Name) and t.id in out:
                out[t.id].append('%s @%d/%d' % (fp_text, i, len(flat)))
    for n in ast.walk(fnode):
        if isinstance(n, ast.Assign):
            add(n.targets, n)
        elif isinstance(n, (ast.AugAssign, ast.AnnAssign)):
            add([n.target], n)
        elif isinstance(n, (ast.For, ast.AsyncFor)):
            add([n.target], 'for %s in %s' % (alpha_text(n.target, fnode, names), alpha_text(n.iter, fnode, names)))
        elif isinstance(n, ast.comprehension):
            add([n.target], 'comp for %s in %s' % (alpha_text(n.target, fnode, names), alpha_text(n.iter, fnode, names)))
        elif isinstance(n, (ast.With, ast.AsyncWith)):
            for it in n.items:
                if it.optional_vars is not None:
                    add([it.optional_vars], 'with %s as %s' % (
                        alpha_text(it.context_expr, fnode, names), alpha_text(it.optional_vars, fnode, names)))
        elif isinstance(n, ast.ExceptHandler) and n.name and n.name in out:
            out[n.name].append('except %s as $' % (norm_text(n.type) if n.type else ''))
        elif isinstance(n, ast.NamedExpr):
            add([n.target], n)
    # nested function definitions are local bindings too
    for n in ast.walk(fnode):
        if isinstance(n, (ast.FunctionDef, ast.AsyncFunctionDef)) and n is not fnode:
            a = n.args
            out.setdefault(n.name, []).append('(def)(%s)' % ','.join(
                x.arg for x in a.posonlyargs + a.args + a.kwonlyargs))
    return {k: tuple(sorted(v)) for k, v in out.items()}


def first_use_order(fnode):
    order = {}
    for n in ast.walk(fnode):
        if isinstance(n, ast.Name) and n.id not in order:
            order[n.id] = (getattr(n, 'lineno', 0), getattr(n, 'col_offset', 0))
    return order


def load_table():
    if not os.path.exists(TABLE):
        return {}
    with open(TABLE) as f:
        return json.load(f)


def canonicalise(project):
    """Rename locals back to their reference names (in place). Returns the
    list of applied renames for evidence."""
    table = load_table()
    applied = []
    for key, fi in project.functions.items():
        entry = table.get(key)
        if not entry:
            continue
        ref = entry['fp']
        cur = binding_fingerprints(fi.node)
        missing = [r for r in entry['order'] if r not in cur]
        new = [c for c in cur if c not in ref]
        # a reference local whose binding sites are now shared between itself and a new
        # name (inlining a helper renames its colliding locals): merge them again
        merged = {}
        from collections import Counter
        for r in entry['order']:
            if r not in cur:
                continue
            lack = Counter(ref[r]) - Counter(cur[r])
            if not lack or Counter(cur[r]) - Counter(ref[r]):
                continue
            group = []
            for c in new:
                if c in merged or not cur[c]:
                    continue
                cc = Counter(cur[c])
                if not (cc - lack):
                    group.append(c)
                    lack = lack - cc
            if group and not lack:
                for c in group:
                    merged[c] = r
        if merged:
            for n in ast.walk(fi.node):
                if isinstance(n, ast.Name) and n.id in merged:
                    n.id = merged[n.id]
                elif isinstance(n, ast.ExceptHandler) and n.name in merged:
                    n.name = merged[n.name]
            for c, r in merged.items():
                applied.append('%s: %s -> %s (merged)' % (key, c, r))
            cur = binding_fingerprints(fi.node)
            missing = [r for r in entry['order'] if r not in cur]
            new = [c for c in cur if c not in ref]
        if not missing or not new:
            continue
        order = first_use_order(fi.node)
        new.sort(key=lambda c: order.get(c, (0, 0)))
        ren = {}
        for c in new:
            cands = [r for r in missing if tuple(ref[r]) == cur[c] and r not in ren.values()]
            if cands:
                ren[c] = cands[0]
        if not ren:
            continue
        for n in ast.walk(fi.node):
            if isinstance(n, ast.Name) and n.id in ren:
                n.id = ren[n.id]
            elif isinstance(n, ast.ExceptHandler) and n.name in ren:
                n.name = ren[n.name]
            elif isinstance(n, (ast.FunctionDef, ast.AsyncFunctionDef)) and n is not fi.node \
                    and n.name in ren:
                n.name = ren[n.name]
        for c, r in ren.items():
            isdef = any('(def)' in x for x in cur.get(c, ()))
            applied.append('%s: %s -> %s%s' % (key, c, r, ' (def)' if isdef else ''))
    return applied
