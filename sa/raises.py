"""Which in-package explicit raises can escape a function (by class name).

Lexical model: a `raise X(...)` or a call whose callee lets X escape is caught
by a lexically enclosing try *body* whose handlers name X or a base of X.
Only explicit `raise <NewException>` statements are sources (bare re-raises
and raises inside the standard library are not modelled); function values
passed as arguments (callbacks such as Popen's preexec_fn) count as calls.
"""
import ast

from .project import dotted
from .cfg import is_gen_return

BASES = {
    'IOError': 'OSError', 'EnvironmentError': 'OSError', 'socket.error': 'OSError',
    'FileNotFoundError': 'OSError', 'PermissionError': 'OSError',
    'NotImplementedError': 'RuntimeError', 'KeyError': 'LookupError',
    'IndexError': 'LookupError', 'UnicodeError': 'ValueError',
    'ImportStringError': 'ImportError', 'DeprecationWarning': 'Warning',
    'MessageError': 'Exception', 'ArgumentError': 'Exception',
    'ConflictError': 'Exception', 'AlreadyExist': 'Exception',
    'CallError': 'Exception', 'NoSuchProcess': 'Exception',
    'AccessDenied': 'Exception', 'TimeoutExpired': 'Exception',
}


def ancestors(name):
    out = [name]
    while name in BASES:
        name = BASES[name]
        out.append(name)
    if 'Exception' not in out and name not in ('KeyboardInterrupt', 'SystemExit',
                                               'BaseException', 'GeneratorExit'):
        out.append('Exception')
    out.append('BaseException')
    return out


def caught_by(handler_names, exc):
    if '*' in handler_names:
        return True
    anc = ancestors(exc)
    return any(h in anc for h in handler_names)


class Escapes(object):
    def __init__(self, ctx, ignore=()):
        self.ctx = ctx
        self.ignore = set(ignore)   # (function key, exception name) table exceptions
        self._memo = {}

    def _handler_names(self, h):
        if h.type is None:
            return ['*']
        if isinstance(h.type, ast.Tuple):
            return [(dotted(e) or '?').split('.')[-1] for e in h.type.elts]
        return [(dotted(h.type) or '?').split('.')[-1]]

    def _protect_map(self, fnode):
        """id(ast node) -> list of handler-name lists of enclosing try bodies."""
        out = {}

        def rec(node, stack):
            out[id(node)] = stack
            if isinstance(node, ast.Try):
                hs = []
                for h in node.handlers:
                    hs.extend(self._handler_names(h))
                for st in node.body:
                    rec(st, stack + [hs])
                for st in node.orelse + node.finalbody:
                    rec(st, stack)
                for h in node.handlers:
                    for st in h.body:
                        rec(st, stack)
                return
            if isinstance(node, (ast.FunctionDef, ast.AsyncFunctionDef, ast.Lambda,
                                 ast.ClassDef)) and node is not fnode:
                return
            for ch in ast.iter_child_nodes(node):
                rec(ch, stack)
        rec(fnode, [])
        return out

    def escapes(self, finfo, _stack=()):
        """-> dict exc name -> witness chain (list of str)."""
        if finfo.key in self._memo:
            return self._memo[finfo.key]
        if finfo.key in _stack or len(_stack) > 12:
            return {}
        stack = _stack + (finfo.key,)
        prot = self._protect_map(finfo.node)
        out = {}

        def add(exc, node, chain):
            if (finfo.key, exc) in self.ignore:
                return
            for hs in prot.get(id(node), []):
                if caught_by(hs, exc):
                    return
            out.setdefault(exc, chain)

        for n in ast.walk(finfo.node):
            if isinstance(n, (ast.FunctionDef, ast.Lambda)) and n is not finfo.node:
                continue
        # explicit raises (not in nested defs)
        from .project import walk_local
        for n in walk_local(finfo.node):
            if isinstance(n, ast.Raise) and n.exc is not None and not is_gen_return(n):
                e = n.exc
                f = e.func if isinstance(e, ast.Call) else e
                name = (dotted(f) or '?').split('.')[-1]
                if name[:1].isupper():
                    add(name, n, ['%s:%s raise %s' % (finfo.module.relpath, n.lineno, name)])
        for s in self.ctx.sites(finfo):
            if not s.precise or s.kind not in ('call', 'ref', 'prop'):
                continue
            for t in s.targets:
                sub = self.escapes(t, stack)
                for exc, chain in sub.items():
                    add(exc, s.call, ['%s:%s %s -> %s' % (finfo.module.relpath,
                                                          s.node.lineno, finfo.qualname,
                                                          t.qualname)] + chain)
        for t, s in self.ctx.cg._property_reads(finfo):
            sub = self.escapes(t, stack)
            for exc, chain in sub.items():
                add(exc, s.call, ['%s:%s %s reads %s' % (finfo.module.relpath,
                                                         s.node.lineno, finfo.qualname,
                                                         t.qualname)] + chain)
        if not _stack:
            self._memo[finfo.key] = out
        return out

    def node_escapes(self, finfo, node):
        """Exceptions that can escape `finfo` from CFG node `node`."""
        prot = self._protect_map(finfo.node)
        out = {}
        sites = [s for s in self.ctx.sites(finfo) if s.node is node and s.precise]
        sites += [s for t, s in self.ctx.cg._property_reads(finfo) if s.node is node]
        for s in sites:
            for t in s.targets:
                for exc, chain in self.escapes(t).items():
                    if any(caught_by(hs, exc) for hs in prot.get(id(s.call), [])):
                        continue
                    out.setdefault(exc, ['%s:%s %s -> %s' % (
                        finfo.module.relpath, node.lineno, finfo.qualname,
                        t.qualname)] + chain)
        return out
