"""Statement-level control-flow graph for one Python function.

Nodes:  entry, exit (normal return / fall off the end), raise (exception
leaves the function), stmt, test (If/While condition), iter (For header),
with (With header), except (handler entry), finally (entry marker of one copy
of a finally body).  `raise gen.Return(x)` is a *return*.  finally bodies are
duplicated per way of entering them (normal / exc / return / break /
continue), so path questions stay precise.

All path questions are answered by plain reachability with an `avoid` set:
  dominates(a, b)      = b unreachable from entry when a is removed
  must_pass(src,dst,v) = dst unreachable from src when v is removed
Graphs here have < 300 nodes, so no dominator tree is needed.
"""
import ast

from .project import AnalysisError, dotted, walk_local

SIMPLE = (ast.Expr, ast.Assign, ast.AugAssign, ast.AnnAssign, ast.Delete,
          ast.Assert, ast.Pass, ast.Global, ast.Nonlocal, ast.Import,
          ast.ImportFrom)

# platform assumptions (posix): used to prune dead branches when asked
POSIX_CONSTS = {
    'IS_WINDOWS': False,
    "hasattr(signal, 'SIGKILL')": True,
    "hasattr(os, 'WIFSIGNALED')": True,
    "hasattr(socket, 'AF_UNIX')": True,
    "hasattr(signal, 'siginterrupt')": True,
}


def static_truth(expr, consts):
    if not consts:
        consts = {}
    if isinstance(expr, ast.Constant):
        return bool(expr.value)
    if isinstance(expr, ast.UnaryOp) and isinstance(expr.op, ast.Not):
        v = static_truth(expr.operand, consts)
        return None if v is None else (not v)
    try:
        txt = ast.unparse(expr)
    except Exception:
        return None
    if txt in consts:
        return consts[txt]
    d = dotted(expr)
    if d and d.split('.')[-1] in consts:
        return consts[d.split('.')[-1]]
    return None


class Node(object):
    __slots__ = ('id', 'kind', 'ast', 'stmt', 'lineno', 'tag')

    def __init__(self, id, kind, astnode=None, stmt=None, tag=None):
        self.id = id
        self.kind = kind
        self.ast = astnode      # what is evaluated at this node
        self.stmt = stmt if stmt is not None else astnode  # enclosing statement
        self.lineno = getattr(astnode, 'lineno', None)
        self.tag = tag

    def exprs(self):
        """AST subtrees evaluated at this node."""
        a = self.ast
        if a is None:
            return []
        if self.kind == 'iter':
            return [a.iter, a.target]
        if self.kind == 'with':
            out = []
            for it in a.items:
                out.append(it.context_expr)
                if it.optional_vars is not None:
                    out.append(it.optional_vars)
            return out
        if self.kind == 'except':
            return [a.type] if a.type is not None else []
        if isinstance(a, (ast.FunctionDef, ast.AsyncFunctionDef, ast.ClassDef)):
            return list(a.decorator_list)
        return [a]

    def walk(self):
        for e in self.exprs():
            yield e
            for n in walk_local(e):
                yield n

    def calls(self):
        return [n for n in self.walk() if isinstance(n, ast.Call)]

    def text(self):
        if self.ast is None:
            return '<%s>' % self.kind
        try:
            if self.kind == 'iter':
                return 'for %s in %s' % (ast.unparse(self.ast.target),
                                         ast.unparse(self.ast.iter))
            if self.kind == 'with':
                return 'with ' + ', '.join(ast.unparse(i) for i in self.ast.items)
            if self.kind == 'except':
                return 'except ' + (ast.unparse(self.ast.type) if self.ast.type else '')
            if self.kind == 'test':
                return 'if/while ' + ast.unparse(self.ast)
            if isinstance(self.ast, (ast.FunctionDef, ast.ClassDef)):
                return 'def ' + self.ast.name
            return ast.unparse(self.ast)
        except Exception:
            return '<%s>' % self.kind

    def __repr__(self):
        return '<N%d %s L%s %s>' % (self.id, self.kind, self.lineno,
                                    self.text()[:50])


# calls that cannot raise for any argument (builtins used as guards, logging)
TOTAL_CALLS = frozenset(['isinstance', 'hasattr', 'callable', 'id', 'type',
                         'functools.partial', 'partial', 'time.time',
                         'logger.debug', 'logger.info', 'logger.warning',
                         'logger.warn', 'logger.error', 'logger.exception'])


def default_may_raise(node):
    for n in node.walk():
        if isinstance(n, ast.Call):
            if (dotted(n.func) or '') in TOTAL_CALLS:
                continue
            return True
        if isinstance(n, (ast.Raise, ast.Yield, ast.YieldFrom,
                          ast.Await, ast.Delete)):
            return True
        if isinstance(n, ast.Subscript) and isinstance(n.ctx, ast.Load):
            return True
    return False


def is_gen_return(stmt):
    """raise gen.Return(x) / raise tornado.gen.Return(x) / raise Return(x)"""
    if isinstance(stmt, ast.Raise) and stmt.exc is not None:
        e = stmt.exc
        f = e.func if isinstance(e, ast.Call) else e
        d = dotted(f)
        if d and d.split('.')[-1] == 'Return':
            return True
    return False


CATCH_ALL = ('Exception', 'BaseException')


def handler_is_catch_all(h):
    if h.type is None:
        return True
    names = []
    if isinstance(h.type, ast.Tuple):
        names = [dotted(e) for e in h.type.elts]
    else:
        names = [dotted(h.type)]
    return any(n and n.split('.')[-1] in CATCH_ALL for n in names)


def handler_names(h):
    if h.type is None:
        return ['*']
    if isinstance(h.type, ast.Tuple):
        return [(dotted(e) or '?').split('.')[-1] for e in h.type.elts]
    return [(dotted(h.type) or '?').split('.')[-1]]


class CFG(object):
    def __init__(self, func_node, consts=None, may_raise=None):
        self.func = func_node
        self.consts = consts
        self.may_raise = may_raise or default_may_raise
        self.nodes = []
        self.succ = {}
        self.pred = {}
        self.entry = self._new('entry')
        self.exit = self._new('exit')
        self.raise_exit = self._new('raise')
        outs = self._block(func_node.body, [(self.entry, 'next')], [])
        for p, lab in outs:
            self._edge(p, self.exit, lab)

    # -- construction ----------------------------------------------------
    def _new(self, kind, astnode=None, stmt=None, tag=None):
        n = Node(len(self.nodes), kind, astnode, stmt, tag)
        self.nodes.append(n)
        self.succ[n.id] = []
        self.pred[n.id] = []
        return n

    def _edge(self, a, b, label='next'):
        if (b.id, label) not in self.succ[a.id]:
            self.succ[a.id].append((b.id, label))
            self.pred[b.id].append((a.id, label))

    def _link(self, preds, node):
        for p, lab in preds:
            self._edge(p, node, lab)

    def _block(self, stmts, preds, frames):
        for s in stmts:
            preds = self._stmt(s, preds, frames)
        return preds

    # frames: list of dicts
    #  {'k':'loop','breaks':[], 'cont':node}
    #  {'k':'except','handlers':[nodes], 'all':bool}
    #  {'k':'finally','body':stmts,'copies':{}}
    def _raise_from(self, node, frames, label='exc'):
        i = len(frames) - 1
        while i >= 0:
            fr = frames[i]
            if fr['k'] == 'except':
                for h in fr['handlers']:
                    self._edge(node, h, label)
                if fr['all']:
                    return
            elif fr['k'] == 'finally':
                ent = self._finally_copy(fr, 'exc', frames[:i])
                self._edge(node, ent, label)
                return
            i -= 1
        self._edge(node, self.raise_exit, label)

    def _finally_copy(self, fr, kind, outer_frames, extra=None):
        key = (kind, extra)
        if key in fr['copies']:
            return fr['copies'][key]
        ent = self._new('finally', None, None, tag=kind)
        ent.lineno = fr['body'][0].lineno if fr['body'] else None
        fr['copies'][key] = ent
        outs = self._block(fr['body'], [(ent, 'next')], outer_frames)
        # continuation after the copy
        for p, lab in outs:
            if kind == 'exc':
                self._raise_from(p, outer_frames,
                                 label=lab if lab in ('true', 'false') else 'reraise')
            elif kind == 'return':
                self._return_from(p, outer_frames, label=lab)
            elif kind == 'break':
                self._break_from(p, outer_frames, label=lab)
            elif kind == 'continue':
                self._continue_from(p, outer_frames, label=lab)
        return ent

    def _return_from(self, node, frames, label='return'):
        i = len(frames) - 1
        while i >= 0:
            fr = frames[i]
            if fr['k'] == 'finally':
                ent = self._finally_copy(fr, 'return', frames[:i])
                self._edge(node, ent, label)
                return
            i -= 1
        self._edge(node, self.exit, label)

    def _break_from(self, node, frames, label='break'):
        i = len(frames) - 1
        while i >= 0:
            fr = frames[i]
            if fr['k'] == 'finally':
                ent = self._finally_copy(fr, 'break', frames[:i])
                self._edge(node, ent, label)
                return
            if fr['k'] == 'loop':
                fr['breaks'].append((node, label))
                return
            i -= 1
        raise AnalysisError('break outside loop')

    def _continue_from(self, node, frames, label='continue'):
        i = len(frames) - 1
        while i >= 0:
            fr = frames[i]
            if fr['k'] == 'finally':
                ent = self._finally_copy(fr, 'continue', frames[:i])
                self._edge(node, ent, label)
                return
            if fr['k'] == 'loop':
                self._edge(node, fr['cont'], label)
                return
            i -= 1
        raise AnalysisError('continue outside loop')

    def _maybe_raise(self, node, frames):
        if self.may_raise(node):
            self._raise_from(node, frames)

    def _stmt(self, s, preds, frames):
        if isinstance(s, SIMPLE):
            n = self._new('stmt', s)
            self._link(preds, n)
            self._maybe_raise(n, frames)
            return [(n, 'next')]
        if isinstance(s, (ast.FunctionDef, ast.AsyncFunctionDef, ast.ClassDef)):
            n = self._new('stmt', s)
            self._link(preds, n)
            return [(n, 'next')]
        if isinstance(s, ast.Return):
            n = self._new('stmt', s)
            self._link(preds, n)
            self._maybe_raise(n, frames)
            self._return_from(n, frames)
            return []
        if isinstance(s, ast.Raise):
            n = self._new('stmt', s)
            self._link(preds, n)
            if is_gen_return(s):
                n.tag = 'gen_return'
                self._return_from(n, frames)
            else:
                self._raise_from(n, frames, label='raise')
            return []
        if isinstance(s, ast.Break):
            n = self._new('stmt', s)
            self._link(preds, n)
            self._break_from(n, frames)
            return []
        if isinstance(s, ast.Continue):
            n = self._new('stmt', s)
            self._link(preds, n)
            self._continue_from(n, frames)
            return []
        if isinstance(s, ast.If):
            t = self._new('test', s.test, stmt=s)
            self._link(preds, t)
            self._maybe_raise(t, frames)
            tv = static_truth(s.test, self.consts)
            outs = []
            if tv is not False:
                outs += self._block(s.body, [(t, 'true')], frames)
            if tv is not True:
                if s.orelse:
                    outs += self._block(s.orelse, [(t, 'false')], frames)
                else:
                    outs.append((t, 'false'))
            return outs
        if isinstance(s, ast.While):
            t = self._new('test', s.test, stmt=s)
            self._link(preds, t)
            self._maybe_raise(t, frames)
            fr = {'k': 'loop', 'breaks': [], 'cont': t}
            tv = static_truth(s.test, self.consts)
            body_out = self._block(s.body, [(t, 'true')], frames + [fr])
            for p, lab in body_out:
                self._edge(p, t, lab if lab in ('true', 'false') else 'back')
            outs = []
            if tv is not True:
                if s.orelse:
                    outs += self._block(s.orelse, [(t, 'false')], frames)
                else:
                    outs.append((t, 'false'))
            outs += fr['breaks']
            return outs
        if isinstance(s, (ast.For, ast.AsyncFor)):
            h = self._new('iter', s, stmt=s)
            self._link(preds, h)
            self._maybe_raise(h, frames)
            fr = {'k': 'loop', 'breaks': [], 'cont': h}
            body_out = self._block(s.body, [(h, 'true')], frames + [fr])
            for p, lab in body_out:
                self._edge(p, h, lab if lab in ('true', 'false') else 'back')
            outs = []
            if s.orelse:
                outs += self._block(s.orelse, [(h, 'false')], frames)
            else:
                outs.append((h, 'false'))
            outs += fr['breaks']
            return outs
        if isinstance(s, (ast.With, ast.AsyncWith)):
            w = self._new('with', s, stmt=s)
            self._link(preds, w)
            self._maybe_raise(w, frames)
            return self._block(s.body, [(w, 'next')], frames)
        if isinstance(s, ast.Try) or type(s).__name__ == 'TryStar':
            return self._try(s, preds, frames)
        if hasattr(ast, 'Match') and isinstance(s, ast.Match):
            # subject, then one test per case (pattern + guard); an irrefutable
            # last case has no false edge
            subj = ast.Expr(value=s.subject)
            ast.copy_location(subj, s)
            m = self._new('stmt', subj, stmt=s)
            self._link(preds, m)
            self._maybe_raise(m, frames)
            cur = [(m, 'next')]
            outs = []
            for case in s.cases:
                guard = case.guard if case.guard is not None else ast.Constant(value=True)
                ast.copy_location(guard, case.pattern)
                t = self._new('test', guard, stmt=s)
                t.tag = 'case'
                self._link(cur, t)
                if case.guard is not None:
                    self._maybe_raise(t, frames)
                outs += self._block(case.body, [(t, 'true')], frames)
                irrefutable = case.guard is None and isinstance(case.pattern, ast.MatchAs) \
                    and case.pattern.pattern is None
                cur = [] if irrefutable else [(t, 'false')]
            return outs + cur
        raise AnalysisError('statement kind %s not modelled (line %s)'
                            % (type(s).__name__, getattr(s, 'lineno', '?')))

    def _try(self, s, preds, frames):
        inner = list(frames)
        ffr = None
        if s.finalbody:
            ffr = {'k': 'finally', 'body': s.finalbody, 'copies': {}}
            inner = inner + [ffr]
        hnodes = []
        for h in s.handlers:
            hn = self._new('except', h, stmt=s)
            hnodes.append(hn)
        body_frames = inner
        if s.handlers:
            efr = {'k': 'except', 'handlers': hnodes,
                   'all': any(handler_is_catch_all(h) for h in s.handlers)}
            body_frames = inner + [efr]
        outs = self._block(s.body, preds, body_frames)
        if s.orelse:
            outs = self._block(s.orelse, outs, inner)
        for h, hn in zip(s.handlers, hnodes):
            outs += self._block(h.body, [(hn, 'next')], inner)
        if ffr is not None:
            ent = self._new('finally', None, None, tag='normal')
            ent.lineno = s.finalbody[0].lineno
            self._link(outs, ent)
            outs = self._block(s.finalbody, [(ent, 'next')], frames)
        return outs

    # -- queries ---------------------------------------------------------
    def select(self, pred):
        return [n for n in self.nodes if pred(n)]

    def reach(self, srcs, avoid=(), labels_excluded=(), include_src=False,
              edges_excluded=()):
        """Nodes reachable from srcs (exclusive unless include_src) by paths
        that never enter a node in `avoid` and never take an edge
        (src_id, label) listed in edges_excluded."""
        if isinstance(srcs, Node):
            srcs = [srcs]
        avoid_ids = set(n.id if isinstance(n, Node) else n for n in avoid)
        seen = set()
        todo = []
        for s in srcs:
            sid = s.id if isinstance(s, Node) else s
            if sid in avoid_ids:
                continue
            if include_src:
                seen.add(sid)
            todo.append(sid)
        expanded = set()
        while todo:
            cur = todo.pop()
            if cur in expanded:
                continue
            expanded.add(cur)
            for nxt, lab in self.succ[cur]:
                if lab in labels_excluded or nxt in avoid_ids:
                    continue
                if edges_excluded and (cur, lab) in edges_excluded:
                    continue
                if nxt not in seen:
                    seen.add(nxt)
                todo.append(nxt)
        return seen

    def reachable(self, src, dst, avoid=(), labels_excluded=()):
        return dst.id in self.reach(src, avoid, labels_excluded)

    def dominates(self, a_set, b, labels_excluded=()):
        """Every path entry -> b passes through some node of a_set."""
        if isinstance(a_set, Node):
            a_set = [a_set]
        if b in a_set:
            return True
        return b.id not in self.reach(self.entry, a_set, labels_excluded)

    def must_pass(self, src, dst_set, via_set, labels_excluded=(), edges_excluded=()):
        """Every path src -> any dst passes through via_set."""
        if isinstance(dst_set, Node):
            dst_set = [dst_set]
        if isinstance(via_set, Node):
            via_set = [via_set]
        r = self.reach(src, via_set, labels_excluded, edges_excluded=edges_excluded)
        return not any(d.id in r for d in dst_set)

    def path(self, src, dst, avoid=(), labels_excluded=(), edges_excluded=()):
        """A shortest witness path (list of nodes) src -> dst avoiding `avoid`."""
        avoid_ids = set(n.id if isinstance(n, Node) else n for n in avoid)
        prev = {}
        todo = [src.id]
        found = False
        while todo and not found:
            nxt_todo = []
            for cur in todo:
                for nxt, lab in self.succ[cur]:
                    if lab in labels_excluded or nxt in avoid_ids:
                        continue
                    if edges_excluded and (cur, lab) in edges_excluded:
                        continue
                    if nxt in prev:
                        continue
                    prev[nxt] = cur
                    if nxt == dst.id:
                        found = True
                        break
                    nxt_todo.append(nxt)
                if found:
                    break
            todo = nxt_todo
        if not found:
            return None
        out = [dst.id]
        cur = prev[dst.id]
        while cur != src.id:
            out.append(cur)
            cur = prev[cur]
        out.append(src.id)
        return [self.nodes[i] for i in reversed(out)]

    def path_text(self, path):
        return ['L%s %s: %s' % (n.lineno, n.kind, n.text()[:100]) for n in path]

    def normal_exits_from(self, src, avoid=()):
        return self.exit.id in self.reach(src, avoid)

    def edge_label(self, a, b):
        for nxt, lab in self.succ[a.id]:
            if nxt == b.id:
                return lab
        return None

    def branch_nodes(self, test_node, label):
        """Nodes reachable by first taking the `label` edge out of test_node
        and never returning to test_node."""
        starts = [self.nodes[n] for n, lab in self.succ[test_node.id] if lab == label]
        out = set()
        for s in starts:
            out.add(s.id)
            out |= self.reach(s, avoid=[test_node])
        return out

    def stats(self):
        return {'nodes': len(self.nodes),
                'edges': sum(len(v) for v in self.succ.values())}


def cfg_of(finfo, consts=None, may_raise=None):
    key = (tuple(sorted(consts.items())) if consts else None, may_raise)
    c = finfo._cfg.get(key)
    if c is None:
        c = CFG(finfo.node, consts=consts, may_raise=may_raise)
        finfo._cfg[key] = c
    return c
