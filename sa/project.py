"""Parse /repo/circus (never import it) and index modules, classes, functions.

Stdlib only.  Everything a rule consults comes from here, so the list of
files and digests that goes into evidence is the list of what was analysed.
"""
import ast
import hashlib
import os


class AnalysisError(Exception):
    """The analysis itself cannot run (vanished anchor, unparseable file,
    unrecognised form).  Exit code 2, never a VIOLATION."""


def dotted(node):
    """'a.b.c' for Name/Attribute chains, else None."""
    parts = []
    while isinstance(node, ast.Attribute):
        parts.append(node.attr)
        node = node.value
    if isinstance(node, ast.Name):
        parts.append(node.id)
        return '.'.join(reversed(parts))
    return None


def norm_decorator(d):
    """Normalise a decorator expression to a short tag."""
    if isinstance(d, ast.Call):
        name = dotted(d.func) or ''
        base = name.split('.')[-1]
        if base == 'synchronized':
            arg = None
            if d.args and isinstance(d.args[0], ast.Constant):
                arg = d.args[0].value
            return ('synchronized', arg)
        return (base, None)
    name = dotted(d) or ''
    base = name.split('.')[-1]
    if base == 'coroutine':
        return ('coroutine', None)
    return (base, None)


class FuncInfo(object):
    def __init__(self, module, qualname, node, cls=None, parent=None):
        self.module = module          # ModuleInfo
        self.qualname = qualname      # 'Watcher._stop', 'synchronized.real_decorator.wrapper'
        self.node = node
        self.cls = cls                # ClassInfo or None
        self.parent = parent          # enclosing FuncInfo for nested defs
        self.decorators = [norm_decorator(d) for d in node.decorator_list]
        self.nested = {}              # name -> FuncInfo
        self._cfg = {}

    @property
    def name(self):
        return self.node.name

    @property
    def key(self):
        return '%s:%s' % (self.module.name, self.qualname)

    @property
    def is_coroutine(self):
        return isinstance(self.node, ast.AsyncFunctionDef) or \
            any(t == 'coroutine' for t, _ in self.decorators)

    @property
    def synchronized(self):
        for t, a in self.decorators:
            if t == 'synchronized':
                return a or True
        return None

    @property
    def is_generator(self):
        for n in walk_local(self.node):
            if isinstance(n, (ast.Yield, ast.YieldFrom)):
                return True
        return False

    def deco_index(self, tag):
        for i, (t, _) in enumerate(self.decorators):
            if t == tag:
                return i
        return None

    def where(self, node=None):
        ln = getattr(node, 'lineno', None) if node is not None else self.node.lineno
        return '%s:%s (%s)' % (self.module.relpath, ln, self.qualname)

    def __repr__(self):
        return '<fn %s>' % self.key


class ClassInfo(object):
    def __init__(self, module, name, node):
        self.module = module
        self.name = name
        self.node = node
        self.methods = {}      # name -> FuncInfo
        self.base_exprs = [dotted(b) for b in node.bases]
        self.bases = []        # resolved ClassInfo (in-package only)
        self.subclasses = []
        self.class_attrs = {}  # name -> ast value (simple assigns)

    @property
    def key(self):
        return '%s:%s' % (self.module.name, self.name)

    def mro(self):
        """In-package linearisation (depth-first, left-to-right, dedup)."""
        out = []
        seen = set()

        def rec(c):
            if c.key in seen:
                return
            seen.add(c.key)
            out.append(c)
            for b in c.bases:
                rec(b)
        rec(self)
        return out

    def lookup(self, name):
        for c in self.mro():
            if name in c.methods:
                return c.methods[name]
        return None

    def all_subclasses(self):
        out = []
        todo = list(self.subclasses)
        while todo:
            c = todo.pop()
            if c not in out:
                out.append(c)
                todo.extend(c.subclasses)
        return out

    def is_subclass_of(self, name):
        return any(c.name == name for c in self.mro())

    def attr(self, name):
        for c in self.mro():
            if name in c.class_attrs:
                return c.class_attrs[name]
        return None

    def __repr__(self):
        return '<class %s>' % self.key


class ModuleInfo(object):
    def __init__(self, name, path, relpath, src):
        self.name = name
        self.path = path
        self.relpath = relpath
        self.src = src
        self.sha256 = hashlib.sha256(src.encode('utf8')).hexdigest()
        try:
            self.tree = ast.parse(src, filename=path)
        except SyntaxError as e:
            raise AnalysisError('cannot parse %s: %s' % (relpath, e))
        self.functions = {}   # top-level name -> FuncInfo
        self.classes = {}     # name -> ClassInfo
        self.imports = {}     # local name -> dotted target ('circus.util', 'circus.util.to_signum')
        self.assigns = {}     # top-level NAME -> value node


def walk_local(node, include_self=False):
    """ast.walk that does not descend into nested function/class/lambda
    bodies (they are not executed where they are written)."""
    todo = list(ast.iter_child_nodes(node)) if not include_self else [node]
    while todo:
        n = todo.pop()
        yield n
        if isinstance(n, (ast.FunctionDef, ast.AsyncFunctionDef, ast.ClassDef,
                          ast.Lambda)):
            # decorators/defaults are evaluated here, bodies are not
            continue
        todo.extend(ast.iter_child_nodes(n))


class Project(object):
    def __init__(self, root=None, package='circus', canonical=True, normalise=None):
        self.canonical = canonical
        self.normalise = canonical if normalise is None else normalise
        self.normal_form = {}
        self.local_renames = []
        self.root = os.path.abspath(root or os.environ.get('VERIF_REPO', '/repo'))
        self.package = package
        self.modules = {}
        self.classes = {}     # 'mod:Class' -> ClassInfo
        self.functions = {}   # 'mod:qual' -> FuncInfo
        self.consulted = set()
        self._load()
        self._link()
        if canonical:
            from .localnames import canonicalise
            self.local_renames = canonicalise(self)
            if any('(def)' in r for r in self.local_renames):
                self._reindex()
                self.local_renames += canonicalise(self)

    # -- loading ---------------------------------------------------------
    def _load(self):
        pkgdir = os.path.join(self.root, self.package)
        if not os.path.isdir(pkgdir):
            raise AnalysisError('package directory %s missing' % pkgdir)
        for dirpath, dirnames, filenames in os.walk(pkgdir):
            dirnames[:] = sorted(d for d in dirnames
                                 if d not in ('__pycache__', 'tests'))
            for fn in sorted(filenames):
                if not fn.endswith('.py'):
                    continue
                path = os.path.join(dirpath, fn)
                rel = os.path.relpath(path, self.root)
                mod = rel[:-3].replace(os.sep, '.')
                if mod.endswith('.__init__'):
                    mod = mod[:-9]
                with open(path, encoding='utf8') as f:
                    src = f.read()
                m = ModuleInfo(mod, path, rel, src)
                self.modules[mod] = m
        if self.normalise:
            from .normalize import normalise_trees, StageFailure
            disabled = []
            for attempt in range(5):
                try:
                    self.normal_form = normalise_trees(
                        {n: m.tree for n, m in self.modules.items()}, disabled=tuple(disabled))
                    break
                except RecursionError as e:
                    raise AnalysisError('normalisation failed: %s' % e)
                except StageFailure as e:
                    # parse again and go on without the stage that failed
                    disabled.append(e.stage)
                    self.notes = getattr(self, 'notes', []) + ['normaliser stage skipped: %s' % e]
                    for m in self.modules.values():
                        m.tree = ast.parse(m.src, filename=m.path)
        for m in self.modules.values():
            self._index_module(m)

    def _reindex(self):
        self.classes, self.functions = {}, {}
        for m in self.modules.values():
            m.functions, m.classes, m.imports, m.assigns = {}, {}, {}, {}
            self._index_module(m)
        self._link()

    def _index_module(self, m):
        for node in m.tree.body:
            self._index_stmt(m, node)

    def _index_stmt(self, m, node):
        if isinstance(node, (ast.FunctionDef, ast.AsyncFunctionDef)):
            fi = FuncInfo(m, node.name, node)
            m.functions[node.name] = fi
            self.functions[fi.key] = fi
            self._index_nested(fi)
        elif isinstance(node, ast.ClassDef):
            self._index_class(m, node, prefix='')
        elif isinstance(node, ast.Import):
            for a in node.names:
                m.imports[a.asname or a.name.split('.')[0]] = (
                    a.name if a.asname else a.name.split('.')[0])
        elif isinstance(node, ast.ImportFrom):
            base = node.module or ''
            if node.level:
                pkg = m.name.split('.')
                if not m.path.endswith('__init__.py'):
                    pkg = pkg[:-1]
                pkg = pkg[:len(pkg) - (node.level - 1)]
                base = '.'.join(pkg + ([node.module] if node.module else []))
            for a in node.names:
                m.imports[a.asname or a.name] = '%s.%s' % (base, a.name)
        elif isinstance(node, ast.Assign):
            for t in node.targets:
                if isinstance(t, ast.Name):
                    m.assigns[t.id] = node.value
        elif isinstance(node, (ast.If, ast.Try)):
            # top-level conditional definitions (try: import x / if IS_WINDOWS)
            for sub in ast.iter_child_nodes(node):
                if isinstance(sub, ast.stmt):
                    self._index_stmt(m, sub)
                elif isinstance(sub, ast.ExceptHandler):
                    for s2 in sub.body:
                        self._index_stmt(m, s2)

    def _index_class(self, m, node, prefix):
        ci = ClassInfo(m, prefix + node.name, node)
        m.classes[ci.name] = ci
        self.classes[ci.key] = ci
        for b in node.body:
            if isinstance(b, (ast.FunctionDef, ast.AsyncFunctionDef)):
                fi = FuncInfo(m, '%s.%s' % (ci.name, b.name), b, cls=ci)
                ci.methods[b.name] = fi
                self.functions[fi.key] = fi
                self._index_nested(fi)
            elif isinstance(b, ast.ClassDef):
                self._index_class(m, b, prefix=ci.name + '.')
            elif isinstance(b, ast.Assign):
                for t in b.targets:
                    if isinstance(t, ast.Name):
                        ci.class_attrs[t.id] = b.value
            elif isinstance(b, ast.If):
                # class-level platform switch: take the POSIX branch when the
                # test is one of the platform constants, else the last binding
                from .cfg import static_truth, POSIX_CONSTS
                v = static_truth(b.test, POSIX_CONSTS)
                parts = [b.body] if v is True else [b.orelse] if v is False else [b.body, b.orelse]
                for part in parts:
                    for x in part:
                        if isinstance(x, ast.Assign):
                            for t in x.targets:
                                if isinstance(t, ast.Name):
                                    ci.class_attrs[t.id] = x.value
        return ci

    def _index_nested(self, fi):
        def rec(node, parent):
            for n in ast.iter_child_nodes(node):
                if isinstance(n, (ast.FunctionDef, ast.AsyncFunctionDef)):
                    sub = FuncInfo(parent.module,
                                   '%s.%s' % (parent.qualname, n.name), n,
                                   cls=None, parent=parent)
                    sub.outer_cls = getattr(parent, 'outer_cls', None) or parent.cls
                    parent.nested[n.name] = sub
                    self.functions[sub.key] = sub
                    rec(n, sub)
                elif isinstance(n, (ast.ClassDef, ast.Lambda)):
                    continue
                else:
                    rec(n, parent)
        rec(fi.node, fi)

    def _link(self):
        for ci in self.classes.values():
            for b in ci.base_exprs:
                if not b:
                    continue
                target = self.resolve_class(ci.module, b)
                if target is not None and target is not ci:
                    ci.bases.append(target)
                    target.subclasses.append(ci)

    # -- lookups ---------------------------------------------------------
    def resolve_name(self, module, name):
        """Resolve a dotted name seen in `module` to an in-package object:
        ('func', FuncInfo) / ('class', ClassInfo) / ('module', ModuleInfo) /
        ('method', FuncInfo) / None."""
        parts = name.split('.')
        head = parts[0]
        cur = None
        if head in module.functions:
            cur = ('func', module.functions[head])
        elif head in module.classes:
            cur = ('class', module.classes[head])
        elif head in module.imports:
            cur = self._resolve_abs(module.imports[head])
        elif head == self.package and head in self.modules:
            cur = ('module', self.modules[head])
        if cur is None:
            return None
        for p in parts[1:]:
            kind, obj = cur
            if kind == 'module':
                nxt = None
                if p in obj.functions:
                    nxt = ('func', obj.functions[p])
                elif p in obj.classes:
                    nxt = ('class', obj.classes[p])
                elif obj.name + '.' + p in self.modules:
                    nxt = ('module', self.modules[obj.name + '.' + p])
                elif p in obj.imports:
                    nxt = self._resolve_abs(obj.imports[p])
                if nxt is None:
                    return None
                cur = nxt
            elif kind == 'class':
                f = obj.lookup(p)
                if f is None:
                    sub = obj.module.classes.get(obj.name + '.' + p)
                    if sub is not None:
                        cur = ('class', sub)
                        continue
                    return None
                cur = ('method', f)
            else:
                return None
        return cur

    def _resolve_abs(self, target, depth=0):
        if depth > 5:
            return None
        if target in self.modules:
            return ('module', self.modules[target])
        if '.' in target:
            modname, attr = target.rsplit('.', 1)
            if modname in self.modules:
                m = self.modules[modname]
                if attr in m.functions:
                    return ('func', m.functions[attr])
                if attr in m.classes:
                    return ('class', m.classes[attr])
                if attr in m.imports:
                    return self._resolve_abs(m.imports[attr], depth + 1)
        return None

    def resolve_class(self, module, name):
        r = self.resolve_name(module, name)
        if r and r[0] == 'class':
            return r[1]
        return None

    def fn(self, key):
        """'circus.watcher:Watcher._stop' -> FuncInfo, or AnalysisError."""
        f = self.functions.get(key)
        if f is None:
            raise AnalysisError('anchor function %s not found' % key)
        self.consulted.add(f.module.name)
        return f

    def has_fn(self, key):
        return key in self.functions

    def cls(self, key):
        c = self.classes.get(key)
        if c is None:
            raise AnalysisError('anchor class %s not found' % key)
        self.consulted.add(c.module.name)
        return c

    def mod(self, name):
        m = self.modules.get(name)
        if m is None:
            raise AnalysisError('anchor module %s not found' % name)
        self.consulted.add(name)
        return m

    def all_functions(self):
        return list(self.functions.values())

    def files_evidence(self):
        return [{'file': m.relpath, 'sha256': m.sha256}
                for n, m in sorted(self.modules.items())]
