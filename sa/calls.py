"""Call resolution for the circus package, call graph, and must/may event
summaries.

There is no type checker in the sandbox, so receivers are resolved by:
  self.m()            -> class MRO (+ overriding subclasses)
  f() / mod.f()       -> module symbol / import table
  Cls.m(self)         -> that method
  super().m()         -> next class in the MRO
  obj.m()             -> receiver-name / attribute-type tables below (frozen,
                         confirmed by reading), extended by local assignments
                         from calls with a known return type
  otherwise           -> class-hierarchy analysis by method name (imprecise,
                         flagged)
Attributes holding objects from outside the package are typed EXTERNAL and
give no in-package edge.
"""
import ast

from .project import dotted, walk_local, AnalysisError
from .cfg import cfg_of

EXTERNAL = '<external>'

# (class name or '*', attribute) -> class name | EXTERNAL
ATTR_TYPES = {
    ('Watcher', 'arbiter'): 'Arbiter',
    ('Watcher', 'stream_redirector'): 'Redirector',
    ('Watcher', 'sockets'): 'CircusSockets',
    ('Watcher', 'processes'): 'dict[Process]',
    ('Arbiter', 'ctrl'): 'Controller',
    ('Arbiter', 'sockets'): 'CircusSockets',
    ('Arbiter', 'watchers'): 'list[Watcher]',
    ('Arbiter', '_watchers_names'): 'dict[Watcher]',
    ('Controller', 'arbiter'): 'Arbiter',
    ('Controller', 'commands'): 'dict[Command*]',
    ('Controller', 'sys_hdl'): 'SysHandler',
    ('SysHandler', 'controller'): 'Controller',
    ('Process', 'watcher'): 'Watcher',
    ('Redirector.Handler', 'redirector'): 'Redirector',
    ('Redirector.Handler', 'process'): 'Process',
    ('*', '_worker'): EXTERNAL,
    ('*', '_upstream_future'): EXTERNAL,
    ('*', 'loop'): EXTERNAL,
    ('*', 'stream'): EXTERNAL,
    ('*', 'caller'): EXTERNAL,
    ('*', 'evpub_socket'): EXTERNAL,
    ('*', 'ctrl_socket'): EXTERNAL,
    ('*', 'udp_socket'): EXTERNAL,
    ('*', 'socket'): EXTERNAL,
    ('*', 'poller'): EXTERNAL,
    ('*', '_file'): EXTERNAL,
    ('*', 'stdout_stream'): EXTERNAL,
    ('*', 'stderr_stream'): EXTERNAL,
    ('*', 'context'): EXTERNAL,
    ('*', 'hooks'): EXTERNAL,
    ('*', 'io_loop'): EXTERNAL,
    ('*', 'client'): EXTERNAL,
    ('*', 'statsd'): EXTERNAL,
    ('*', 'out'): EXTERNAL,
}

# bare receiver names -> class (used when no local assignment says otherwise)
NAME_TYPES = {
    'watcher': 'Watcher', 'w': 'Watcher', '_watcher': 'Watcher',
    'arbiter': 'Arbiter',
    'process': 'Process', 'p': 'Process', 'x': 'Process', 'proc': 'Process',
    'sock': 'CircusSocket', 's': 'CircusSocket',
    'controller': 'Controller',
    'cmd': 'Command*',   # every Command subclass (Controller.dispatch)
    'resp': 'TransformableFuture',
    'handler': EXTERNAL, 'future': EXTERNAL, 'f': EXTERNAL, 'fh': EXTERNAL,
    'logger': EXTERNAL, 'child': EXTERNAL, 'sockets': 'CircusSockets',
    'pidfile': 'Pidfile', 'cfg': EXTERNAL, 'parser': EXTERNAL,
    'props': EXTERNAL, 'msg': EXTERNAL, 'opts': EXTERNAL, 'config': EXTERNAL,
    'options': EXTERNAL, 'properties': EXTERNAL, 'val': EXTERNAL,
    'hooks': EXTERNAL, 'result': EXTERNAL, 'info': EXTERNAL, 'env': EXTERNAL,
    'children': EXTERNAL, 'app': EXTERNAL, 'command': 'Command*',
    'new_cfg': EXTERNAL, 'json_msg': EXTERNAL, 'data': EXTERNAL,
    'new_class': EXTERNAL, 'i': EXTERNAL, 'watcher_info': EXTERNAL,
}

# method names of builtin containers / strings: an untyped receiver calling
# one of these is not an in-package call (never sensitive names like close,
# stop, start, wait, kill, send_signal)
BUILTIN_METHODS = frozenset('''get items keys values copy add update pop append
remove extend insert clear setdefault split rsplit strip rstrip lstrip lower
upper format join startswith endswith replace encode decode match sub group
groups index count sort reverse discard union intersection difference
splitlines title capitalize find isdigit popitem fileno search'''.split())

# callee (last dotted component) -> class of the returned object
RETURN_TYPES = {
    '_get_watcher': 'Watcher', 'get_watcher': 'Watcher',
    'load_from_config': None,   # decided by the receiver class
    'get_socket': 'CircusSocket',
    'ProcCls': 'Process', '_process_class': 'Process',
    '_redirector_class': 'Redirector',
    'get_stream': EXTERNAL,
}

EXTERNAL_MODULES = ('os', 'sys', 'time', 'signal', 'json', 'logging', 'zmq',
                    'errno', 're', 'shlex', 'socket', 'select', 'gc',
                    'functools', 'warnings', 'traceback', 'tempfile', 'glob',
                    'fnmatch', 'operator', 'copy', 'site', 'resource', 'gen',
                    'ioloop', 'concurrent', 'psutil', 'tornado', 'random',
                    'subprocess', 'textwrap', 'uuid', 'stat', 'argparse',
                    'math', 'ctypes', 'grp', 'pwd', 'threading', 'IN', 'yaml',
                    'zmqstream', 'logger', 'datetime', 'time_', 'string',
                    'collections', 'inspect', 'platform', 'fcntl', 'getopt',
                    'cmd', 'readline', 'gevent', 'circusweb', 'pkgutil',
                    'importlib', 'configparser', 'urllib', 'asyncio', 'types')


import builtins as _b
BUILTIN_NAMES = frozenset(dir(_b))


class CallSite(object):
    __slots__ = ('call', 'node', 'targets', 'precise', 'kind', 'name')

    def __init__(self, call, node, targets, precise, kind, name):
        self.call = call        # ast.Call (or the Attribute for a reference)
        self.node = node        # cfg Node
        self.targets = targets  # [FuncInfo]
        self.precise = precise
        self.kind = kind        # 'call' | 'ref'
        self.name = name        # dotted callee text


class Resolver(object):
    def __init__(self, project):
        self.p = project
        self.by_class_name = {}
        for c in project.classes.values():
            self.by_class_name.setdefault(c.name, []).append(c)
            short = c.name.split('.')[-1]
            if short != c.name:
                self.by_class_name.setdefault(short, []).append(c)
        self.methods_by_name = {}
        for f in project.functions.values():
            if f.cls is not None:
                self.methods_by_name.setdefault(f.name, []).append(f)
        self._local_types = {}
        self._sites = {}
        self.stats = {'resolved': 0, 'external': 0, 'cha': 0, 'unresolved': 0}

    # -- types -----------------------------------------------------------
    def classes_named(self, name):
        if name is None:
            return []
        if name.endswith('*'):
            base = name[:-1]
            out = []
            for c in self.by_class_name.get(base, []):
                out.append(c)
                out.extend(c.all_subclasses())
            return out
        for pre in ('list[', 'dict['):
            if name.startswith(pre):
                return []
        return [c for c in self.by_class_name.get(name, [])
                if not c.module.name.startswith('circus.green')
                or name not in ('Arbiter', 'Controller')] or \
            self.by_class_name.get(name, [])

    def enclosing_class(self, finfo):
        f = finfo
        while f is not None:
            if f.cls is not None:
                return f.cls
            f = f.parent
        return None

    def local_types(self, finfo):
        """name -> type string, from assignments in finfo (flow-insensitive)."""
        lt = self._local_types.get(finfo.key)
        if lt is not None:
            return lt
        lt = {}
        self._local_types[finfo.key] = lt
        for n in walk_local(finfo.node):
            tgt = val = None
            if isinstance(n, ast.Assign) and len(n.targets) == 1:
                tgt, val = n.targets[0], n.value
            elif isinstance(n, (ast.For, ast.comprehension)):
                tgt, val = n.target, n.iter
                t = self.type_of(val, finfo, lt)
                if t:
                    for pre in ('list[', 'dict['):
                        if t.startswith(pre) and isinstance(tgt, ast.Name):
                            lt[tgt.id] = t[len(pre):-1]
                continue
            if tgt is None or not isinstance(tgt, ast.Name):
                continue
            if isinstance(val, (ast.Yield, ast.Await)) and val.value is not None:
                val = val.value
            t = self.type_of(val, finfo, lt)
            if t:
                lt[tgt.id] = t
        return lt

    def type_of(self, expr, finfo, lt=None):
        """Type string for an expression, or None."""
        if lt is None:
            lt = self.local_types(finfo)
        if isinstance(expr, ast.Name):
            if expr.id in ('self', 'cls'):
                c = self.enclosing_class(finfo)
                return c.name if c else None
            if expr.id in lt:
                return lt[expr.id]
            # a parameter or free name: table
            r = self.p.resolve_name(finfo.module, expr.id)
            if r is not None:
                return None
            if expr.id in finfo.module.imports:
                return EXTERNAL
            if expr.id in NAME_TYPES:
                return NAME_TYPES[expr.id]
            if expr.id in EXTERNAL_MODULES:
                return EXTERNAL
            return None
        if isinstance(expr, ast.Attribute):
            base_t = self.type_of(expr.value, finfo, lt)
            for key in ((base_t, expr.attr), ('*', expr.attr)):
                if key in ATTR_TYPES:
                    return ATTR_TYPES[key]
            if base_t == EXTERNAL:
                return EXTERNAL
            # @property whose body is `return SomeClass`
            if base_t:
                for c in self.classes_named(base_t):
                    m = c.lookup(expr.attr)
                    if m is not None and any(t == 'property' for t, _ in m.decorators):
                        for st in walk_local(m.node):
                            if isinstance(st, ast.Return) and isinstance(st.value, ast.Name):
                                rc = self.p.resolve_class(m.module, st.value.id)
                                if rc is not None:
                                    return rc.name
            return None
        if isinstance(expr, ast.Subscript):
            t = self.type_of(expr.value, finfo, lt)
            if t and t.startswith(('dict[', 'list[')):
                return t[5:-1]
            if t == EXTERNAL:
                return EXTERNAL
            return None
        if isinstance(expr, ast.Call):
            d = dotted(expr.func)
            if d:
                last = d.split('.')[-1]
                r = self.p.resolve_name(finfo.module, d)
                if r and r[0] == 'class':
                    return r[1].name
                if last == 'load_from_config' and isinstance(expr.func, ast.Attribute):
                    rr = self.p.resolve_name(finfo.module, dotted(expr.func.value) or '')
                    if rr and rr[0] == 'class':
                        return rr[1].name
                    if dotted(expr.func.value) == 'cls':
                        c = self.enclosing_class(finfo)
                        return c.name if c else None
                if last in ('values',) and isinstance(expr.func, ast.Attribute):
                    t = self.type_of(expr.func.value, finfo, lt)
                    if t and t.startswith('dict['):
                        return 'list[' + t[5:-1] + ']'
                    if t == 'CircusSockets':
                        return 'list[CircusSocket]'
                if last in ('get_active_processes',):
                    return 'list[Process]'
                if last in ('iter_watchers', 'watcher_iter_func'):
                    return 'list[Watcher]'
                if last in ('sorted', 'list', 'reversed') and expr.args:
                    return self.type_of(expr.args[0], finfo, lt)
                if last in ('pop', 'get') and isinstance(expr.func, ast.Attribute):
                    t = self.type_of(expr.func.value, finfo, lt)
                    if t and t.startswith('dict['):
                        return t[5:-1]
                    if t == 'CircusSockets':
                        return 'CircusSocket'
                if last in RETURN_TYPES and RETURN_TYPES[last]:
                    return RETURN_TYPES[last]
                if isinstance(expr.func, ast.Attribute):
                    bt = self.type_of(expr.func.value, finfo, lt)
                    if bt == EXTERNAL:
                        return EXTERNAL
            return None
        if isinstance(expr, (ast.ListComp, ast.GeneratorExp)):
            t = self.type_of(expr.elt, finfo, lt)
            if t and t != EXTERNAL and not t.startswith(('list[', 'dict[')):
                return 'list[%s]' % t
            return None
        if isinstance(expr, (ast.List, ast.Tuple)) and expr.elts:
            t = self.type_of(expr.elts[0], finfo, lt)
            if t and t != EXTERNAL and not t.startswith(('list[', 'dict[')):
                return 'list[%s]' % t
            return None
        if isinstance(expr, ast.IfExp):
            return self.type_of(expr.body, finfo, lt) or self.type_of(expr.orelse, finfo, lt)
        if isinstance(expr, ast.BoolOp):
            for v in expr.values:
                t = self.type_of(v, finfo, lt)
                if t:
                    return t
        return None

    # -- resolution ------------------------------------------------------
    def _method_targets(self, cls, name, with_overrides=True):
        out = []
        f = cls.lookup(name)
        if f is not None:
            out.append(f)
        if with_overrides:
            for sc in cls.all_subclasses():
                if name in sc.methods and sc.methods[name] not in out:
                    out.append(sc.methods[name])
        return out

    def resolve_callee(self, func_expr, finfo):
        """-> (targets, precise, status) for the expression in call position
        (also used for bare references to functions)."""
        f = func_expr
        if isinstance(f, ast.Name):
            # nested def in an enclosing function?
            ff = finfo
            while ff is not None:
                if f.id in ff.nested:
                    return [ff.nested[f.id]], True, 'resolved'
                ff = ff.parent
            lt = self.local_types(finfo)
            if f.id in lt and lt[f.id] not in (EXTERNAL, None):
                # calling a local bound to a class value, e.g. ProcCls(...)
                cs = self.classes_named(lt[f.id])
                ts = [c.lookup('__init__') for c in cs if c.lookup('__init__')]
                return ts, True, 'resolved'
            r = self.p.resolve_name(finfo.module, f.id)
            if r is None:
                return [], True, 'external'
            kind, obj = r
            if kind in ('func', 'method'):
                return [obj], True, 'resolved'
            if kind == 'class':
                init = obj.lookup('__init__')
                return ([init] if init else []), True, 'resolved'
            return [], True, 'external'
        if isinstance(f, ast.Attribute):
            m = f.attr
            v = f.value
            # super().m / super(C, self).m
            if isinstance(v, ast.Call) and dotted(v.func) == 'super':
                c = self.enclosing_class(finfo)
                if c is not None:
                    for b in c.mro()[1:]:
                        if m in b.methods:
                            return [b.methods[m]], True, 'resolved'
                return [], True, 'external'
            d = dotted(v)
            if d:
                if d in ('self', 'cls'):
                    c = self.enclosing_class(finfo)
                    if c is not None:
                        ts = self._method_targets(c, m)
                        if ts:
                            return ts, True, 'resolved'
                        # attribute holding a callable / external base
                        return [], True, 'external'
                r = self.p.resolve_name(finfo.module, d)
                if r is not None and d.split('.')[0] not in self.local_types(finfo):
                    kind, obj = r
                    if kind == 'module':
                        if m in obj.functions:
                            return [obj.functions[m]], True, 'resolved'
                        if m in obj.classes:
                            init = obj.classes[m].lookup('__init__')
                            return ([init] if init else []), True, 'resolved'
                        if m in obj.imports:
                            rr = self.p._resolve_abs(obj.imports[m])
                            if rr and rr[0] in ('func', 'method'):
                                return [rr[1]], True, 'resolved'
                            if rr and rr[0] == 'class':
                                init = rr[1].lookup('__init__')
                                return ([init] if init else []), True, 'resolved'
                        return [], True, 'external'
                    if kind == 'class':
                        t = obj.lookup(m)
                        if t is not None:
                            return [t], True, 'resolved'
                        return [], True, 'external'
                head = d.split('.')[0]
                if r is None and head in BUILTIN_NAMES:
                    return [], True, 'external'
                if r is None and (head in finfo.module.imports or
                                  (head in EXTERNAL_MODULES and
                                   head not in self.local_types(finfo) and
                                   not self._is_param(finfo, head))):
                    return [], True, 'external'
            t = self.type_of(v, finfo)
            if t == EXTERNAL:
                return [], True, 'external'
            if t is not None:
                cs = self.classes_named(t)
                ts = []
                for c in cs:
                    for x in self._method_targets(c, m):
                        if x not in ts:
                            ts.append(x)
                if ts:
                    return ts, True, 'resolved'
                if cs:
                    return [], True, 'external'   # method of an external base
                if t.startswith(('list[', 'dict[')):
                    return [], True, 'external'   # list/dict method
            # class-hierarchy analysis by name
            if m in BUILTIN_METHODS:
                return [], True, 'external'
            ts = list(self.methods_by_name.get(m, []))
            if ts:
                return ts, False, 'cha'
            return [], True, 'external'
        if isinstance(f, (ast.Subscript, ast.Call)):
            if self.type_of(f, finfo) == EXTERNAL:
                return [], True, 'external'
        return [], False, 'unresolved'

    def _is_param(self, finfo, name):
        a = finfo.node.args
        for x in a.posonlyargs + a.args + a.kwonlyargs:
            if x.arg == name:
                return True
        return False

    # getattr(obj, "literal")() and getattr(self, "handle_%s" % x)
    def _getattr_targets(self, call, finfo):
        if not (isinstance(call.func, ast.Name) and call.func.id == 'getattr'
                and len(call.args) >= 2):
            return None
        obj, name = call.args[0], call.args[1]
        t = self.type_of(obj, finfo)
        cs = self.classes_named(t) if t and t != EXTERNAL else []
        if isinstance(name, ast.Constant) and isinstance(name.value, str):
            out = []
            for c in cs:
                out.extend(self._method_targets(c, name.value))
            return out
        if isinstance(name, ast.Name) and self._is_param(finfo, name.id):
            lits = self._param_literals(finfo, name.id)
            out = []
            for lit in lits:
                for c in cs:
                    for x in self._method_targets(c, lit):
                        if x not in out:
                            out.append(x)
            return out
        if isinstance(name, ast.BinOp) and isinstance(name.op, ast.Mod) and \
                isinstance(name.left, ast.Constant) and isinstance(name.left.value, str):
            prefix = name.left.value.split('%')[0]
            out = []
            for c in cs:
                for k in c.mro():
                    for mn, mf in k.methods.items():
                        if mn.startswith(prefix) and mf not in out:
                            out.append(mf)
            return out
        return None

    def _param_literals(self, finfo, pname):
        """String literals passed for parameter pname by callers of finfo
        anywhere in the package (by callee name)."""
        a = finfo.node.args
        names = [x.arg for x in a.posonlyargs + a.args]
        idx = names.index(pname) if pname in names else None
        out = []
        for m in self.p.modules.values():
            for n in ast.walk(m.tree):
                if isinstance(n, ast.Call):
                    d = dotted(n.func)
                    if d and d.split('.')[-1] == finfo.name:
                        v = None
                        for k in n.keywords:
                            if k.arg == pname:
                                v = k.value
                        if v is None and idx is not None and len(n.args) > idx:
                            v = n.args[idx]
                        if isinstance(v, ast.Constant) and isinstance(v.value, str) \
                                and v.value not in out:
                            out.append(v.value)
        return out

    def sites(self, finfo, consts=None):
        """All call sites / function references of a function, per CFG node."""
        key = (finfo.key, tuple(sorted(consts.items())) if consts else None)
        if key in self._sites:
            return self._sites[key]
        cfg = cfg_of(finfo, consts)
        out = []
        # `x = getattr(obj, 'name')` followed by x(): bind via local alias
        alias = {}
        for n in walk_local(finfo.node):
            if isinstance(n, ast.Assign) and len(n.targets) == 1 and \
                    isinstance(n.targets[0], ast.Name) and isinstance(n.value, ast.Call):
                g = self._getattr_targets(n.value, finfo)
                if g is not None:
                    alias[n.targets[0].id] = g
        live = cfg.reach(cfg.entry) | {cfg.entry.id}
        for node in cfg.nodes:
            if node.id not in live:
                continue
            called_funcs = set()
            for c in node.calls():
                called_funcs.add(id(c.func))
                name = dotted(c.func) or ast.unparse(c.func)
                targets = None
                if isinstance(c.func, ast.Name) and c.func.id in alias:
                    targets, precise, status = alias[c.func.id], True, 'resolved'
                elif isinstance(c.func, ast.Call):
                    g = self._getattr_targets(c.func, finfo)
                    if g is not None:
                        targets, precise, status = g, True, 'resolved'
                if targets is None:
                    targets, precise, status = self.resolve_callee(c.func, finfo)
                self.stats[status] = self.stats.get(status, 0) + 1
                out.append(CallSite(c, node, targets, precise, 'call', name))
            # references to functions passed as values (callbacks, partial)
            for n in node.walk():
                if isinstance(n, (ast.Attribute, ast.Name)) and \
                        isinstance(getattr(n, 'ctx', None), ast.Load) and \
                        id(n) not in called_funcs:
                    if isinstance(n, ast.Name):
                        ff = finfo
                        tgt = None
                        while ff is not None:
                            if n.id in ff.nested:
                                tgt = ff.nested[n.id]
                                break
                            ff = ff.parent
                        if tgt is None:
                            r = self.p.resolve_name(finfo.module, n.id)
                            if r and r[0] == 'func' and n.id not in self.local_types(finfo) \
                                    and not self._is_param(finfo, n.id):
                                tgt = r[1]
                        if tgt is not None:
                            out.append(CallSite(n, node, [tgt], True, 'ref', n.id))
                    else:
                        d = dotted(n)
                        if not d:
                            continue
                        ts, precise, status = self.resolve_callee(n, finfo)
                        if status == 'resolved' and ts:
                            # only methods/functions, and skip property reads
                            ts = [t for t in ts
                                  if not any(tag == 'property' for tag, _ in t.decorators)]
                            if ts:
                                out.append(CallSite(n, node, ts, precise, 'ref', d))
        self._sites[key] = out
        return out


class CallGraph(object):
    def __init__(self, project, resolver=None, consts=None):
        self.p = project
        self.r = resolver or Resolver(project)
        self.consts = consts
        self._edges = {}

    def callees(self, finfo, kinds=('call', 'ref'), precise_only=False,
                include_properties=True):
        out = []
        for s in self.r.sites(finfo, self.consts):
            if s.kind not in kinds:
                continue
            if precise_only and not s.precise:
                continue
            for t in s.targets:
                out.append((t, s))
        if include_properties:
            out.extend(self._property_reads(finfo))
        return out

    def _property_reads(self, finfo):
        """self.X where X is a @property of the class -> edge to the getter."""
        key = ('prop', finfo.key)
        if key in self._edges:
            return self._edges[key]
        out = []
        cfg = cfg_of(finfo, self.consts)
        for node in cfg.nodes:
            for n in node.walk():
                if isinstance(n, ast.Attribute) and isinstance(n.ctx, ast.Load):
                    t = self.r.type_of(n.value, finfo)
                    if t and t != EXTERNAL:
                        for c in self.r.classes_named(t):
                            m = c.lookup(n.attr)
                            if m is not None and any(tag == 'property'
                                                     for tag, _ in m.decorators):
                                out.append((m, CallSite(n, node, [m], True, 'prop',
                                                        dotted(n) or n.attr)))
        self._edges[key] = out
        return out

    def reachable(self, roots, stop=lambda f: False, kinds=('call', 'ref'),
                  precise_only=False):
        """-> dict FuncInfo.key -> (FuncInfo, parent_key, CallSite) for every
        function reachable from roots; does not expand functions for which
        stop(f) is true (they are still listed)."""
        seen = {}
        todo = []
        for r in roots:
            seen[r.key] = (r, None, None)
            todo.append(r)
        while todo:
            f = todo.pop()
            if stop(f) and seen[f.key][1] is not None:
                continue
            for t, site in self.callees(f, kinds, precise_only):
                if t.key not in seen:
                    seen[t.key] = (t, f.key, site)
                    todo.append(t)
        return seen

    def chain(self, seen, key):
        """Call chain root -> key as list of 'fn @ file:line' strings."""
        out = []
        cur = key
        while cur is not None:
            f, parent, site = seen[cur]
            if site is not None:
                pf = seen[parent][0]
                out.append('%s:%s %s -> %s' % (pf.module.relpath,
                                               site.node.lineno, pf.qualname,
                                               f.qualname))
            cur = parent
        return list(reversed(out))


class Summaries(object):
    """must/may summaries of 'events' over the call graph.

    An event is a function  ev(node, finfo) -> bool  saying that the CFG node
    directly performs it.  must(f, ev): every normal entry->exit path of f
    passes a node that must perform ev (directly or via a uniquely resolved
    callee that must).  may(f, ev): some node may perform it.
    """

    def __init__(self, project, resolver, consts=None, depth=6):
        self.p = project
        self.r = resolver
        self.consts = consts
        self.depth = depth
        self._must = {}
        self._may = {}

    def node_must(self, node, finfo, ev, _stack=()):
        if ev(node, finfo):
            return True
        if len(_stack) >= self.depth:
            return False
        for s in self.r.sites(finfo, self.consts):
            if s.node is not node or s.kind != 'call' or not s.precise:
                continue
            if not s.targets:
                continue
            if all(self.must(t, ev, _stack) for t in s.targets):
                return True
        return False

    def must(self, finfo, ev, _stack=()):
        key = (finfo.key, ev)
        if key in self._must:
            return self._must[key]
        if finfo.key in _stack:
            return False
        stack = _stack + (finfo.key,)
        cfg = cfg_of(finfo, self.consts)
        via = [n for n in cfg.nodes if self.node_must(n, finfo, ev, stack)]
        # paths on which the event is vacuously satisfied (e.g. the status
        # already is the one the event would establish) do not need a node
        vac = ev.vacuous(cfg) if getattr(ev, 'vacuous', None) else ()
        res = bool(via) and cfg.must_pass(cfg.entry, [cfg.exit], via, edges_excluded=vac)
        if not _stack or res:
            self._must[key] = res
        return res

    def node_may(self, node, finfo, ev, _stack=(), precise_only=False):
        if ev(node, finfo):
            return True
        for s in self.r.sites(finfo, self.consts):
            if s.node is not node:
                continue
            if precise_only and not s.precise:
                continue
            for t in s.targets:
                if self.may(t, ev, _stack, precise_only):
                    return True
        return False

    def may(self, finfo, ev, _stack=(), precise_only=False):
        key = (finfo.key, ev, precise_only)
        if key in self._may:
            return self._may[key]
        if finfo.key in _stack:
            return False
        stack = _stack + (finfo.key,)
        cfg = cfg_of(finfo, self.consts)
        live = cfg.reach(cfg.entry)
        res = any(self.node_may(n, finfo, ev, stack, precise_only)
                  for n in cfg.nodes if n.id in live)
        if not _stack or res:
            self._may[key] = res
        return res
