"""Small AST query helpers: event predicates, guard truth tables, ordering
normalisation, affine forms, normalised statement text."""
import ast
import itertools

from .project import dotted, walk_local, AnalysisError


# --------------------------------------------------------------------------
# normalised text (finding keys must survive reformatting / line moves)
def norm_text(node):
    try:
        return ' '.join(ast.unparse(node).split())
    except Exception:
        return '<?>'


def const_value(node, default=None):
    if isinstance(node, ast.Constant):
        return node.value
    if isinstance(node, ast.UnaryOp) and isinstance(node.op, ast.USub) and \
            isinstance(node.operand, ast.Constant):
        return -node.operand.value
    return default


def call_name(call):
    return dotted(call.func) or ''


def call_last(call):
    f = call.func
    if isinstance(f, ast.Attribute):
        return f.attr
    if isinstance(f, ast.Name):
        return f.id
    return ''


def kwarg(call, name, pos=None):
    for k in call.keywords:
        if k.arg == name:
            return k.value
    if pos is not None and len(call.args) > pos:
        return call.args[pos]
    return None


def attr_targets(stmt):
    """Attribute/Subscript/Name targets written by a statement."""
    out = []
    if isinstance(stmt, ast.Assign):
        for t in stmt.targets:
            out.extend(_flatten_target(t))
    elif isinstance(stmt, (ast.AugAssign, ast.AnnAssign)):
        out.extend(_flatten_target(stmt.target))
    elif isinstance(stmt, ast.Delete):
        for t in stmt.targets:
            out.extend(_flatten_target(t))
    return out


def _flatten_target(t):
    if isinstance(t, (ast.Tuple, ast.List)):
        out = []
        for e in t.elts:
            out.extend(_flatten_target(e))
        return out
    return [t]


# --------------------------------------------------------------------------
# event predicates (hashable callables so summaries can be memoised)
class Ev(object):
    def __init__(self, kind, *args):
        self.kind = kind
        self.args = args
        self._h = hash((kind, args))

    def __hash__(self):
        return self._h

    def __eq__(self, other):
        return isinstance(other, Ev) and (self.kind, self.args) == (other.kind, other.args)

    def __repr__(self):
        return 'Ev(%s%s)' % (self.kind, self.args)

    def __call__(self, node, finfo):
        return getattr(self, '_' + self.kind)(node, finfo)

    # call whose last attribute name is in names (method-name match on any receiver)
    def _callattr(self, node, finfo):
        names = self.args[0]
        return any(call_last(c) in names for c in node.calls())

    # call whose dotted text equals one of the given strings
    def _calltext(self, node, finfo):
        names = self.args[0]
        return any(call_name(c) in names for c in node.calls())

    # self.<attr> = <const>
    def _setattr(self, node, finfo):
        attr, values = self.args
        if node.kind != 'stmt' or not isinstance(node.ast, (ast.Assign, ast.AugAssign)):
            return False
        for t in attr_targets(node.ast):
            if isinstance(t, ast.Attribute) and t.attr == attr:
                if values is None:
                    return True
                v = const_value(node.ast.value, default=_NOCONST)
                if v in values:
                    return True
        return False

    # notify_event("<topic>", ...)
    def _notify(self, node, finfo):
        topics = self.args[0]
        for c in node.calls():
            if call_last(c) == 'notify_event' and c.args and \
                    const_value(c.args[0]) in topics:
                return True
        return False

    # call_hook("<name>")
    def _hook(self, node, finfo):
        names = self.args[0]
        for c in node.calls():
            if call_last(c) == 'call_hook' and c.args and \
                    const_value(c.args[0]) in names:
                return True
        return False

    # generic predicate over node given as a tuple (name, fn); name for hashing
    def _pred(self, node, finfo):
        return self.args[1](node, finfo)


_NOCONST = object()


def ev_callattr(*names):
    return Ev('callattr', frozenset(names))


def ev_calltext(*names):
    return Ev('calltext', frozenset(names))


def ev_setattr(attr, *values):
    return Ev('setattr', attr, frozenset(values) if values else None)


def ev_notify(*topics):
    return Ev('notify', frozenset(topics))


def ev_hook(*names):
    return Ev('hook', frozenset(names))


def ev_pred(name, fn):
    e = Ev('pred', name, fn)
    e._h = hash(('pred', name))
    return e


def has_yield(node):
    return any(isinstance(n, (ast.Yield, ast.YieldFrom, ast.Await)) for n in node.walk())


def yielded_exprs(node):
    out = []
    for n in node.walk():
        if isinstance(n, (ast.Yield, ast.Await)) and n.value is not None:
            out.append(n.value)
    return out


def call_is_yielded(node, call):
    """Is `call` (an ast.Call inside cfg node) part of a yielded expression
    (directly, inside a yielded list/comprehension, or via gen.multi)?"""
    for y in yielded_exprs(node):
        for n in ast.walk(y):
            if n is call:
                return True
    return False


# --------------------------------------------------------------------------
# guards as boolean functions
class BoolFn(object):
    """Truth table of a boolean expression over named atoms.  Atoms are the
    maximal non-boolean subexpressions, identified by normalised text (after
    optional renaming through `alias`)."""

    def __init__(self, expr, alias=None, atomize=None):
        self.alias = alias or {}
        self.atomize = atomize
        self.atoms = []
        self.tree = self._conv(expr)

    def _atom(self, e):
        if self.atomize is not None:
            r = self.atomize(e)
            if r is not None:
                name, neg = r
                if name not in self.atoms:
                    self.atoms.append(name)
                return ('not', ('atom', name)) if neg else ('atom', name)
        t = norm_text(e)
        t = self.alias.get(t, t)
        if t not in self.atoms:
            self.atoms.append(t)
        return ('atom', t)

    def _conv(self, e):
        if isinstance(e, ast.BoolOp):
            op = 'and' if isinstance(e.op, ast.And) else 'or'
            return (op,) + tuple(self._conv(v) for v in e.values)
        if isinstance(e, ast.UnaryOp) and isinstance(e.op, ast.Not):
            return ('not', self._conv(e.operand))
        if isinstance(e, ast.Constant):
            return ('const', bool(e.value))
        return self._atom(e)

    def eval(self, env, tree=None):
        t = tree or self.tree
        k = t[0]
        if k == 'atom':
            return env[t[1]]
        if k == 'const':
            return t[1]
        if k == 'not':
            return not self.eval(env, t[1])
        if k == 'and':
            return all(self.eval(env, x) for x in t[1:])
        return any(self.eval(env, x) for x in t[1:])

    def table(self, atoms=None):
        atoms = atoms or self.atoms
        out = {}
        for vals in itertools.product([False, True], repeat=len(atoms)):
            env = dict(zip(atoms, vals))
            for a in self.atoms:
                env.setdefault(a, False)
            out[vals] = self.eval(env)
        return out


# --------------------------------------------------------------------------
# comparisons as orderings
FLIP = {ast.Lt: ast.Gt, ast.Gt: ast.Lt, ast.LtE: ast.GtE, ast.GtE: ast.LtE,
        ast.Eq: ast.Eq, ast.NotEq: ast.NotEq}
ORDER_SETS = {ast.Lt: {'<'}, ast.LtE: {'<', '='}, ast.Gt: {'>'},
              ast.GtE: {'>', '='}, ast.Eq: {'='}, ast.NotEq: {'<', '>'}}


def compare_orderings(cmp, left_pred, right_pred):
    """For `a OP b` return the set of orderings of (L vs R) ⊆ {'<','=','>'}
    under which the comparison is true, where left_pred/right_pred recognise
    L and R (in either operand position).  None if not such a comparison."""
    if not (isinstance(cmp, ast.Compare) and len(cmp.ops) == 1):
        return None
    a, b = cmp.left, cmp.comparators[0]
    op = type(cmp.ops[0])
    if op not in ORDER_SETS:
        return None
    if left_pred(a) and right_pred(b):
        return set(ORDER_SETS[op])
    if left_pred(b) and right_pred(a):
        return set(ORDER_SETS[FLIP[op]])
    return None


def guard_orderings(expr, left_pred, right_pred, negate=False):
    """Over-approximate set of orderings under which boolean `expr` can be
    true (other atoms unconstrained).  Handles and/or/not."""
    ALL = {'<', '=', '>'}
    if isinstance(expr, ast.BoolOp):
        parts = [guard_orderings(v, left_pred, right_pred, negate) for v in expr.values]
        is_and = isinstance(expr.op, ast.And)
        if negate:
            is_and = not is_and
        if is_and:
            s = set(ALL)
            for p in parts:
                s &= p
            return s
        s = set()
        for p in parts:
            s |= p
        return s
    if isinstance(expr, ast.UnaryOp) and isinstance(expr.op, ast.Not):
        return guard_orderings(expr.operand, left_pred, right_pred, not negate)
    o = compare_orderings(expr, left_pred, right_pred)
    if o is None:
        return set(ALL)
    return (ALL - o) if negate else o


# --------------------------------------------------------------------------
# affine normal form:  dict term-text -> coefficient, '' -> constant
def affine(expr, alias=None):
    alias = alias or {}

    def term(e):
        t = norm_text(e)
        return alias.get(t, t)

    def rec(e):
        if isinstance(e, ast.Constant) and isinstance(e.value, (int, float)) and \
                not isinstance(e.value, bool):
            return {'': e.value}
        if isinstance(e, ast.BinOp) and isinstance(e.op, (ast.Add, ast.Sub)):
            l, r = rec(e.left), rec(e.right)
            if l is None or r is None:
                return None
            out = dict(l)
            sign = 1 if isinstance(e.op, ast.Add) else -1
            for k, v in r.items():
                out[k] = out.get(k, 0) + sign * v
            return out
        if isinstance(e, ast.BinOp) and isinstance(e.op, ast.Mult):
            l, r = rec(e.left), rec(e.right)
            if l is not None and set(l) <= {''}:
                c = l.get('', 0)
                return {k: c * v for k, v in (r or {}).items()} if r is not None else None
            if r is not None and set(r) <= {''}:
                c = r.get('', 0)
                return {k: c * v for k, v in (l or {}).items()} if l is not None else None
            return {term(e): 1}
        if isinstance(e, ast.UnaryOp) and isinstance(e.op, ast.USub):
            r = rec(e.operand)
            return None if r is None else {k: -v for k, v in r.items()}
        return {term(e): 1}

    r = rec(expr)
    if r is None:
        return None
    return {k: v for k, v in r.items() if v != 0}


def names_in(expr):
    return {n.id for n in ast.walk(expr) if isinstance(n, ast.Name)}


def attrs_in(expr):
    return {dotted(n) for n in ast.walk(expr) if isinstance(n, ast.Attribute) and dotted(n)}


# --------------------------------------------------------------------------
# evaluation of a pure guard expression over a small enumerated domain
class Unknown(Exception):
    pass


def eval_pure(e, env):
    """Evaluate a side-effect-free expression built from constants, names,
    tuples, comparisons, boolean operators and unary not/minus.  Anything
    else raises Unknown.  Used to tabulate guards over abstract domains."""
    if isinstance(e, ast.Constant):
        return e.value
    if isinstance(e, ast.Name):
        if e.id in env:
            return env[e.id]
        raise Unknown(e.id)
    if isinstance(e, ast.Tuple):
        return tuple(eval_pure(x, env) for x in e.elts)
    if isinstance(e, ast.UnaryOp):
        v = eval_pure(e.operand, env)
        if isinstance(e.op, ast.Not):
            return not v
        if isinstance(e.op, ast.USub):
            return -v
        raise Unknown(type(e.op).__name__)
    if isinstance(e, ast.BoolOp):
        if isinstance(e.op, ast.And):
            r = True
            for x in e.values:
                r = eval_pure(x, env)
                if not r:
                    return r
            return r
        r = False
        for x in e.values:
            r = eval_pure(x, env)
            if r:
                return r
        return r
    if isinstance(e, ast.Compare):
        left = eval_pure(e.left, env)
        for op, c in zip(e.ops, e.comparators):
            right = eval_pure(c, env)
            ok = {ast.Eq: lambda a, b: a == b, ast.NotEq: lambda a, b: a != b,
                  ast.Lt: lambda a, b: a < b, ast.LtE: lambda a, b: a <= b,
                  ast.Gt: lambda a, b: a > b, ast.GtE: lambda a, b: a >= b,
                  ast.Is: lambda a, b: a is b, ast.IsNot: lambda a, b: a is not b,
                  ast.In: lambda a, b: a in b, ast.NotIn: lambda a, b: a not in b}.get(type(op))
            if ok is None:
                raise Unknown(type(op).__name__)
            if not ok(left, right):
                return False
            left = right
        return True
    raise Unknown(type(e).__name__)


# --------------------------------------------------------------------------
# statement patterns with metavariables: '$x' matches one identifier,
# consistently within the pattern, so local renames do not matter.
import re as _re
_PAT_CACHE = {}


def canonical_pattern(pattern):
    """A pattern written in source syntax is brought to the same canonical
    expression form as the analysed trees (sa/normalize.py, step P2) when it
    parses as an expression or statement; fragments are left as they are."""
    from .normalize import ExprNorm
    txt = _re.sub(r'\$(\w+)', r'__mv_\1__', pattern)
    for mode in ('eval', 'exec'):
        try:
            tree = ast.parse(txt, mode=mode)
        except SyntaxError:
            continue
        tree = ExprNorm().visit(tree)
        ast.fix_missing_locations(tree)
        out = ' '.join(ast.unparse(tree).split())
        return _re.sub(r'__mv_(\w+?)__', r'$\1', out)
    return pattern


def pattern_regex(pattern):
    if pattern in _PAT_CACHE:
        return _PAT_CACHE[pattern]
    raw = pattern
    pattern = canonical_pattern(pattern)
    out = []
    seen = set()
    pos = 0
    for m in _re.finditer(r'\$(\w+)', pattern):
        out.append(_re.escape(pattern[pos:m.start()]))
        name = m.group(1)
        if name in seen:
            out.append('(?P=%s)' % name)
        else:
            seen.add(name)
            out.append('(?P<%s>[A-Za-z_][A-Za-z_0-9]*)' % name)
        pos = m.end()
    out.append(_re.escape(pattern[pos:]))
    rx = _re.compile(''.join(out))
    _PAT_CACHE[raw] = rx
    return rx


def has_pattern(node_or_text, pattern, flatten=False):
    """Does the normalised source text contain `pattern` (with $metavariables
    standing for identifiers)?  flatten=True ignores parentheses."""
    t = node_or_text if isinstance(node_or_text, str) else norm_text(node_or_text)
    p = ' '.join(pattern.split())
    if flatten:
        t = t.replace('(', '').replace(')', '')
        p = p.replace('(', '').replace(')', '')
    return pattern_regex(p).search(t) is not None


# --------------------------------------------------------------------------
# local-name-independent text (finding keys must survive a local rename)
def local_names(fnode):
    """Names bound inside a function (assignments, for/with/except targets,
    comprehension variables), excluding its parameters."""
    a = fnode.args
    params = {x.arg for x in a.args + a.kwonlyargs + a.posonlyargs}
    if a.vararg:
        params.add(a.vararg.arg)
    if a.kwarg:
        params.add(a.kwarg.arg)
    out = set()
    for n in ast.walk(fnode):
        if isinstance(n, ast.Name) and isinstance(n.ctx, (ast.Store, ast.Del)):
            out.add(n.id)
        elif isinstance(n, ast.ExceptHandler) and n.name:
            out.add(n.name)
    return out - params


def alpha_text(text_or_node, fnode, names=None):
    """Text in which every local variable of fnode is replaced by '$'.  For an
    AST node the replacement is done on Name nodes (exact); for a string it is
    a word-boundary regex (not attribute names, not keyword-argument names)."""
    import copy
    if names is None:
        names = local_names(fnode)
    if not isinstance(text_or_node, str):
        if not names:
            return norm_text(text_or_node)
        node = copy.deepcopy(text_or_node)
        for n in ast.walk(node):
            if isinstance(n, ast.Name) and n.id in names:
                n.id = '$'
            elif isinstance(n, ast.ExceptHandler) and n.name in names:
                n.name = '$'
        return norm_text(node)
    text = text_or_node
    if not names:
        return text
    rx = _re.compile(r'(?<![\w.])(%s)\b(?!\s*=(?!=))' % '|'.join(
        sorted((_re.escape(n) for n in names), key=len, reverse=True)))
    return rx.sub('$', text)


# --------------------------------------------------------------------------
# single-assignment locals: a rule about "what is passed" must not depend on
# whether the value went through a temporary
def resolve_local(fnode, expr, depth=4):
    """If expr is a local name that is bound exactly once in fnode by a plain
    assignment, the assigned expression (followed through further such names);
    otherwise expr itself."""
    while depth > 0 and isinstance(expr, ast.Name):
        binds = []
        for n in ast.walk(fnode):
            if isinstance(n, ast.Name) and n.id == expr.id and \
                    isinstance(n.ctx, (ast.Store, ast.Del)):
                binds.append(n)
        if len(binds) != 1:
            return expr
        val = None
        for n in ast.walk(fnode):
            if isinstance(n, ast.Assign) and len(n.targets) == 1 and n.targets[0] is binds[0]:
                val = n.value
        a = fnode.args if hasattr(fnode, 'args') else None
        if val is None:
            return expr
        expr = val
        depth -= 1
    return expr


def fstring_parts(node, fnode=None):
    """JoinedStr -> list of str literals and (expr_text, conversion) tuples, with
    single-assignment locals resolved when fnode is given."""
    if not isinstance(node, ast.JoinedStr):
        return None
    out = []
    for v in node.values:
        if isinstance(v, ast.Constant):
            out.append(v.value)
        elif isinstance(v, ast.FormattedValue):
            e = resolve_local(fnode, v.value) if fnode is not None else v.value
            out.append((norm_text(e), chr(v.conversion) if v.conversion != -1 else ''))
    return out
