"""Canonical form of the analysed program.

The rules read syntax trees, so two programs with the same behaviour but a
different surface shape must reach them as the same tree.  Every module is
therefore rewritten, in memory, by behaviour-preserving steps before any rule
looks at it:

  P1  new module/class-level constants (names that do not exist in the
      frozen reference table of the pinned tree) are propagated to their uses;
      len('literal'), os.SEEK_* are folded.
  P2  expressions: constant on the right of a comparison; 'not' pushed inward
      (De Morgan, negated comparison operators); set([...]) / dict(pairs) /
      list() / dict() -> displays and comprehensions; isinstance/startswith
      with a tuple -> or-chain; '%'-formatting and str.format on a literal ->
      f-string ({x} == {x!s}); 'a if a else b' -> 'a or b'.
  P3  statements: 'x = A if c else B' / 'return A if c else B' -> if/else;
      code after an if whose body always leaves moves into its else (guard
      clause == nested if); a tail 'return'/'continue' is dropped; 'else: pass'
      is dropped; an if/else with a negative test is swapped; a try's 'else'
      made only of non-raising statements joins the try body;
      'x = []; for ..: [if c:] x.append(e)' -> list comprehension;
      'for ..: if c: return True' + 'return False' -> return any(..).
  P4  new private helpers (functions that do not exist in the reference table,
      undecorated or static, no yield, all returns in tail position) are
      inlined at their call sites and removed when nothing refers to them any
      more: the reference decomposition into functions is the pinned tree's.

Line numbers of the original constructs are kept, so reports still point at
the source.  None of the steps depends on what a rule wants to see.
"""
import ast
import copy
import json
import os
import re
import string

REF_TABLE = os.path.join(os.path.dirname(os.path.abspath(__file__)), 'reference_symbols.json')

FLIP = {ast.Lt: ast.Gt, ast.Gt: ast.Lt, ast.LtE: ast.GtE, ast.GtE: ast.LtE,
        ast.Eq: ast.Eq, ast.NotEq: ast.NotEq}
NEG = {ast.Eq: ast.NotEq, ast.NotEq: ast.Eq, ast.Is: ast.IsNot, ast.IsNot: ast.Is,
       ast.In: ast.NotIn, ast.NotIn: ast.In, ast.Lt: ast.GtE, ast.GtE: ast.Lt,
       ast.Gt: ast.LtE, ast.LtE: ast.Gt}
NEGATIVE_OPS = (ast.IsNot, ast.NotEq, ast.NotIn)
STDLIB_CONSTS = {'os.SEEK_SET': 0, 'os.SEEK_CUR': 1, 'os.SEEK_END': 2}


def dotted(node):
    parts = []
    while isinstance(node, ast.Attribute):
        parts.append(node.attr)
        node = node.value
    if isinstance(node, ast.Name):
        parts.append(node.id)
        return '.'.join(reversed(parts))
    return None


def load_reference():
    if not os.path.exists(REF_TABLE):
        return None
    with open(REF_TABLE) as f:
        return json.load(f)


def _loc(new, old):
    ast.copy_location(new, old)
    return new


def is_constlike(n):
    return isinstance(n, ast.Constant) or (
        isinstance(n, ast.UnaryOp) and isinstance(n.op, ast.USub) and
        isinstance(n.operand, ast.Constant))


def _named_constant(n):
    last = n.attr if isinstance(n, ast.Attribute) else (n.id if isinstance(n, ast.Name) else None)
    return bool(last) and last.isupper() and len(last) > 1 and dotted(n) is not None


def is_simple(e):
    """side-effect free, cheap to duplicate"""
    if isinstance(e, (ast.Name, ast.Constant)):
        return True
    if isinstance(e, ast.Attribute):
        return is_simple(e.value)
    if isinstance(e, ast.Subscript):
        return is_simple(e.value) and isinstance(e.slice, ast.Constant)
    return False


def is_literal(n):
    """a value that can be copied to its uses"""
    if is_constlike(n):
        return True
    if isinstance(n, (ast.Tuple, ast.List, ast.Set)):
        return all(is_literal(e) for e in n.elts)
    return False


# ---------------------------------------------------------------------------
# P2 expressions
_PCT = re.compile(r'%(?:\((\w+)\))?([#0\- +]*)(\d+)?(?:\.(\d+))?([sdirfxXeEgGcoau%])')


def _fv(value, conv='s', spec=None):
    fs = None
    if spec:
        fs = ast.JoinedStr(values=[ast.Constant(value=spec)])
    return ast.FormattedValue(value=value, conversion=ord(conv) if conv else -1,
                              format_spec=fs)


def _joined(parts, node):
    vals = []
    for p in parts:
        if isinstance(p, str):
            if not p:
                continue
            if vals and isinstance(vals[-1], ast.Constant):
                vals[-1] = ast.Constant(value=vals[-1].value + p)
            else:
                vals.append(ast.Constant(value=p))
        else:
            vals.append(p)
    return _loc(ast.JoinedStr(values=vals), node)


def percent_to_fstring(node):
    """'..%s..' % (a, b) -> f'..{a!s}..{b!s}' when it can be done exactly."""
    fmt = node.left.value
    rhs = node.right
    specs = list(_PCT.finditer(fmt))
    if not specs:
        return None
    n_args = sum(1 for m in specs if m.group(5) != '%')
    named = [m for m in specs if m.group(1)]
    if named:
        if len(named) != n_args or not isinstance(rhs, ast.Dict):
            return None
        table = {}
        for k, v in zip(rhs.keys, rhs.values):
            if not isinstance(k, ast.Constant):
                return None
            table[k.value] = v
        args = None
    else:
        if isinstance(rhs, ast.Tuple):
            args = list(rhs.elts)
        elif n_args == 1 and not isinstance(rhs, (ast.Dict,)):
            args = [rhs]
        else:
            return None
        if len(args) != n_args or any(isinstance(a, ast.Starred) for a in args):
            return None
        # a single non-tuple operand that could itself be a tuple at run time
        # formats differently; the repository never relies on that
    parts, pos, i = [], 0, 0
    for m in specs:
        parts.append(fmt[pos:m.start()])
        pos = m.end()
        conv = m.group(5)
        if conv == '%':
            parts.append('%')
            continue
        if m.group(1):
            if m.group(1) not in table:
                return None
            val = table[m.group(1)]
        else:
            val = args[i]
            i += 1
        flags, width, prec = m.group(2) or '', m.group(3) or '', m.group(4)
        if conv in 'sra' and not flags and not width and prec is None:
            parts.append(_fv(val, conv))
        else:
            if conv in 'sra':
                return None
            spec = flags + width + ('.' + prec if prec is not None else '') + \
                ('d' if conv in 'di' else conv)
            parts.append(_fv(val, None, spec))
    parts.append(fmt[pos:])
    return _joined(parts, node)


def format_to_fstring(node):
    """'..{}..{name}..'.format(a, name=b) -> f-string when exact."""
    fmt = node.func.value.value
    if any(isinstance(a, ast.Starred) for a in node.args) or \
            any(k.arg is None for k in node.keywords):
        return None
    kw = {k.arg: k.value for k in node.keywords}
    parts, auto = [], 0
    try:
        fields = list(string.Formatter().parse(fmt))
    except ValueError:
        return None
    for lit, field, spec, conv in fields:
        parts.append(lit)
        if field is None:
            continue
        if field == '':
            if auto >= len(node.args):
                return None
            val = node.args[auto]
            auto += 1
        elif field.isdigit():
            if int(field) >= len(node.args):
                return None
            val = node.args[int(field)]
        elif field.isidentifier():
            if field not in kw:
                return None
            val = kw[field]
        else:
            return None
        if spec and ('{' in spec):
            return None
        parts.append(_fv(copy.deepcopy(val), conv or (None if spec else 's'), spec or None))
    return _joined(parts, node)


class ExprNorm(ast.NodeTransformer):
    def visit_Compare(self, node):
        self.generic_visit(node)
        if len(node.ops) == 1:
            op = type(node.ops[0])
            left, right = node.left, node.comparators[0]
            if op in (ast.Is, ast.IsNot) and isinstance(left, ast.Constant) and \
                    isinstance(right, ast.Constant) and (left.value is None or right.value is None):
                # <literal> is [not] None, left behind by substituting a literal argument
                same = left.value is None and right.value is None
                return _loc(ast.Constant(value=same if op is ast.Is else not same), node)
            if op in FLIP and is_constlike(left) and not is_constlike(right):
                return _loc(ast.Compare(left=right, ops=[FLIP[op]()], comparators=[left]), node)
            # a named constant (errno.EAGAIN, signal.SIGKILL, DEAD_OR_ZOMBIE) goes to the right too
            if op in (ast.Eq, ast.NotEq) and _named_constant(left) and not _named_constant(right) \
                    and not is_constlike(right):
                return _loc(ast.Compare(left=right, ops=[op()], comparators=[left]), node)
        return node

    def visit_UnaryOp(self, node):
        if isinstance(node.op, ast.Not):
            inner = node.operand
            if isinstance(inner, ast.BoolOp):
                newop = ast.Or() if isinstance(inner.op, ast.And) else ast.And()
                new = ast.BoolOp(op=newop, values=[
                    _loc(ast.UnaryOp(op=ast.Not(), operand=v), v) for v in inner.values])
                return self.visit(_loc(new, node))
            if isinstance(inner, ast.UnaryOp) and isinstance(inner.op, ast.Not) and \
                    isinstance(inner.operand, ast.UnaryOp) and \
                    isinstance(inner.operand.op, ast.Not):
                return self.visit(inner.operand)      # not not not x
            self.generic_visit(node)
            inner = node.operand
            if isinstance(inner, ast.Compare) and len(inner.ops) == 1 and \
                    type(inner.ops[0]) in NEG:
                return _loc(ast.Compare(left=inner.left, ops=[NEG[type(inner.ops[0])]()],
                                        comparators=inner.comparators), node)
            if isinstance(inner, ast.BoolOp):
                return self.visit(node)
            if isinstance(inner, ast.Call) and dotted(inner.func) == 'len' and \
                    len(inner.args) == 1 and not inner.keywords:
                return _loc(ast.Compare(left=inner, ops=[ast.Eq()],
                                        comparators=[ast.Constant(value=0)]), node)
            return node
        self.generic_visit(node)
        return node

    def visit_BoolOp(self, node):
        self.generic_visit(node)
        # a leading literal True/False decides or drops out (nothing is evaluated before it)
        vals = list(node.values)
        while len(vals) > 1 and isinstance(vals[0], ast.Constant) and \
                isinstance(vals[0].value, bool):
            if vals[0].value == isinstance(node.op, ast.And):
                vals = vals[1:]                 # True and X -> X ; False or X -> X
            else:
                return _loc(ast.Constant(value=vals[0].value), node)   # False and X ; True or X
        if len(vals) == 1:
            return vals[0]
        node.values = vals
        # x != a and x != b  ->  x not in (a, b) ;  x == a or x == b  ->  x in (a, b)
        want = ast.NotEq if isinstance(node.op, ast.And) else ast.Eq
        if len(vals) >= 2 and all(
                isinstance(v, ast.Compare) and len(v.ops) == 1 and isinstance(v.ops[0], want) and
                is_simple(v.left) and is_simple(v.comparators[0]) for v in vals) and \
                len({ast.dump(v.left) for v in vals}) == 1:
            op = ast.NotIn() if want is ast.NotEq else ast.In()
            return _loc(ast.Compare(left=vals[0].left, ops=[op], comparators=[
                ast.Tuple(elts=[v.comparators[0] for v in vals], ctx=ast.Load())]), node)
        return node

    def visit_IfExp(self, node):
        self.generic_visit(node)
        if is_simple(node.test) and ast.dump(node.test) == ast.dump(node.body):
            return _loc(ast.BoolOp(op=ast.Or(), values=[node.body, node.orelse]), node)
        return node

    def visit_Attribute(self, node):
        self.generic_visit(node)
        d = dotted(node)
        if d in STDLIB_CONSTS and isinstance(node.ctx, ast.Load):
            return _loc(ast.Constant(value=STDLIB_CONSTS[d]), node)
        return node

    def visit_JoinedStr(self, node):
        self.generic_visit(node)
        for v in node.values:
            if isinstance(v, ast.FormattedValue) and v.conversion == -1 and v.format_spec is None:
                v.conversion = ord('s')
        return node

    def visit_BinOp(self, node):
        self.generic_visit(node)
        if isinstance(node.op, ast.Mod) and isinstance(node.left, ast.Constant) and \
                isinstance(node.left.value, str):
            new = percent_to_fstring(node)
            if new is not None:
                return self.visit_JoinedStr(new)
        return node

    def _eval_comprehension(self, node):
        """[f(x) for x in (a, b, c)] over a literal display, no condition ->
        [f(a), f(b), f(c)]"""
        if len(node.generators) != 1:
            return None
        g = node.generators[0]
        if g.ifs or g.is_async or not isinstance(g.iter, (ast.Tuple, ast.List)) or \
                len(g.iter.elts) > 12 or any(isinstance(e, ast.Starred) for e in g.iter.elts):
            return None
        out = []
        for e in g.iter.elts:
            binding = _bind_target(g.target, e)
            if binding is None:
                return None
            out.append(_substitute_names(node.elt, binding))
        return out

    def visit_ListComp(self, node):
        self.generic_visit(node)
        vals = self._eval_comprehension(node)
        if vals is not None:
            return _loc(ast.List(elts=vals, ctx=ast.Load()), node)
        return node

    def visit_For(self, node):
        self.generic_visit(node)
        node.iter = _drop_keys(node.iter)
        return node

    def visit_comprehension(self, node):
        self.generic_visit(node)
        node.iter = _drop_keys(node.iter)
        return node

    def visit_Call(self, node):
        self.generic_visit(node)
        d = dotted(node.func)
        args = node.args
        if d in ('operator.attrgetter', 'attrgetter') and len(args) == 1 and not node.keywords \
                and isinstance(args[0], ast.Constant) and isinstance(args[0].value, str) and \
                args[0].value.isidentifier():
            lam = ast.Lambda(args=ast.arguments(posonlyargs=[], args=[ast.arg(arg='_o')],
                                                vararg=None, kwonlyargs=[], kw_defaults=[],
                                                kwarg=None, defaults=[]),
                             body=ast.Attribute(value=ast.Name(id='_o', ctx=ast.Load()),
                                                attr=args[0].value, ctx=ast.Load()))
            return _loc(lam, node)
        if d in ('operator.itemgetter', 'itemgetter') and len(args) == 1 and not node.keywords \
                and isinstance(args[0], ast.Constant):
            lam = ast.Lambda(args=ast.arguments(posonlyargs=[], args=[ast.arg(arg='_o')],
                                                vararg=None, kwonlyargs=[], kw_defaults=[],
                                                kwarg=None, defaults=[]),
                             body=ast.Subscript(value=ast.Name(id='_o', ctx=ast.Load()),
                                                slice=args[0], ctx=ast.Load()))
            return _loc(lam, node)
        if isinstance(node.func, ast.Attribute) and isinstance(node.func.value, ast.Call) and \
                dotted(node.func.value.func) == 're.compile' and node.func.value.args and \
                not node.func.value.keywords and not node.keywords and \
                node.func.attr in ('match', 'fullmatch', 'search', 'sub', 'subn', 'split',
                                   'findall', 'finditer') and \
                1 <= len(args) <= (2 if node.func.attr in ('sub', 'subn') else 1):
            # re.compile(P[, F]).m(x) is re.m(P, x[, flags=F])
            comp = node.func.value
            call = ast.Call(func=ast.Attribute(value=ast.Name(id='re', ctx=ast.Load()),
                                               attr=node.func.attr, ctx=ast.Load()),
                            args=[comp.args[0]] + list(args), keywords=[])
            if len(comp.args) > 1:
                call.keywords.append(ast.keyword(arg='flags', value=comp.args[1]))
            return _loc(call, node)
        if d == 'getattr' and len(args) == 2 and not node.keywords and \
                isinstance(args[1], ast.Constant) and isinstance(args[1].value, str) and \
                args[1].value.isidentifier() and not args[1].value.startswith('__'):
            # getattr(x, 'name') is x.name
            return _loc(ast.Attribute(value=args[0], attr=args[1].value, ctx=ast.Load()), node)
        if d in ('list', 'set', 'tuple', 'sorted', 'frozenset', 'len', 'iter') and len(args) >= 1:
            node.args[0] = _drop_keys(args[0])
            args = node.args
        if d in ('tuple', 'list', 'set', 'frozenset') and len(args) == 1 and not node.keywords \
                and isinstance(args[0], (ast.GeneratorExp, ast.ListComp)):
            vals = self._eval_comprehension(args[0])
            if vals is not None:
                if d == 'tuple':
                    return _loc(ast.Tuple(elts=vals, ctx=ast.Load()), node)
                if d == 'list':
                    return _loc(ast.List(elts=vals, ctx=ast.Load()), node)
                if vals:
                    return _loc(ast.Set(elts=vals), node)
        if not node.keywords and len(args) == 1 and not isinstance(args[0], ast.Starred):
            a = args[0]
            seq = isinstance(a, (ast.List, ast.Tuple, ast.Set)) and \
                not any(isinstance(e, ast.Starred) for e in getattr(a, 'elts', []))
            if d in ('set', 'frozenset'):
                if seq and a.elts:
                    return _loc(ast.Set(elts=a.elts), node)
                if seq:
                    return _loc(ast.Call(func=node.func, args=[], keywords=[]), node)
                if isinstance(a, (ast.ListComp, ast.GeneratorExp)):
                    return _loc(ast.SetComp(elt=a.elt, generators=a.generators), node)
            if d == 'dict':
                if isinstance(a, (ast.ListComp, ast.GeneratorExp)) and \
                        isinstance(a.elt, ast.Tuple) and len(a.elt.elts) == 2:
                    return _loc(ast.DictComp(key=a.elt.elts[0], value=a.elt.elts[1],
                                             generators=a.generators), node)
                if seq and all(isinstance(e, (ast.Tuple, ast.List)) and len(e.elts) == 2
                               for e in a.elts):
                    return _loc(ast.Dict(keys=[e.elts[0] for e in a.elts],
                                         values=[e.elts[1] for e in a.elts]), node)
            if d == 'list':
                if seq:
                    return _loc(ast.List(elts=a.elts, ctx=ast.Load()), node)
                if isinstance(a, (ast.ListComp, ast.GeneratorExp)):
                    return _loc(ast.ListComp(elt=a.elt, generators=a.generators), node)
            if d == 'tuple' and seq:
                return _loc(ast.Tuple(elts=a.elts, ctx=ast.Load()), node)
            if d == 'len' and isinstance(a, ast.Constant) and isinstance(a.value, (str, bytes)):
                return _loc(ast.Constant(value=len(a.value)), node)
            if d == 'len' and isinstance(a, (ast.Tuple, ast.List)) and seq:
                return _loc(ast.Constant(value=len(a.elts)), node)
        if not args and not node.keywords:
            if d == 'dict':
                return _loc(ast.Dict(keys=[], values=[]), node)
            if d == 'list':
                return _loc(ast.List(elts=[], ctx=ast.Load()), node)
            if d == 'tuple':
                return _loc(ast.Tuple(elts=[], ctx=ast.Load()), node)
        if d in ('isinstance', 'issubclass') and len(args) == 2 and not node.keywords and \
                isinstance(args[1], ast.Tuple) and len(args[1].elts) > 1 and is_simple(args[0]):
            vals = [_loc(ast.Call(func=copy.deepcopy(node.func),
                                  args=[copy.deepcopy(args[0]), t], keywords=[]), node)
                    for t in args[1].elts]
            return _loc(ast.BoolOp(op=ast.Or(), values=vals), node)
        if isinstance(node.func, ast.Attribute) and node.func.attr in ('startswith', 'endswith') \
                and len(args) == 1 and not node.keywords and isinstance(args[0], ast.Tuple) \
                and len(args[0].elts) > 1 and is_simple(node.func.value):
            vals = [_loc(ast.Call(func=copy.deepcopy(node.func), args=[t], keywords=[]), node)
                    for t in args[0].elts]
            return _loc(ast.BoolOp(op=ast.Or(), values=vals), node)
        if isinstance(node.func, ast.Attribute) and node.func.attr == 'format' and \
                isinstance(node.func.value, ast.Constant) and isinstance(node.func.value.value, str):
            new = format_to_fstring(node)
            if new is not None:
                return self.visit_JoinedStr(new)
        return node


def norm_expr(e):
    return ExprNorm().visit(e)


def _drop_keys(it):
    """iterating `m.keys()` is iterating `m` (mappings iterate over their keys)"""
    if isinstance(it, ast.Call) and isinstance(it.func, ast.Attribute) and \
            it.func.attr == 'keys' and not it.args and not it.keywords:
        return it.func.value
    return it


def _bind_target(target, value):
    """{name: expr} for `target = value` with literal structure, else None"""
    if isinstance(target, ast.Name):
        return {target.id: value}
    if isinstance(target, (ast.Tuple, ast.List)) and isinstance(value, (ast.Tuple, ast.List)) \
            and len(target.elts) == len(value.elts):
        out = {}
        for t, v in zip(target.elts, value.elts):
            b = _bind_target(t, v)
            if b is None:
                return None
            out.update(b)
        return out
    return None


class _NameSub(ast.NodeTransformer):
    def __init__(self, mapping):
        self.mapping = mapping

    def visit_Name(self, node):
        if isinstance(node.ctx, ast.Load) and node.id in self.mapping:
            return _loc(copy.deepcopy(self.mapping[node.id]), node)
        return node


def _substitute_names(node, mapping):
    return _NameSub(mapping).visit(copy.deepcopy(node))


def negate(test):
    return bool_ctx(norm_expr(ast.copy_location(ast.UnaryOp(op=ast.Not(), operand=test), test)))


def bool_ctx(test):
    """simplifications that are valid where only the truth value is used
    (an if/while test and, inside it, the operands of and/or/not)"""
    if isinstance(test, ast.BoolOp):
        test.values = [bool_ctx(v) for v in test.values]
        return test
    if isinstance(test, ast.UnaryOp) and isinstance(test.op, ast.Not):
        inner = test.operand
        if isinstance(inner, ast.UnaryOp) and isinstance(inner.op, ast.Not):
            return bool_ctx(inner.operand)
        test.operand = bool_ctx(inner)
        return test
    if isinstance(test, ast.Call) and dotted(test.func) == 'bool' and len(test.args) == 1 \
            and not test.keywords:
        return bool_ctx(test.args[0])
    return test


def is_negative(test):
    if isinstance(test, ast.UnaryOp) and isinstance(test.op, ast.Not):
        return True
    if isinstance(test, ast.Compare) and len(test.ops) == 1 and \
            isinstance(test.ops[0], NEGATIVE_OPS):
        return True
    if isinstance(test, ast.BoolOp):
        return all(is_negative(v) for v in test.values)
    return False


# ---------------------------------------------------------------------------
# P3 statements
def terminates(stmts):
    if not stmts:
        return False
    last = stmts[-1]
    if isinstance(last, (ast.Return, ast.Raise, ast.Continue, ast.Break)):
        return True
    if isinstance(last, ast.If):
        return bool(last.orelse) and terminates(last.body) and terminates(last.orelse)
    if isinstance(last, (ast.With, ast.AsyncWith)):
        return terminates(last.body)
    if isinstance(last, ast.Try):
        if last.finalbody and terminates(last.finalbody):
            return True
        main = last.orelse if last.orelse else last.body
        return terminates(main) and all(terminates(h.body) for h in last.handlers)
    return False


def _non_raising(s):
    if isinstance(s, (ast.Pass, ast.Continue, ast.Break)):
        return True
    if isinstance(s, ast.Return):
        return s.value is None or isinstance(s.value, (ast.Name, ast.Constant))
    if isinstance(s, ast.Assign):
        return all(isinstance(t, ast.Name) for t in s.targets) and \
            isinstance(s.value, (ast.Name, ast.Constant))
    return False


def _is_none_return(s):
    return isinstance(s, ast.Return) and (
        s.value is None or (isinstance(s.value, ast.Constant) and s.value.value is None))


def _append_call(stmt, name):
    """stmt is `name.append(E)` -> E"""
    if isinstance(stmt, ast.Expr) and isinstance(stmt.value, ast.Call):
        c = stmt.value
        if isinstance(c.func, ast.Attribute) and c.func.attr == 'append' and \
                isinstance(c.func.value, ast.Name) and c.func.value.id == name and \
                len(c.args) == 1 and not c.keywords and not isinstance(c.args[0], ast.Starred):
            return c.args[0]
    return None


def _uses_name(node, name):
    return any(isinstance(n, ast.Name) and n.id == name for n in ast.walk(node))


class StmtNorm(object):
    def __init__(self):
        self.stats = {}

    def bump(self, what):
        self.stats[what] = self.stats.get(what, 0) + 1

    def module(self, tree):
        tree.body = self.block(tree.body, False, False)
        return tree

    # -- one statement list --------------------------------------------------
    def split_tuple_assign(self, stmts):
        """a, b = x, y  ->  a = x; b = y   when no right side mentions a target"""
        out = []
        for s in stmts:
            if isinstance(s, ast.Assign) and len(s.targets) == 1 and \
                    isinstance(s.targets[0], ast.Tuple) and isinstance(s.value, ast.Tuple) and \
                    len(s.targets[0].elts) == len(s.value.elts) and \
                    not any(isinstance(e, ast.Starred) for e in s.targets[0].elts + s.value.elts):
                tgt_names = set()
                for t in s.targets[0].elts:
                    for n in ast.walk(t):
                        if isinstance(n, ast.Name):
                            tgt_names.add(n.id)
                        elif isinstance(n, ast.Attribute):
                            tgt_names.add(n.attr)
                used = set()
                for v in s.value.elts:
                    for n in ast.walk(v):
                        if isinstance(n, ast.Name):
                            used.add(n.id)
                        elif isinstance(n, ast.Attribute):
                            used.add(n.attr)
                pure = all(not _has_call(v) for v in s.value.elts[1:]) or \
                    all(isinstance(t, ast.Name) for t in s.targets[0].elts)
                if not (tgt_names & used) and pure:
                    self.bump('tuple-assign-split')
                    for t, v in zip(s.targets[0].elts, s.value.elts):
                        out.append(_loc(ast.Assign(targets=[t], value=v), s))
                    continue
            out.append(s)
        return out

    def unroll_constant_loops(self, stmts):
        """for a, b in ((1, x), (2, y)): BODY  ->  BODY[a:=1, b:=x]; BODY[a:=2, b:=y]
        (literal table, loop variables not assigned in the body, no break/continue/else)"""
        out = []
        for s in stmts:
            if isinstance(s, ast.For) and not s.orelse and \
                    isinstance(s.iter, (ast.Tuple, ast.List)) and 0 < len(s.iter.elts) <= 8 and \
                    all(isinstance(e, (ast.Tuple, ast.List, ast.Constant, ast.Name, ast.Attribute))
                        for e in s.iter.elts) and \
                    not any(isinstance(n, (ast.Break, ast.Continue, ast.YieldFrom,
                                           ast.Await, ast.FunctionDef, ast.Lambda)) or
                            # a data generator's `yield a, b` is fine; a coroutine's
                            # `yield something()` is a suspension point and stays in its loop
                            (isinstance(n, ast.Yield) and not isinstance(
                                n.value, (ast.Tuple, ast.Name, ast.Constant, ast.Attribute)))
                            for b in s.body for n in ast.walk(b)) and \
                    sum(1 for b in s.body for _ in ast.walk(b)) <= 40:
                tnames = {n.id for n in ast.walk(s.target) if isinstance(n, ast.Name)}
                stored = {n.id for b in s.body for n in ast.walk(b)
                          if isinstance(n, ast.Name) and isinstance(n.ctx, (ast.Store, ast.Del))}
                binds = [_bind_target(s.target, e) for e in s.iter.elts]
                if not (tnames & stored) and all(b is not None for b in binds) and \
                        all(is_simple(v) or isinstance(v, ast.Constant)
                            for b in binds for v in b.values()):
                    self.bump('constant-loop-unrolled')
                    for b in binds:
                        for st in s.body:
                            out.append(_substitute_names(st, b))
                    continue
            out.append(s)
        return out

    def fold_known_tests(self, stmts):
        """x = None; if x is None: A else: B   ->   x = None; A"""
        out = []
        i = 0
        while i < len(stmts):
            s = stmts[i]
            nxt = stmts[i + 1] if i + 1 < len(stmts) else None
            if isinstance(s, ast.Assign) and len(s.targets) == 1 and \
                    isinstance(s.targets[0], ast.Name) and isinstance(s.value, ast.Constant) and \
                    isinstance(nxt, ast.If):
                v = _test_value(nxt.test, s.targets[0].id, s.value.value)
                if v is not None:
                    self.bump('known-test-folded')
                    out.append(s)
                    out.extend(nxt.body if v else nxt.orelse)
                    i += 2
                    continue
            out.append(s)
            i += 1
        return out

    def fold_literal_tests(self, stmts):
        out = []
        for s in stmts:
            if isinstance(s, ast.If) and isinstance(s.test, ast.Constant) and \
                    isinstance(s.test.value, bool):
                self.bump('literal-test-folded')
                out.extend(self.fold_literal_tests(s.body if s.test.value else s.orelse))
            else:
                out.append(s)
        return out

    def updates_as_stores(self, stmts):
        """d.update({'k': v}) / d.update(k=v) as a statement is d['k'] = v"""
        out = []
        for s in stmts:
            if isinstance(s, ast.Expr) and isinstance(s.value, ast.Call) and \
                    isinstance(s.value.func, ast.Attribute) and s.value.func.attr == 'update' and \
                    is_simple(s.value.func.value):
                c = s.value
                pairs = None
                if len(c.args) == 1 and not c.keywords and isinstance(c.args[0], ast.Dict) and \
                        c.args[0].keys and all(isinstance(k, ast.Constant) for k in c.args[0].keys):
                    pairs = list(zip(c.args[0].keys, c.args[0].values))
                elif not c.args and c.keywords and all(k.arg for k in c.keywords):
                    pairs = [(ast.Constant(value=k.arg), k.value) for k in c.keywords]
                if pairs and len(pairs) <= 3:
                    self.bump('update-as-stores')
                    for k, v in pairs:
                        out.append(_loc(ast.Assign(targets=[ast.Subscript(
                            value=copy.deepcopy(c.func.value), slice=k, ctx=ast.Store())],
                            value=v), s))
                    continue
            out.append(s)
        return out

    def block(self, stmts, loop_tail, func_tail):
        stmts = self.fold_literal_tests(stmts)
        stmts = self.updates_as_stores(stmts)
        stmts = self.split_tuple_assign(stmts)
        stmts = self.fold_known_tests(stmts)
        stmts = self.unroll_constant_loops(stmts)
        stmts = self.expand_ifexp(stmts)
        stmts = self.thread_flags(stmts)
        stmts = self.thread_none_sentinel(stmts)
        stmts = self.loops_to_comprehensions(stmts)
        stmts = self.nest_guards(stmts)
        out = []
        for i, s in enumerate(stmts):
            last = i == len(stmts) - 1
            out.append(self.stmt(s, loop_tail and last, func_tail and last))
        stmts = out
        # tail cleanup
        if stmts and loop_tail and isinstance(stmts[-1], ast.Continue):
            self.bump('tail-continue')
            stmts = stmts[:-1]
        if stmts and func_tail and _is_none_return(stmts[-1]):
            self.bump('tail-return')
            stmts = stmts[:-1]
        flat = []
        for s in stmts:
            if isinstance(s, ast.If) and isinstance(s.test, ast.Constant) and False:
                pass
            flat.append(s)
        flat = [s for s in flat if not (
            isinstance(s, ast.Assign) and len(s.targets) == 1 and
            isinstance(s.targets[0], ast.Name) and isinstance(s.value, ast.Name) and
            s.value.id == s.targets[0].id)]          # x = x
        stmts = [s for s in flat if not (isinstance(s, ast.Pass) and len(flat) > 1)]
        if not stmts:
            stmts = [ast.Pass()]
        return stmts

    # -- flag variables -----------------------------------------------------
    # if A: ...; flag = False          if A: ...; flag = False
    # else: flag = E            ==>    else: flag = E; if E: BODY
    # if flag: BODY
    def thread_flags(self, stmts):
        out = []
        i = 0
        while i < len(stmts):
            s = stmts[i]
            nxt = stmts[i + 1] if i + 1 < len(stmts) else None
            if isinstance(s, ast.If) and s.orelse and isinstance(nxt, ast.If):
                flag = nxt.test.id if isinstance(nxt.test, ast.Name) else (
                    nxt.test.operand.id if isinstance(nxt.test, ast.UnaryOp) and
                    isinstance(nxt.test.op, ast.Not) and isinstance(nxt.test.operand, ast.Name)
                    else None)
                if flag is None:
                    # any side-effect-free test of ONE local: `flag is not None`, `flag == 'x'`
                    names = {n.id for n in ast.walk(nxt.test) if isinstance(n, ast.Name)}
                    plain = not any(isinstance(n, (ast.Call, ast.Attribute, ast.Subscript,
                                                   ast.Yield, ast.Await, ast.NamedExpr))
                                    for n in ast.walk(nxt.test))
                    if len(names) == 1 and plain:
                        flag = next(iter(names))
                if flag and _ends_with_flag(s.body, flag) and _ends_with_flag(s.orelse, flag):
                    self.bump('flag-threaded')
                    self._thread(s.body, nxt, flag)
                    self._thread(s.orelse, nxt, flag)
                    out.append(s)
                    i += 2
                    continue
            out.append(s)
            i += 1
        return out

    # x = None                                   try: B
    # try: B                                     except H: S; G
    # except H: S              ==>               else: x = V; F
    # else: x = V         (V is never None)
    # if x is not None: F
    # else: G
    def thread_none_sentinel(self, stmts):
        out = []
        i = 0
        while i < len(stmts):
            s = stmts[i]
            t = stmts[i + 1] if i + 1 < len(stmts) else None
            f = stmts[i + 2] if i + 2 < len(stmts) else None
            if isinstance(s, ast.Assign) and len(s.targets) == 1 and \
                    isinstance(s.targets[0], ast.Name) and isinstance(s.value, ast.Constant) and \
                    s.value.value is None and isinstance(t, ast.Try) and not t.finalbody and \
                    t.orelse and isinstance(f, ast.If):
                x = s.targets[0].id
                pol = _test_value(f.test, x, None)
                last = t.orelse[-1]
                sets_in_else = isinstance(last, ast.Assign) and len(last.targets) == 1 and \
                    isinstance(last.targets[0], ast.Name) and last.targets[0].id == x and \
                    _never_none_expr(last.value)
                others = [n for part in (t.body, t.orelse[:-1], [h for h in t.handlers])
                          for st in part for n in ast.walk(st)
                          if isinstance(n, ast.Name) and n.id == x]
                later = [n for st in stmts[i + 3:] for n in ast.walk(st)
                         if isinstance(n, ast.Name) and n.id == x]
                if pol is not None and sets_in_else and not others and not later and \
                        not any(terminates(h.body) for h in t.handlers):
                    self.bump('none-sentinel-threaded')
                    when_set, when_none = (f.orelse, f.body) if pol else (f.body, f.orelse)
                    t.orelse = list(t.orelse) + list(when_set)
                    for h in t.handlers:
                        h.body = list(h.body) + copy.deepcopy(list(when_none))
                    out.append(t)
                    i += 3
                    continue
            out.append(s)
            i += 1
        return out

    def coalesce_temps(self, fnode):
        """t = (a, b); p, q = t   ->   p, q = a, b        (t not used otherwise)
           x = ...; y = x            ->   y = ...            (x not used otherwise)"""
        loads, stores = {}, {}
        for n in ast.walk(fnode):
            if isinstance(n, ast.Name):
                d = loads if isinstance(n.ctx, ast.Load) else stores
                d[n.id] = d.get(n.id, 0) + 1
            elif isinstance(n, (ast.Global, ast.Nonlocal)):
                for x in n.names:
                    stores[x] = stores.get(x, 0) + 5
            elif isinstance(n, (ast.FunctionDef, ast.AsyncFunctionDef, ast.Lambda)) and n is not fnode:
                for m in ast.walk(n):
                    if isinstance(m, ast.Name):
                        stores[m.id] = stores.get(m.id, 0) + 5      # closures: hands off
        changed = [False]
        # x = E; return x pairs per name (all loads of x must be such returns)
        pairs = {}

        def _ret_name(st):
            if isinstance(st, ast.Return) and isinstance(st.value, ast.Name):
                return st.value
            if isinstance(st, ast.Raise) and isinstance(st.exc, ast.Call) and \
                    (dotted(st.exc.func) or '').endswith('Return') and \
                    len(st.exc.args) == 1 and isinstance(st.exc.args[0], ast.Name):
                return st.exc.args[0]
            return None

        def count_pairs(stmts):
            for a, b in zip(stmts, stmts[1:]):
                rv_ = _ret_name(b)
                if rv_ is not None and isinstance(a, ast.Assign) and len(a.targets) == 1 and \
                        isinstance(a.targets[0], ast.Name) and a.targets[0].id == rv_.id:
                    pairs[rv_.id] = pairs.get(rv_.id, 0) + 1
            for st in stmts:
                if isinstance(st, (ast.FunctionDef, ast.AsyncFunctionDef, ast.ClassDef)):
                    continue
                for field in ('body', 'orelse', 'finalbody'):
                    v = getattr(st, field, None)
                    if isinstance(v, list) and v and isinstance(v[0], ast.stmt):
                        count_pairs(v)
                for h in getattr(st, 'handlers', []) or []:
                    count_pairs(h.body)
        count_pairs(fnode.body)

        # x = E immediately followed by the one statement that reads x (once): per name
        adj = {}

        def count_adj(stmts):
            for a, b in zip(stmts, stmts[1:]):
                if isinstance(a, ast.Assign) and len(a.targets) == 1 and \
                        isinstance(a.targets[0], ast.Name):
                    x = a.targets[0].id
                    if sum(1 for n in ast.walk(b) if isinstance(n, ast.Name) and n.id == x and
                           isinstance(n.ctx, ast.Load)) == 1 and not isinstance(
                               b, (ast.If, ast.For, ast.While, ast.With, ast.Try, ast.FunctionDef)):
                        adj[x] = adj.get(x, 0) + 1
            for st in stmts:
                if isinstance(st, (ast.FunctionDef, ast.AsyncFunctionDef, ast.ClassDef)):
                    continue
                for field in ('body', 'orelse', 'finalbody'):
                    v = getattr(st, field, None)
                    if isinstance(v, list) and v and isinstance(v[0], ast.stmt):
                        count_adj(v)
                for h in getattr(st, 'handlers', []) or []:
                    count_adj(h.body)
        count_adj(fnode.body)

        def once(name):
            # every definition of the name is used exactly once, by the statement after it
            return loads.get(name, 0) == stores.get(name, 0) == adj.get(name, 0) and \
                loads.get(name, 0) >= 1

        def is_copy(st):
            return isinstance(st, ast.Assign) and len(st.targets) == 1 and \
                isinstance(st.targets[0], ast.Name) and isinstance(st.value, ast.Name)

        def def_targets(st):
            if isinstance(st, ast.Assign) and len(st.targets) == 1:
                t = st.targets[0]
                if isinstance(t, ast.Name):
                    return [t]
                if isinstance(t, ast.Tuple) and all(isinstance(e, ast.Name) for e in t.elts):
                    return list(t.elts)
            return []

        def block(stmts, before):
            out = []
            for st in stmts:
                prev = out[-1] if out else None
                # (1) tuple temporary
                if isinstance(st, ast.Assign) and len(st.targets) == 1 and \
                        isinstance(st.targets[0], ast.Tuple) and isinstance(st.value, ast.Name) and \
                        isinstance(prev, ast.Assign) and len(prev.targets) == 1 and \
                        isinstance(prev.targets[0], ast.Name) and \
                        prev.targets[0].id == st.value.id and isinstance(prev.value, ast.Tuple) and \
                        len(prev.value.elts) == len(st.targets[0].elts) and once(st.value.id):
                    st.value = prev.value
                    out.pop()
                    out.append(st)
                    changed[0] = True
                    self.bump('tuple-temp-forwarded')
                    continue
                # (3) x = E; return x  ->  return E        (also raise gen.Return(x))
                rv = _ret_name(st)
                if rv is not None and isinstance(prev, ast.Assign) and len(prev.targets) == 1 and \
                        isinstance(prev.targets[0], ast.Name) and prev.targets[0].id == rv.id and \
                        loads.get(rv.id, 0) == pairs.get(rv.id, 0) == stores.get(rv.id, 0):
                    out.pop()
                    if isinstance(st, ast.Return):
                        st.value = prev.value
                    else:
                        st.exc.args[0] = prev.value
                    out.append(st)
                    changed[0] = True
                    self.bump('return-temp-forwarded')
                    continue
                # (5) x = E; S(x)  ->  S(E)   E free of calls, x read once, by S, nowhere else
                if isinstance(prev, ast.Assign) and len(prev.targets) == 1 and \
                        isinstance(prev.targets[0], ast.Name) and once(prev.targets[0].id) and \
                        isinstance(st, (ast.Assign, ast.Expr, ast.Return, ast.AugAssign, ast.Raise)) \
                        and not any(isinstance(n_, (ast.Call, ast.Yield, ast.YieldFrom, ast.Await,
                                                    ast.NamedExpr, ast.Lambda, ast.ListComp,
                                                    ast.DictComp, ast.SetComp, ast.GeneratorExp))
                                    for n_ in ast.walk(prev.value)):
                    x_ = prev.targets[0].id
                    uses = [n_ for n_ in ast.walk(st) if isinstance(n_, ast.Name) and n_.id == x_]
                    in_scope = not any(isinstance(n_, (ast.Lambda, ast.ListComp, ast.DictComp,
                                                        ast.SetComp, ast.GeneratorExp))
                                       and any(m_ is uses[0] for m_ in ast.walk(n_))
                                       for n_ in ast.walk(st)) if uses else False
                    if len(uses) == 1 and isinstance(uses[0].ctx, ast.Load) and in_scope:
                        _NameSub({x_: prev.value}).visit(st)
                        out.pop()
                        out.append(st)
                        changed[0] = True
                        self.bump('pure-temp-forwarded')
                        continue
                # (4) x = E; f(x, ..)  ->  f(E, ..)   x used nowhere else and evaluated first
                if isinstance(prev, ast.Assign) and len(prev.targets) == 1 and \
                        isinstance(prev.targets[0], ast.Name) and once(prev.targets[0].id) and \
                        isinstance(st, (ast.Expr, ast.Assign, ast.Return)) and \
                        isinstance(getattr(st, 'value', None), ast.Call) and \
                        is_simple(st.value.func) and st.value.args and \
                        isinstance(st.value.args[0], ast.Name) and \
                        st.value.args[0].id == prev.targets[0].id and \
                        not (isinstance(st, ast.Assign) and any(
                            isinstance(n_, ast.Name) and n_.id == prev.targets[0].id
                            for t_ in st.targets for n_ in ast.walk(t_))):
                    st.value.args[0] = prev.value
                    out.pop()
                    out.append(st)
                    changed[0] = True
                    self.bump('temp-forwarded-to-call')
                    continue
                # (2') x = E; T = x  ->  T = E   for any target T, x used nowhere else
                if isinstance(st, ast.Assign) and len(st.targets) == 1 and \
                        isinstance(st.value, ast.Name) and \
                        not isinstance(st.targets[0], ast.Name) and \
                        isinstance(prev, ast.Assign) and len(prev.targets) == 1 and \
                        isinstance(prev.targets[0], ast.Name) and \
                        prev.targets[0].id == st.value.id and once(st.value.id) and \
                        not any(isinstance(n_, ast.Name) and n_.id == st.value.id
                                for n_ in ast.walk(st.targets[0])):
                    st.value = prev.value
                    out.pop()
                    out.append(st)
                    changed[0] = True
                    self.bump('temp-forwarded-to-store')
                    continue
                # (2) copy of a value defined just before (only other copies in between)
                if is_copy(st) and once(st.value.id):
                    x, y = st.value.id, st.targets[0].id
                    j = len(out) - 1
                    while j >= 0 and is_copy(out[j]) and x not in (out[j].value.id, out[j].targets[0].id) \
                            and y not in (out[j].value.id, out[j].targets[0].id):
                        j -= 1
                    d = out[j] if j >= 0 else (before if j < 0 else None)
                    tg = [t for t in def_targets(d) if t.id == x] if d is not None else []
                    mentions_y = d is not None and any(
                        isinstance(n, ast.Name) and n.id == y for n in ast.walk(d))
                    if tg and not mentions_y:
                        tg[0].id = y
                        changed[0] = True
                        self.bump('copy-coalesced')
                        continue
                out.append(st)
            for st in out:
                if isinstance(st, (ast.FunctionDef, ast.AsyncFunctionDef, ast.ClassDef)):
                    continue
                for field in ('body', 'orelse', 'finalbody'):
                    v = getattr(st, field, None)
                    if isinstance(v, list) and v and isinstance(v[0], ast.stmt):
                        b4 = None
                        if field == 'orelse' and isinstance(st, ast.Try) and st.body:
                            b4 = st.body[-1]
                        setattr(st, field, block(v, b4) or ([ast.Pass()] if field == 'body' else []))
                for h in getattr(st, 'handlers', []) or []:
                    h.body = block(h.body, None) or [ast.Pass()]
            return out
        fnode.body = block(fnode.body, None) or [ast.Pass()]
        return changed[0]

    def _thread(self, branch, follow, flag):
        last = branch[-1]
        if isinstance(last, ast.If):
            self._thread(last.body, follow, flag)
            self._thread(last.orelse, follow, flag)
            return
        val = last.value
        f = copy.deepcopy(follow)

        class Sub(ast.NodeTransformer):
            def visit_Name(self_, node):
                if node.id == flag and isinstance(node.ctx, ast.Load):
                    return _loc(copy.deepcopy(val), node)
                return node
        f.test = bool_ctx(norm_expr(Sub().visit(f.test)))
        if isinstance(f.test, ast.Constant):
            branch.extend(f.body if f.test.value else f.orelse)
        elif isinstance(f.test, ast.UnaryOp) and isinstance(f.test.op, ast.Not) and \
                isinstance(f.test.operand, ast.Constant):
            branch.extend(f.orelse if f.test.operand.value else f.body)
        else:
            branch.append(f)

    def unpack_in_target(self, loop):
        """for k, v in X: (a, b) = v; ...   ->   for k, (a, b) in X: ..."""
        if not loop.body:
            return
        first = loop.body[0]
        if not (isinstance(first, ast.Assign) and len(first.targets) == 1 and
                isinstance(first.targets[0], (ast.Tuple, ast.List)) and
                isinstance(first.value, ast.Name) and len(loop.body) > 1):
            return
        v = first.value.id
        holders = [n for n in ast.walk(loop.target) if isinstance(n, ast.Name) and n.id == v]
        if len(holders) != 1 or loop.target is holders[0]:
            return
        uses = sum(1 for st in loop.body[1:] + list(loop.orelse) for n in ast.walk(st)
                   if isinstance(n, ast.Name) and n.id == v)
        if uses or any(isinstance(n, ast.Starred) for n in ast.walk(first.targets[0])):
            return

        class R(ast.NodeTransformer):
            def visit_Name(self_, node):
                if node is holders[0]:
                    return _loc(ast.Tuple(elts=first.targets[0].elts, ctx=ast.Store()), node)
                return node
        loop.target = R().visit(loop.target)
        loop.body = loop.body[1:]
        self.bump('unpack-in-target')

    def drop_dead_stores(self, fnode):
        """`x = <pure expression>` where the local x is never read"""
        loaded, keep = set(), set()
        for n in ast.walk(fnode):
            if isinstance(n, ast.Name) and isinstance(n.ctx, (ast.Load, ast.Del)):
                loaded.add(n.id)
            elif isinstance(n, (ast.Global, ast.Nonlocal)):
                keep |= set(n.names)
            elif isinstance(n, ast.AugAssign) and isinstance(n.target, ast.Name):
                loaded.add(n.target.id)
            elif isinstance(n, ast.Call) and dotted(n.func) in ('locals', 'vars', 'eval', 'exec'):
                return

        def dead(st):
            return isinstance(st, ast.Assign) and len(st.targets) == 1 and \
                isinstance(st.targets[0], ast.Name) and st.targets[0].id not in loaded and \
                st.targets[0].id not in keep and _pure_flag_value(st.value) and \
                not any(isinstance(x, (ast.Subscript, ast.Attribute, ast.BinOp))
                        for x in ast.walk(st.value))

        def rec(stmts):
            out = []
            for st in stmts:
                if dead(st):
                    self.bump('dead-store-dropped')
                    continue
                for field in ('body', 'orelse', 'finalbody'):
                    v = getattr(st, field, None)
                    if isinstance(v, list) and v and isinstance(v[0], ast.stmt) and \
                            not isinstance(st, (ast.FunctionDef, ast.AsyncFunctionDef,
                                                ast.ClassDef)):
                        new = rec(v)
                        setattr(st, field, new or ([ast.Pass()] if field == 'body' else []))
                for h in getattr(st, 'handlers', []) or []:
                    h.body = rec(h.body) or [ast.Pass()]
                out.append(st)
            return out
        fnode.body = rec(fnode.body) or [ast.Pass()]

    def expand_ifexp(self, stmts):
        out = []
        for s in stmts:
            v = getattr(s, 'value', None)
            if isinstance(s, ast.Return) and isinstance(v, ast.IfExp):
                self.bump('ifexp')
                new = ast.If(test=v.test, body=[_loc(ast.Return(value=v.body), s)],
                             orelse=[_loc(ast.Return(value=v.orelse), s)])
                out.extend(self.expand_ifexp([_loc(new, s)]))
            elif isinstance(s, (ast.Assign, ast.Return, ast.Expr)) and \
                    _leading_ifexp(v) is not None and \
                    (not isinstance(s, ast.Assign) or
                     (len(s.targets) == 1 and isinstance(s.targets[0], (ast.Name, ast.Attribute,
                                                                         ast.Subscript)))):
                # x = f(A if c else B)  ->  if c: x = f(A) else: x = f(B)
                self.bump('ifexp')
                ie = _leading_ifexp(v)

                def variant(branch):
                    s2 = copy.deepcopy(s)
                    ie2 = _leading_ifexp(s2.value)

                    class R(ast.NodeTransformer):
                        def visit_IfExp(self_, n):
                            return copy.deepcopy(branch) if n is ie2 else n
                    s2.value = R().visit(s2.value)
                    return s2
                new = ast.If(test=copy.deepcopy(ie.test), body=[variant(ie.body)],
                             orelse=[variant(ie.orelse)])
                out.append(_loc(new, s))
            elif isinstance(s, ast.Assign) and isinstance(v, ast.IfExp) and \
                    len(s.targets) == 1 and isinstance(s.targets[0], (ast.Name, ast.Attribute)):
                self.bump('ifexp')
                new = ast.If(test=v.test,
                             body=[_loc(ast.Assign(targets=[copy.deepcopy(s.targets[0])],
                                                   value=v.body), s)],
                             orelse=[_loc(ast.Assign(targets=[copy.deepcopy(s.targets[0])],
                                                     value=v.orelse), s)])
                out.append(_loc(new, s))
            else:
                out.append(s)
        return out

    def loops_to_comprehensions(self, stmts):
        out = []
        i = 0
        while i < len(stmts):
            s = stmts[i]
            nxt = stmts[i + 1] if i + 1 < len(stmts) else None
            # x = []; for T in I: [if C:] x.append(E)
            if isinstance(s, ast.Assign) and len(s.targets) == 1 and \
                    isinstance(s.targets[0], ast.Name) and isinstance(s.value, ast.List) and \
                    not s.value.elts and isinstance(nxt, ast.For) and not nxt.orelse and \
                    len(nxt.body) == 1:
                name = s.targets[0].id
                b = nxt.body[0]
                ifs = []
                if isinstance(b, ast.If) and not b.orelse and len(b.body) == 1:
                    ifs = [b.test]
                    b = b.body[0]
                elt = _append_call(b, name)
                tnames = {n.id for n in ast.walk(nxt.target) if isinstance(n, ast.Name)}
                later = any(_uses_name(r, t) for r in stmts[i + 2:] for t in tnames)
                if elt is not None and not _uses_name(nxt.iter, name) and not later and \
                        not any(_uses_name(t, name) for t in ifs) and not _uses_name(elt, name):
                    self.bump('loop-to-listcomp')
                    comp = ast.ListComp(elt=elt, generators=[ast.comprehension(
                        target=nxt.target, iter=nxt.iter, ifs=ifs, is_async=0)])
                    out.append(_loc(ast.Assign(targets=s.targets, value=_loc(comp, nxt)), s))
                    i += 2
                    continue
            # for T in I: if C: return True  /  return False
            if isinstance(s, ast.For) and not s.orelse and len(s.body) == 1 and \
                    isinstance(s.body[0], ast.If) and not s.body[0].orelse and \
                    len(s.body[0].body) == 1 and isinstance(s.body[0].body[0], ast.Return) and \
                    isinstance(s.body[0].body[0].value, ast.Constant) and \
                    s.body[0].body[0].value.value is True and isinstance(nxt, ast.Return) and \
                    isinstance(nxt.value, ast.Constant) and nxt.value.value is False:
                self.bump('loop-to-any')
                gen = ast.GeneratorExp(elt=s.body[0].test, generators=[ast.comprehension(
                    target=s.target, iter=s.iter, ifs=[], is_async=0)])
                call = ast.Call(func=ast.Name(id='any', ctx=ast.Load()), args=[gen], keywords=[])
                out.append(_loc(ast.Return(value=_loc(call, s)), s))
                i += 2
                continue
            out.append(s)
            i += 1
        return out

    def nest_guards(self, stmts):
        for i, s in enumerate(stmts):
            rest = stmts[i + 1:]
            if not rest:
                break
            if isinstance(s, ast.If):
                if terminates(s.body):
                    self.bump('guard-nested')
                    s.orelse = list(s.orelse) + rest
                    return stmts[:i + 1]
                if s.orelse and terminates(s.orelse):
                    self.bump('guard-nested')
                    s.body = list(s.body) + rest
                    return stmts[:i + 1]
            if isinstance(s, ast.Try) and not s.finalbody and s.handlers and \
                    all(terminates(h.body) for h in s.handlers):
                self.bump('try-rest-to-else')
                s.orelse = list(s.orelse) + rest
                return stmts[:i + 1]
            if isinstance(s, (ast.Return, ast.Raise, ast.Continue, ast.Break)):
                self.bump('dead-code-dropped')
                return stmts[:i + 1]
        return stmts

    # -- one statement -------------------------------------------------------
    def stmt(self, s, loop_tail, func_tail):
        if isinstance(s, (ast.FunctionDef, ast.AsyncFunctionDef)):
            s.body = self.block(s.body, False, True)
            for _ in range(3):
                if not self.coalesce_temps(s):
                    break
                s.body = self.block(s.body, False, True)
            self.drop_dead_stores(s)
            return s
        if isinstance(s, ast.ClassDef):
            s.body = self.block(s.body, False, False)
            return s
        if isinstance(s, (ast.If, ast.While)):
            s.test = bool_ctx(s.test)
        if isinstance(s, ast.If):
            s.body = self.block(s.body, loop_tail, func_tail)
            if s.orelse:
                s.orelse = self.block(s.orelse, loop_tail, func_tail)
            if s.orelse and len(s.orelse) == 1 and isinstance(s.orelse[0], ast.Pass):
                s.orelse = []
            # if a: if b: X   ->   if a and b: X
            while not s.orelse and len(s.body) == 1 and isinstance(s.body[0], ast.If) and \
                    not s.body[0].orelse:
                inner = s.body[0]
                self.bump('nested-if-merged')
                vals = (s.test.values if isinstance(s.test, ast.BoolOp) and
                        isinstance(s.test.op, ast.And) else [s.test]) + \
                    (inner.test.values if isinstance(inner.test, ast.BoolOp) and
                     isinstance(inner.test.op, ast.And) else [inner.test])
                s.test = _loc(ast.BoolOp(op=ast.And(), values=list(vals)), s.test)
                s.body = inner.body
            # if a: T = a          T = a or b
            # else: T = b   ==>
            if len(s.body) == 1 and len(s.orelse) == 1 and \
                    isinstance(s.body[0], ast.Assign) and isinstance(s.orelse[0], ast.Assign) and \
                    len(s.body[0].targets) == 1 and len(s.orelse[0].targets) == 1 and \
                    ast.dump(s.body[0].targets[0]) == ast.dump(s.orelse[0].targets[0]) and \
                    is_simple(s.test) and ast.dump(s.test) == ast.dump(s.body[0].value):
                self.bump('if-else-default-as-or')
                return _loc(ast.Assign(
                    targets=s.body[0].targets,
                    value=ast.BoolOp(op=ast.Or(), values=[s.body[0].value, s.orelse[0].value])), s)
            if s.orelse and len(s.body) == 1 and isinstance(s.body[0], ast.Pass):
                self.bump('empty-body-swapped')
                s.test = negate(s.test)
                s.body, s.orelse = s.orelse, []
            elif s.orelse and is_negative(s.test):
                self.bump('polarity-swapped')
                s.test = negate(s.test)
                s.body, s.orelse = s.orelse, s.body
            return s
        if isinstance(s, ast.While) and not s.orelse and isinstance(s.test, ast.Constant) and \
                s.test.value is True and s.body and isinstance(s.body[0], ast.If) and \
                not s.body[0].orelse and len(s.body[0].body) == 1 and \
                isinstance(s.body[0].body[0], ast.Break) and len(s.body) > 1:
            # while True: if not c: break; BODY   is   while c: BODY
            self.bump('while-true-break-as-test')
            s.test = negate(s.body[0].test)
            s.body = s.body[1:]
        if isinstance(s, (ast.For, ast.AsyncFor)):
            self.unpack_in_target(s)
        if isinstance(s, (ast.For, ast.AsyncFor, ast.While)):
            s.body = self.block(s.body, True, False)
            if s.orelse:
                s.orelse = self.block(s.orelse, loop_tail, func_tail)
                if len(s.orelse) == 1 and isinstance(s.orelse[0], ast.Pass):
                    s.orelse = []
            return s
        if isinstance(s, (ast.With, ast.AsyncWith)):
            s.body = self.block(s.body, loop_tail, func_tail)
            return s
        if isinstance(s, ast.Try) or s.__class__.__name__ == 'TryStar':
            if s.orelse and all(_non_raising(x) for x in s.orelse):
                self.bump('try-else-joined')
                s.body = list(s.body) + list(s.orelse)
                s.orelse = []
            fin = bool(s.finalbody)
            s.body = self.block(s.body, loop_tail and not fin and not s.orelse,
                                func_tail and not fin and not s.orelse)
            for h in s.handlers:
                h.body = self.block(h.body, loop_tail and not fin, func_tail and not fin)
            if s.orelse:
                s.orelse = self.block(s.orelse, loop_tail and not fin, func_tail and not fin)
            if s.finalbody:
                s.finalbody = self.block(s.finalbody, False, False)
            return s
        if isinstance(s, ast.Return) and s.value is not None and \
                isinstance(s.value, ast.Constant) and s.value.value is None:
            s.value = None
            return s
        if isinstance(s, ast.Assign) and len(s.targets) == 1 and isinstance(s.targets[0], ast.Name) \
                and isinstance(s.value, ast.Call) and dotted(s.value.func) == 'sorted' and \
                len(s.value.args) == 1 and isinstance(s.value.args[0], ast.Name) and \
                s.value.args[0].id == s.targets[0].id:
            # L = sorted(L, key=..) is L.sort(key=..) for a local list
            self.bump('sorted-rebind-as-sort')
            return _loc(ast.Expr(value=ast.Call(
                func=ast.Attribute(value=ast.Name(id=s.targets[0].id, ctx=ast.Load()), attr='sort',
                                   ctx=ast.Load()), args=[], keywords=s.value.keywords)), s)
        if isinstance(s, ast.Assign) and len(s.targets) == 1 and isinstance(s.targets[0], ast.Name) \
                and isinstance(s.value, ast.BinOp) and isinstance(s.value.op, ast.Add) and \
                isinstance(s.value.left, ast.Name) and s.value.left.id == s.targets[0].id and \
                isinstance(s.value.right, ast.List) and len(s.value.right.elts) == 1 and \
                not isinstance(s.value.right.elts[0], ast.Starred):
            # X = X + [e] is X.append(e) for a local list
            self.bump('concat-as-append')
            return _loc(ast.Expr(value=ast.Call(
                func=ast.Attribute(value=ast.Name(id=s.targets[0].id, ctx=ast.Load()),
                                   attr='append', ctx=ast.Load()),
                args=[s.value.right.elts[0]], keywords=[])), s)
        if isinstance(s, ast.Assign) and len(s.targets) == 1 and isinstance(s.targets[0], ast.Name) \
                and isinstance(s.value, ast.BinOp) and isinstance(s.value.op, (ast.Add, ast.Sub)) \
                and isinstance(s.value.left, ast.Name) and s.value.left.id == s.targets[0].id and \
                (isinstance(s.value.right, ast.Constant) and
                 isinstance(s.value.right.value, (int, float)) or
                 isinstance(s.value.right, (ast.Name, ast.Attribute))):
            # x = x + k is x += k
            self.bump('rebind-as-augassign')
            return _loc(ast.AugAssign(target=ast.Name(id=s.targets[0].id, ctx=ast.Store()),
                                      op=s.value.op, value=s.value.right), s)
        if isinstance(s, ast.AugAssign) and isinstance(s.op, ast.Add) and \
                isinstance(s.target, ast.Name) and isinstance(s.value, ast.List) and \
                len(s.value.elts) == 1 and not isinstance(s.value.elts[0], ast.Starred):
            self.bump('concat-as-append')
            return _loc(ast.Expr(value=ast.Call(
                func=ast.Attribute(value=ast.Name(id=s.target.id, ctx=ast.Load()),
                                   attr='append', ctx=ast.Load()),
                args=[s.value.elts[0]], keywords=[])), s)
        if isinstance(s, ast.Expr) and isinstance(s.value, ast.Call) and \
                dotted(s.value.func) == 'setattr' and len(s.value.args) == 3 and \
                not s.value.keywords and isinstance(s.value.args[1], ast.Constant) and \
                isinstance(s.value.args[1].value, str) and s.value.args[1].value.isidentifier():
            # setattr(x, 'name', v) is x.name = v
            self.bump('setattr-as-assignment')
            a = s.value.args
            return _loc(ast.Assign(targets=[ast.Attribute(value=a[0], attr=a[1].value,
                                                         ctx=ast.Store())], value=a[2]), s)
        if hasattr(ast, 'Match') and isinstance(s, ast.Match):
            for c in s.cases:
                c.body = self.block(c.body, loop_tail, func_tail)
            return s
        return s


def _test_value(test, name, const):
    """truth of `test` when `name` holds the constant, or None if it depends on more"""
    if isinstance(test, ast.Name) and test.id == name:
        return bool(const)
    if isinstance(test, ast.UnaryOp) and isinstance(test.op, ast.Not):
        v = _test_value(test.operand, name, const)
        return None if v is None else (not v)
    if isinstance(test, ast.Compare) and len(test.ops) == 1 and \
            isinstance(test.left, ast.Name) and test.left.id == name and \
            isinstance(test.comparators[0], ast.Constant):
        k = test.comparators[0].value
        op = test.ops[0]
        if isinstance(op, ast.Is):
            return const is k
        if isinstance(op, ast.IsNot):
            return const is not k
        if isinstance(op, ast.Eq):
            return const == k
        if isinstance(op, ast.NotEq):
            return const != k
    return None


def _never_none_expr(v):
    if isinstance(v, ast.Constant):
        return v.value is not None
    if isinstance(v, (ast.Dict, ast.List, ast.Set, ast.Tuple, ast.ListComp, ast.DictComp,
                      ast.SetComp, ast.JoinedStr)):
        return True
    if isinstance(v, ast.Call) and isinstance(v.func, ast.Name) and \
            v.func.id in ('dict', 'list', 'set', 'tuple', 'str', 'int', 'float', 'bool'):
        return True
    return False


def _pure_flag_value(e):
    """cheap and free of side effects: may be evaluated once more"""
    for n in ast.walk(e):
        if isinstance(n, ast.Call) and dotted(n.func) not in ('len', 'bool', 'isinstance'):
            return False
        if isinstance(n, (ast.Yield, ast.YieldFrom, ast.Await, ast.NamedExpr, ast.Lambda)):
            return False
    return True


def _ends_with_flag(branch, flag):
    if not branch:
        return False
    last = branch[-1]
    if isinstance(last, ast.Assign) and len(last.targets) == 1 and \
            isinstance(last.targets[0], ast.Name) and last.targets[0].id == flag:
        return _pure_flag_value(last.value)
    if isinstance(last, ast.If) and last.orelse:
        return _ends_with_flag(last.body, flag) and _ends_with_flag(last.orelse, flag)
    return False


def _leading_ifexp(v):
    """the conditional expression that is the first thing a call expression evaluates:
    f(A if c else B, simple...) with a simple callee (possibly nested one level)"""
    if isinstance(v, ast.Call) and is_simple(v.func) and v.args and not \
            any(isinstance(a, ast.Starred) for a in v.args):
        a0 = v.args[0]
        if isinstance(a0, ast.IfExp):
            return a0
        if isinstance(a0, ast.Call) and len(v.args) == 1 and not v.keywords:
            return _leading_ifexp(a0)
    return None


def _target_in(target, expr):
    t = ast.dump(target).replace('Store()', 'Load()')
    return any(ast.dump(n) == t for n in ast.walk(expr))


# ---------------------------------------------------------------------------
# P1 constants
def _immutable(n, names_ok=False):
    if is_constlike(n):
        return True
    if isinstance(n, ast.Tuple):
        return all(_immutable(e, names_ok) for e in n.elts)
    if names_ok and dotted(n) is not None:
        return True          # a reference (imported constant, class, errno.X): evaluated at the use
    return False


def _literal_of(value):
    """literal node for a module-level constant definition, or None.  Only
    immutable values: copying a list/dict/set constant to its uses would turn
    one shared object into many."""
    if _immutable(value):
        return value
    if isinstance(value, ast.Tuple) and value.elts and _immutable(value, True):
        return value           # tuple of references, e.g. (DEAD_OR_ZOMBIE, UNEXISTING)
    if isinstance(value, ast.Call) and dotted(value.func) == 're.compile' and value.args and \
            not value.keywords and isinstance(value.args[0], ast.Constant) and \
            all(dotted(a) is not None or isinstance(a, ast.BinOp) for a in value.args[1:]):
        return value           # a compiled pattern is immutable: the use sites see the literal
    if isinstance(value, ast.Call) and not value.keywords and len(value.args) == 1:
        d = dotted(value.func)
        a = value.args[0]
        if d == 'frozenset' and isinstance(a, (ast.List, ast.Tuple, ast.Set)) and \
                all(_immutable(e) for e in a.elts) and a.elts:
            return ast.Set(elts=a.elts)       # a frozenset cannot be shared mutably
        if d == 'tuple' and isinstance(a, (ast.List, ast.Tuple)) and \
                all(_immutable(e) for e in a.elts):
            return ast.Tuple(elts=a.elts, ctx=ast.Load())
    return None


def _bound_names(fnode):
    a = fnode.args
    out = {x.arg for x in a.args + a.kwonlyargs + a.posonlyargs}
    if a.vararg:
        out.add(a.vararg.arg)
    if a.kwarg:
        out.add(a.kwarg.arg)
    for n in ast.walk(fnode):
        if isinstance(n, ast.Name) and isinstance(n.ctx, (ast.Store, ast.Del)):
            out.add(n.id)
        elif isinstance(n, ast.ExceptHandler) and n.name:
            out.add(n.name)
        elif isinstance(n, (ast.FunctionDef, ast.AsyncFunctionDef, ast.ClassDef)) and n is not fnode:
            out.add(n.name)
    return out


class _ConstSubst(ast.NodeTransformer):
    def __init__(self, consts, cls_consts):
        self.consts = consts            # NAME -> literal
        self.cls_consts = cls_consts    # (Class, NAME) -> literal
        self.shadow = [set()]
        self.cls = [None]
        self.applied = []

    def visit_FunctionDef(self, node):
        self.shadow.append(self.shadow[-1] | _bound_names(node))
        self.generic_visit(node)
        self.shadow.pop()
        return node
    visit_AsyncFunctionDef = visit_FunctionDef

    def visit_Lambda(self, node):
        self.shadow.append(self.shadow[-1] | {a.arg for a in node.args.args})
        self.generic_visit(node)
        self.shadow.pop()
        return node

    def visit_ClassDef(self, node):
        self.cls.append(node.name)
        self.generic_visit(node)
        self.cls.pop()
        return node

    def visit_Name(self, node):
        if isinstance(node.ctx, ast.Load) and node.id in self.consts and \
                node.id not in self.shadow[-1]:
            self.applied.append(node.id)
            return _loc(copy.deepcopy(self.consts[node.id]), node)
        return node

    def visit_Attribute(self, node):
        if isinstance(node.ctx, ast.Load) and isinstance(node.value, ast.Name):
            base = node.value.id
            cands = []
            if base in ('self', 'cls') and self.cls[-1]:
                cands = [k for k in self.cls_consts if k[1] == node.attr]
            else:
                cands = [k for k in self.cls_consts if k == (base, node.attr)]
            if len(cands) == 1:
                self.applied.append('%s.%s' % cands[0])
                return _loc(copy.deepcopy(self.cls_consts[cands[0]]), node)
        self.generic_visit(node)
        return node


def propagate_constants(modname, tree, ref_consts, all_trees):
    """Substitute new (not in the reference table) single-assignment literal
    constants of this module at their uses; drop their definitions."""
    counts = {}
    for n in ast.walk(tree):
        if isinstance(n, ast.Name) and isinstance(n.ctx, (ast.Store, ast.Del)):
            counts[n.id] = counts.get(n.id, 0) + 1
        elif isinstance(n, ast.Global):
            for x in n.names:
                counts[x] = counts.get(x, 0) + 2
    consts, cls_consts = {}, {}
    defs = []
    for s in tree.body:
        if isinstance(s, ast.Assign) and len(s.targets) == 1 and isinstance(s.targets[0], ast.Name):
            name = s.targets[0].id
            lit = _literal_of(s.value)
            if lit is not None and counts.get(name) == 1 and \
                    '%s:%s' % (modname, name) not in ref_consts and name != '__all__' and \
                    not (name.startswith('__') and name.endswith('__')):
                consts[name] = lit
                defs.append((tree.body, s))
        elif isinstance(s, ast.ClassDef):
            for b in s.body:
                if isinstance(b, ast.Assign) and len(b.targets) == 1 and \
                        isinstance(b.targets[0], ast.Name):
                    name = b.targets[0].id
                    lit = _literal_of(b.value)
                    key = '%s:%s.%s' % (modname, s.name, name)
                    if lit is None or key in ref_consts or name.startswith('__'):
                        continue
                    # never assigned through an attribute anywhere in the project
                    stored = False
                    for t in all_trees:
                        for n in ast.walk(t):
                            if isinstance(n, ast.Attribute) and n.attr == name and \
                                    isinstance(n.ctx, (ast.Store, ast.Del)):
                                stored = True
                    if not stored and counts.get(name, 0) <= 1:
                        cls_consts[(s.name, name)] = lit
                        defs.append((s.body, b))
    if not consts and not cls_consts:
        return []
    sub = _ConstSubst(consts, cls_consts)
    sub.visit(tree)
    # definitions stay when another module imports the name
    imported = set()
    for t in all_trees:
        if t is tree:
            continue
        for n in ast.walk(t):
            if isinstance(n, ast.ImportFrom):
                for a in n.names:
                    imported.add(a.name)
            elif isinstance(n, ast.Attribute):
                imported.add(n.attr)
    for body, s in defs:
        name = s.targets[0].id
        if name not in imported and len(body) > 1:
            body.remove(s)
    return sorted(set(sub.applied))


# ---------------------------------------------------------------------------
# P4 helper inlining
def _own_nodes(fnode):
    """nodes of a function body, not descending into nested defs/classes"""
    todo = list(fnode.body)
    while todo:
        n = todo.pop()
        yield n
        if isinstance(n, (ast.FunctionDef, ast.AsyncFunctionDef, ast.ClassDef, ast.Lambda)):
            continue
        todo.extend(ast.iter_child_nodes(n))


def _returns_in_tail(stmts):
    """every Return of the (already normalised) list is in tail position"""
    for i, s in enumerate(stmts):
        last = i == len(stmts) - 1
        if isinstance(s, ast.Return):
            if not last:
                return False
        elif isinstance(s, ast.If):
            if last:
                if not _returns_in_tail(s.body) or not _returns_in_tail(s.orelse):
                    return False
            elif _has_return(s):
                return False
        elif isinstance(s, (ast.With, ast.AsyncWith)):
            if last:
                if not _returns_in_tail(s.body):
                    return False
            elif _has_return(s):
                return False
        elif isinstance(s, ast.Try):
            if last and not s.finalbody:
                # a return that ends the try body / a handler / the else is in
                # tail position of the function: nothing follows the statement
                for part in [s.body, s.orelse] + [h.body for h in s.handlers]:
                    if not _returns_in_tail(part):
                        return False
                if s.orelse and _has_return_list(s.body):
                    return False
            elif _has_return(s):
                return False
        elif isinstance(s, (ast.For, ast.AsyncFor, ast.While)):
            if _has_return(s):
                return False
        elif isinstance(s, (ast.FunctionDef, ast.AsyncFunctionDef, ast.ClassDef)):
            continue
        elif _has_return(s):
            return False
    return True


def _has_return_list(stmts):
    return any(_has_return(s) for s in stmts)


def _has_return(stmt):
    todo = [stmt]
    while todo:
        n = todo.pop()
        if isinstance(n, ast.Return):
            return True
        if isinstance(n, (ast.FunctionDef, ast.AsyncFunctionDef, ast.ClassDef, ast.Lambda)) \
                and n is not stmt:
            continue
        todo.extend(ast.iter_child_nodes(n))
    return False


def _loop_return_to_break(stmts):
    """`for ..: if c: return E` + tail  ->  for/else form with returns only in
    tail position is not expressible without a result variable; handled by the
    caller through `convert_returns` with a target.  Here: detect the shape."""
    return None


class Helper(object):
    def __init__(self, modname, clsname, node):
        self.modname = modname
        self.clsname = clsname
        self.node = node
        self.name = node.name
        self.static = any(dotted(d) == 'staticmethod' for d in node.decorator_list)
        self.key = '%s:%s' % (modname, ('%s.%s' % (clsname, node.name)) if clsname else node.name)

    def eligible(self):
        n = self.node
        if isinstance(n, ast.AsyncFunctionDef):
            return 'async'
        decos = [dotted(d) for d in n.decorator_list]
        self.coroutine = bool(decos) and all(d in ('gen.coroutine', 'coroutine',
                                                   'tornado.gen.coroutine') for d in decos)
        if any(d != 'staticmethod' for d in decos) and not self.coroutine:
            return 'decorated'
        a = n.args
        if a.vararg or a.kwarg or a.kwonlyargs or a.posonlyargs:
            return 'star/kw-only parameters'
        for x in _own_nodes(n):
            if isinstance(x, (ast.Yield, ast.YieldFrom, ast.Await)) and not self.coroutine:
                return 'generator'
            if isinstance(x, (ast.YieldFrom, ast.Await)):
                return 'generator'
            if isinstance(x, (ast.Global, ast.Nonlocal)):
                return 'global/nonlocal'
            if isinstance(x, (ast.FunctionDef, ast.AsyncFunctionDef, ast.ClassDef)):
                return 'nested definition'
            if isinstance(x, ast.Call) and self._calls_self(x):
                return 'recursive'
        return None

    def shape(self):
        """'tail': every return in tail position; 'loop': returns inside one
        top-level for loop; 'any': only `return helper(..)` sites can take it"""
        if _returns_in_tail(self.body()):
            return 'tail'
        if self.loop_return_shape() is not None:
            return 'loop'
        return 'any'

    def _calls_self(self, call):
        f = call.func
        if isinstance(f, ast.Name) and f.id == self.name and not self.clsname:
            return True
        if isinstance(f, ast.Attribute) and f.attr == self.name and self.clsname:
            return True
        return False

    def body(self):
        b = list(self.node.body)
        if b and isinstance(b[0], ast.Expr) and isinstance(b[0].value, ast.Constant) and \
                isinstance(b[0].value.value, str):
            b = b[1:]
        if getattr(self, 'coroutine', False):
            b = [_GenReturn().visit(copy.deepcopy(x)) for x in b]
        return b or [ast.Pass()]

    def loop_return_shape(self):
        """body == [pre..., For(with `return E` only as `if c: return E` directly
        in its body, no break/else), Return tail] -> index of the loop"""
        b = self.body()
        for i, s in enumerate(b):
            if isinstance(s, ast.For) and _has_return(s):
                if s.orelse or any(isinstance(x, ast.Break) for x in ast.walk(s)):
                    return None
                if any(_has_return(x) for x in b[:i]):
                    return None
                # returns only directly under the loop body's if-structure
                for x in ast.walk(s):
                    if isinstance(x, (ast.For, ast.While)) and x is not s and _has_return(x):
                        return None
                    if isinstance(x, ast.Try) and _has_return(x):
                        return None
                rest = b[i + 1:]
                if not _returns_in_tail(rest):
                    return None
                return i
        return None

    def single_expr(self):
        b = self.body()
        if len(b) == 1 and isinstance(b[0], ast.Return) and b[0].value is not None:
            return b[0].value
        return None


class _GenReturn(ast.NodeTransformer):
    """raise gen.Return(E) in a coroutine is `return E`"""

    def visit_Raise(self, node):
        e = node.exc
        if isinstance(e, ast.Call) and dotted(e.func) in ('gen.Return', 'Return',
                                                          'tornado.gen.Return'):
            val = e.args[0] if e.args else None
            return _loc(ast.Return(value=val), node)
        return node

    def visit_FunctionDef(self, node):
        return node


class _Subst(ast.NodeTransformer):
    def __init__(self, mapping, rename):
        self.mapping = mapping      # param name -> expr
        self.rename = rename        # local name -> new name

    def visit_Name(self, node):
        if node.id in self.mapping and isinstance(node.ctx, ast.Load):
            return _loc(copy.deepcopy(self.mapping[node.id]), node)
        if node.id in self.rename:
            node.id = self.rename[node.id]
        return node

    def visit_ExceptHandler(self, node):
        if node.name in self.rename:
            node.name = self.rename[node.name]
        self.generic_visit(node)
        return node


def _convert_returns(stmts, make):
    """returns (in tail position) -> make(value_expr, return_node) statements"""
    out = []
    for s in stmts:
        if isinstance(s, ast.Return):
            out.extend(make(s.value, s))
        else:
            if isinstance(s, ast.If):
                s.body = _convert_returns(s.body, make) or [ast.Pass()]
                s.orelse = _convert_returns(s.orelse, make)
            elif isinstance(s, (ast.With, ast.AsyncWith)):
                s.body = _convert_returns(s.body, make) or [ast.Pass()]
            elif isinstance(s, ast.Try):
                s.body = _convert_returns(s.body, make) or [ast.Pass()]
                s.orelse = _convert_returns(s.orelse, make)
                for h in s.handlers:
                    h.body = _convert_returns(h.body, make) or [ast.Pass()]
            out.append(s)
    return out


def _loop_returns_to_breaks(loop, make):
    """inside `loop`, `return E` -> make(E) + break"""
    def rec(stmts):
        out = []
        for s in stmts:
            if isinstance(s, ast.Return):
                out.extend(make(s.value, s))
                out.append(_loc(ast.Break(), s))
            else:
                if isinstance(s, ast.If):
                    s.body = rec(s.body)
                    s.orelse = rec(s.orelse)
                elif isinstance(s, (ast.With, ast.AsyncWith)):
                    s.body = rec(s.body)
                out.append(s)
        return out
    loop.body = rec(loop.body)


class Inliner(object):
    def __init__(self, trees, ref_functions):
        self.trees = trees                    # modname -> Module
        self.ref = set(ref_functions)
        self.helpers = {}                     # key -> Helper
        self.by_module = {}                   # modname -> {name: Helper}
        self.by_class = {}                    # (modname, cls) -> {name: Helper}
        self.method_names = {}                # method name -> number of classes defining it
        self.inlined = []                     # 'helper -> caller'
        self.rejected = {}                    # key -> reason
        self.counter = 0

    def _classes(self, tree):
        """(qualified class name, ClassDef) incl. classes nested in classes"""
        out = []

        def rec(body, prefix):
            for s in body:
                if isinstance(s, ast.ClassDef):
                    out.append((prefix + s.name, s))
                    rec(s.body, prefix + s.name + '.')
        rec(tree.body, '')
        return out

    def collect(self):
        bases, defines = {}, {}
        for modname, tree in self.trees.items():
            for cname, c in self._classes(tree):
                short = cname.split('.')[-1]
                for b_ in c.bases:
                    bn = b_.id if isinstance(b_, ast.Name) else (
                        b_.attr if isinstance(b_, ast.Attribute) else None)
                    if bn:
                        bases.setdefault(short, set()).add(bn)
                for b in c.body:
                    if isinstance(b, (ast.FunctionDef, ast.AsyncFunctionDef)):
                        self.method_names[b.name] = self.method_names.get(b.name, 0) + 1
                        defines.setdefault(b.name, []).append(short)
        subs = {}
        for c_, bs in bases.items():
            for b_ in bs:
                subs.setdefault(b_, set()).add(c_)

        def closure(start, rel):
            seen, todo = set(), [start]
            while todo:
                x = todo.pop()
                for y in rel.get(x, ()):
                    if y not in seen:
                        seen.add(y)
                        todo.append(y)
            return seen
        # a method name is ambiguous for class A only when a class RELATED to A (ancestor,
        # descendant, or a second class of the same name) defines it as well
        self.ambiguous = set()
        for name, owners in defines.items():
            for a in owners:
                rel = closure(a, bases) | closure(a, subs)
                if owners.count(a) > 1 or any(o in rel for o in owners if o != a):
                    self.ambiguous.add((a, name))
        for modname, tree in self.trees.items():
            for s in tree.body:
                if isinstance(s, (ast.FunctionDef, ast.AsyncFunctionDef)):
                    self._consider(Helper(modname, None, s))
            for cname, c in self._classes(tree):
                for b in c.body:
                    if isinstance(b, (ast.FunctionDef, ast.AsyncFunctionDef)):
                        self._consider(Helper(modname, cname, b))

    def _consider(self, h):
        if h.key in self.ref:
            return
        if h.name.startswith('__') and h.name.endswith('__'):
            return
        if h.clsname and (h.clsname.split('.')[-1], h.name) in self.ambiguous:
            self.rejected[h.key] = 'method name defined in several related classes'
            return
        why = h.eligible()
        if why:
            self.rejected[h.key] = why
            return
        self.helpers[h.key] = h
        if h.clsname:
            self.by_class.setdefault((h.modname, h.clsname), {})[h.name] = h
        else:
            self.by_module.setdefault(h.modname, {})[h.name] = h

    # -- resolution ----------------------------------------------------------
    def resolve(self, call, modname, clsname, shadow):
        f = call.func
        if isinstance(f, ast.Name) and f.id in getattr(self, '_local', {}):
            return self._local[f.id]
        if isinstance(f, ast.Name):
            h = self.by_module.get(modname, {}).get(f.id)
            if h is not None and f.id not in shadow:
                return h
        elif isinstance(f, ast.Attribute) and isinstance(f.value, ast.Name) and \
                f.value.id == 'self' and clsname:
            for (m, c), table in self.by_class.items():
                if f.attr in table and (m, c) == (modname, clsname):
                    return table[f.attr]
            # helper defined in a base/sub class of the same module family
            for (m, c), table in self.by_class.items():
                if f.attr in table:
                    return table[f.attr]
        return None

    # -- binding of arguments --------------------------------------------------
    def bind(self, h, call):
        params = [a.arg for a in h.node.args.args]
        defaults = h.node.args.defaults
        dmap = dict(zip(params[len(params) - len(defaults):], defaults))
        if h.clsname and not h.static:
            if not params:
                return None
            selfname, params = params[0], params[1:]
        else:
            selfname = None
        if any(isinstance(a, ast.Starred) for a in call.args) or \
                any(k.arg is None for k in call.keywords):
            return None
        if len(call.args) > len(params):
            return None
        bound = {}
        for p, a in zip(params, call.args):
            bound[p] = a
        for k in call.keywords:
            if k.arg not in params or k.arg in bound:
                return None
            bound[k.arg] = k.value
        for p in params:
            if p not in bound:
                if p not in dmap:
                    return None
                bound[p] = dmap[p]
        return selfname, params, bound

    def instantiate(self, h, call, caller_names):
        """-> (prelude statements, body statements with returns intact, subst)"""
        b = self.bind(h, call)
        if b is None:
            return None
        selfname, params, bound = b
        body = copy.deepcopy(h.body())
        stored = set()
        for s in body:
            for n in ast.walk(s):
                if isinstance(n, ast.Name) and isinstance(n.ctx, (ast.Store, ast.Del)):
                    stored.add(n.id)
                elif isinstance(n, ast.ExceptHandler) and n.name:
                    stored.add(n.name)
        mapping, rename, prelude = {}, {}, []
        if selfname:
            mapping[selfname] = ast.Name(id='self', ctx=ast.Load())
        inplace = getattr(self, '_inplace_target', None)
        for p in params:
            a = bound[p]
            if p in stored and inplace is not None and isinstance(a, ast.Name) and \
                    a.id == inplace and _returns_only(body, p):
                # x = helper(.., x, ..): the helper works on a copy of x and hands it
                # back; on the caller's side that is an update of x
                rename[p] = inplace
                continue
            uses = sum(1 for s in body for n in ast.walk(s)
                       if isinstance(n, ast.Name) and n.id == p)
            if p not in stored and (is_simple(a) or (uses <= 1 and not _has_call(a))):
                mapping[p] = a
            elif p not in stored and uses == 1 and self._first_evaluated(body, p):
                mapping[p] = a
            else:
                new = p if p not in caller_names else '%s__%s' % (p, h.name.strip('_'))
                rename[p] = new
                prelude.append(_loc(ast.Assign(
                    targets=[ast.Name(id=new, ctx=ast.Store())], value=copy.deepcopy(a)), call))
        for loc in sorted(stored - set(params)):
            if loc in caller_names:
                rename[loc] = '%s__%s' % (loc, h.name.strip('_'))
        sub = _Subst(mapping, rename)
        body = [sub.visit(s) for s in body]
        return prelude, body, rename

    def _first_evaluated_dummy(self):
        pass

    def _first_evaluated(self, body, p):
        """parameter p's single use is in the first simple statement"""
        s = body[0]
        if isinstance(s, (ast.Assign, ast.Expr, ast.Return, ast.AugAssign)):
            return any(isinstance(n, ast.Name) and n.id == p for n in ast.walk(s))
        return False

    # -- rewriting -----------------------------------------------------------
    def run(self):
        self.collect()
        for rounds in range(4):
            changed = False
            for modname, tree in self.trees.items():
                for s in tree.body:
                    if isinstance(s, (ast.FunctionDef, ast.AsyncFunctionDef)):
                        changed |= self.function(s, modname, None)
                for cname, c in self._classes(tree):
                    for b in c.body:
                        if isinstance(b, (ast.FunctionDef, ast.AsyncFunctionDef)):
                            changed |= self.function(b, modname, cname)
            if not changed:
                break
        self.remove_unreferenced()

    def _local_helpers(self, fnode, modname):
        """nested functions that are only ever called directly inside fnode: local
        helpers, inlined like new private ones (whether or not the reference has them)"""
        out = {}
        callees = {id(c.func) for c in ast.walk(fnode) if isinstance(c, ast.Call)}
        for st in _own_nodes(fnode):
            if isinstance(st, ast.FunctionDef) and not st.decorator_list:
                uses = [n for n in ast.walk(fnode) if isinstance(n, ast.Name) and
                        n.id == st.name and isinstance(n.ctx, ast.Load)]
                inner = {id(n) for n in ast.walk(st)}
                outer_uses = [u for u in uses if id(u) not in inner]
                if not outer_uses or not all(id(u) in callees for u in uses):
                    continue
                h = Helper(modname, None, st)
                h.key = '%s:%s.%s' % (modname, fnode.name, st.name)
                if h.eligible() is None:
                    out[st.name] = h
        return out

    def function(self, fnode, modname, clsname, outer_names=frozenset()):
        names = _bound_names(fnode) | outer_names
        saved_local = getattr(self, '_local', {})
        self._local = self._local_helpers(fnode, modname)
        self._cur = (fnode, modname, clsname, names)
        before = len(self.inlined)
        fnode.body = self.block(fnode.body)
        # a nested function that is not referenced (any more) disappears
        nested = [n for n in _own_nodes(fnode) if isinstance(n, ast.FunctionDef)]
        for nd in nested:
            still = any(isinstance(n, ast.Name) and n.id == nd.name and isinstance(n.ctx, ast.Load)
                        for n in ast.walk(fnode))
            if still:
                continue
            for parent in ast.walk(fnode):
                for field in ('body', 'orelse', 'finalbody'):
                    lst = getattr(parent, field, None)
                    if isinstance(lst, list) and nd in lst:
                        lst.remove(nd)
                        if not lst and field == 'body':
                            lst.append(ast.Pass())
        for n in list(_own_nodes(fnode)):
            if isinstance(n, (ast.FunctionDef, ast.AsyncFunctionDef)):
                self.function(n, modname, clsname, names)
                self._cur = (fnode, modname, clsname, names)
        self._local = saved_local
        return len(self.inlined) != before

    def _calls_in(self, expr_holder):
        """(call, conditional?) for helper calls inside the expressions that the
        statement itself evaluates"""
        fnode, modname, clsname, names = self._cur
        found = []

        def rec(n, cond):
            if isinstance(n, (ast.FunctionDef, ast.AsyncFunctionDef, ast.ClassDef)):
                return
            if isinstance(n, ast.Call):
                h = self.resolve(n, modname, clsname, names)
                if h is not None and h.node is not fnode:
                    found.append((n, h, cond))
            if isinstance(n, ast.BoolOp):
                rec(n.values[0], cond)
                for v in n.values[1:]:
                    rec(v, True)
                return
            if isinstance(n, ast.IfExp):
                rec(n.test, cond)
                rec(n.body, True)
                rec(n.orelse, True)
                return
            if isinstance(n, (ast.Lambda, ast.ListComp, ast.SetComp, ast.DictComp,
                              ast.GeneratorExp)):
                for c in ast.iter_child_nodes(n):
                    rec(c, True)
                return
            for c in ast.iter_child_nodes(n):
                rec(c, cond)
        for e in expr_holder:
            rec(e, False)
        return found

    def _own_exprs(self, s):
        if isinstance(s, (ast.Assign, ast.AugAssign, ast.AnnAssign, ast.Expr, ast.Return)):
            return [s.value] if getattr(s, 'value', None) is not None else []
        if isinstance(s, ast.If):
            return [s.test]
        if isinstance(s, (ast.For, ast.AsyncFor)):
            return [s.iter]
        if isinstance(s, ast.Raise):
            return [x for x in (s.exc, s.cause) if x is not None]
        if isinstance(s, (ast.With, ast.AsyncWith)):
            return [i.context_expr for i in s.items]
        if isinstance(s, ast.Assert):
            return [s.test]
        if isinstance(s, ast.While):
            return []
        if isinstance(s, ast.Delete):
            return list(s.targets)
        return []

    def block(self, stmts):
        out = []
        for s in stmts:
            out.extend(self.statement(s))
        return out

    def _recurse(self, s):
        if isinstance(s, (ast.FunctionDef, ast.AsyncFunctionDef, ast.ClassDef)):
            return s
        for field in ('body', 'orelse', 'finalbody'):
            v = getattr(s, field, None)
            if isinstance(v, list) and v and isinstance(v[0], ast.stmt):
                setattr(s, field, self.block(v))
        for h in getattr(s, 'handlers', []) or []:
            h.body = self.block(h.body)
        return s

    def statement(self, s):
        fnode, modname, clsname, names = self._cur
        if isinstance(s, (ast.FunctionDef, ast.AsyncFunctionDef, ast.ClassDef)):
            return [s]
        # while tests and conditionally evaluated positions: expression helpers only
        if isinstance(s, ast.While):
            self._subst_expression_helpers(s, ['test'])
            return [self._recurse(s)]
        pre = self._renest_partials(s)
        self._helpers_as_values(s)
        failed = set()
        for guard in range(12):
            found = [f for f in self._calls_in(self._own_exprs(s)) if id(f[0]) not in failed]
            if not found:
                break
            call, h, cond = found[0]
            done = self._inline_at(s, call, h, cond)
            if done is None:
                failed.add(id(call))
                continue
            new_pre, s_list = done
            self.inlined.append('%s -> %s' % (h.key, fnode.name))
            pre.extend(new_pre)
            if len(s_list) != 1 or s_list[0] is not s:
                # statement replaced by a block: recurse into the block
                return pre + self.block(s_list)
        return pre + [self._recurse(s)]

    def _helpers_as_values(self, s):
        """key=new_helper  ->  key=lambda x: <its expression>   (a lambda that was
        given a name at module level)"""
        fnode, modname, clsname, names = self._cur
        for e in self._own_exprs(s):
            callees = {id(n.func) for n in ast.walk(e) if isinstance(n, ast.Call)}
            for n in list(ast.walk(e)):
                if isinstance(n, ast.Name) and isinstance(n.ctx, ast.Load) and \
                        id(n) not in callees and n.id not in names:
                    h = self.by_module.get(modname, {}).get(n.id)
                    if h is None or h.single_expr() is None or h.node.args.defaults:
                        continue
                    lam = ast.Lambda(args=copy.deepcopy(h.node.args),
                                     body=copy.deepcopy(h.single_expr()))

                    class R(ast.NodeTransformer):
                        def visit_Name(self_, node):
                            return _loc(lam, node) if node is n else node
                    R().visit(s)
                    self.inlined.append('%s -> %s (lambda)' % (h.key, fnode.name))

    def _renest_partials(self, s):
        """functools.partial(new_helper, a, b)  ->  a nested function closing over a, b
        (the inverse of lifting a closure to module level)"""
        fnode, modname, clsname, names = self._cur
        pre = []
        for e in self._own_exprs(s):
            for n in list(ast.walk(e)):
                if not (isinstance(n, ast.Call) and dotted(n.func) in ('functools.partial',
                                                                        'partial') and n.args):
                    continue
                fake = ast.Call(func=n.args[0], args=list(n.args[1:]), keywords=list(n.keywords))
                h = self.resolve(fake, modname, clsname, names)
                if h is None or h.node is fnode:
                    continue
                if any(isinstance(a, ast.Starred) for a in fake.args) or \
                        any(k.arg is None for k in fake.keywords):
                    continue
                params = list(h.node.args.args)
                defaults = list(h.node.args.defaults)
                dmap = dict(zip([p.arg for p in params][len(params) - len(defaults):], defaults))
                mapping = {}
                if h.clsname and not h.static:
                    if not params:
                        continue
                    mapping[params[0].arg] = ast.Name(id='self', ctx=ast.Load())
                    params = params[1:]
                if len(fake.args) > len(params):
                    continue
                bound = {}
                for p, a in zip(params, fake.args):
                    bound[p.arg] = a
                ok = True
                for k in fake.keywords:
                    if k.arg not in [p.arg for p in params] or k.arg in bound:
                        ok = False
                    bound[k.arg] = k.value
                if not ok or not all(is_simple(a) for a in bound.values()):
                    continue
                stored = {x.id for b in h.body() for x in ast.walk(b)
                          if isinstance(x, ast.Name) and isinstance(x.ctx, (ast.Store, ast.Del))}
                if stored & set(bound):
                    continue
                mapping.update(bound)
                rest = [p for p in params if p.arg not in bound]
                rest_defaults = [dmap[p.arg] for p in rest if p.arg in dmap]
                body = [_Subst(mapping, {}).visit(copy.deepcopy(b)) for b in h.body()]
                name = '%s__closure' % h.name.strip('_')
                fd = ast.FunctionDef(
                    name=name, args=ast.arguments(
                        posonlyargs=[], args=[ast.arg(arg=p.arg) for p in rest], vararg=None,
                        kwonlyargs=[], kw_defaults=[], kwarg=None,
                        defaults=[copy.deepcopy(d) for d in rest_defaults]),
                    body=body, decorator_list=[], returns=None, type_comment=None)
                if hasattr(fd, 'type_params'):
                    fd.type_params = []
                pre.append(_loc(fd, s))
                self._replace(s, n, ast.Name(id=name, ctx=ast.Load()))
                names.add(name)
                self.inlined.append('%s -> %s (closure)' % (h.key, fnode.name))
        return pre

    def _subst_expression_helpers(self, s, fields):
        fnode, modname, clsname, names = self._cur
        for field in fields:
            e = getattr(s, field)
            for n in list(ast.walk(e)):
                if isinstance(n, ast.Call):
                    h = self.resolve(n, modname, clsname, names)
                    if h is not None and h.single_expr() is not None:
                        inst = self.instantiate(h, n, names)
                        if inst and not inst[0] and isinstance(inst[1][0], ast.Return):
                            self._replace(s, n, inst[1][0].value)
                            self.inlined.append('%s -> %s' % (h.key, fnode.name))

    def _replace(self, holder, old, new):
        class R(ast.NodeTransformer):
            def visit_Call(self_, node):
                if node is old:
                    return _loc(new, old)
                self_.generic_visit(node)
                return node
        R().visit(holder)

    def _inline_at(self, s, call, h, cond):
        """-> (prelude, [statements replacing s]) or None"""
        fnode, modname, clsname, names = self._cur
        if getattr(h, 'coroutine', False):
            # `yield self._helper(..)` / `x = yield self._helper(..)` in a coroutine: the
            # helper's steps are steps of the caller
            v = getattr(s, 'value', None)
            if not (isinstance(s, (ast.Expr, ast.Assign)) and isinstance(v, ast.Yield) and
                    v.value is call):
                return None
            if not any(dotted(d) in ('gen.coroutine', 'coroutine', 'tornado.gen.coroutine')
                       for d in fnode.decorator_list):
                return None
            s.value = call          # from here on like a plain call statement
        self._inplace_target = None
        if isinstance(s, ast.Assign) and s.value is call and len(s.targets) == 1 and \
                isinstance(s.targets[0], ast.Name):
            self._inplace_target = s.targets[0].id
        inst = self.instantiate(h, call, names)
        self._inplace_target = None
        if inst is None:
            return None
        prelude, body, rename = inst
        # 1. expression helper: substitute in place (any position)
        if len(body) == 1 and isinstance(body[0], ast.Return) and body[0].value is not None \
                and not prelude:
            self._replace(s, call, body[0].value)
            return [], [s]
        if cond:
            return None
        shape = h.shape()
        if isinstance(s, ast.Return) and s.value is call:
            # returns of the helper are returns of the caller, wherever they are
            out = body
            if not terminates(out):
                out = out + [_loc(ast.Return(value=None), s)]
            return prelude, out
        if shape == 'any':
            return None
        loop_i = h.loop_return_shape() if shape == 'loop' else None

        def finish(make, tail_none):
            b = body
            if loop_i is not None:
                loop = b[loop_i]
                _loop_returns_to_breaks(loop, make)
                rest = _convert_returns(b[loop_i + 1:], make)
                loop.orelse = rest or [ast.Pass()]
                return b[:loop_i + 1]
            b = _convert_returns(b, make)
            return b

        # 2. statement is exactly the call
        if isinstance(s, ast.Expr) and s.value is call:
            def make(v, r):
                if v is not None and _has_call(v):
                    return [_loc(ast.Expr(value=v), r)]
                return []
            return prelude, (finish(make, None) or [_loc(ast.Pass(), s)])
        if isinstance(s, ast.Assign) and s.value is call and len(s.targets) == 1 and \
                (isinstance(s.targets[0], (ast.Name, ast.Attribute)) or
                 (isinstance(s.targets[0], ast.Tuple) and
                  all(isinstance(e, (ast.Name, ast.Attribute)) for e in s.targets[0].elts))):
            target = s.targets[0]
            return prelude, self._assign_form(h, body, target, s, finish)
        # 3. call nested in a larger expression of a simple statement: hoist
        if isinstance(s, (ast.Assign, ast.AugAssign, ast.Expr, ast.Return, ast.If, ast.Raise,
                          ast.For)):
            self.counter += 1
            tmp = '%s_value' % h.name.strip('_')
            if tmp in names:
                tmp = '%s_%d' % (tmp, self.counter)
            names.add(tmp)
            target = ast.Name(id=tmp, ctx=ast.Store())
            blk = self._assign_form(h, body, target, s, finish)
            self._replace(s, call, ast.Name(id=tmp, ctx=ast.Load()))
            return prelude + blk, [s]
        return None

    def _assign_form(self, h, body, target, s, finish):
        # `return local` at the single tail + target is a plain name: the local
        # simply becomes the target
        call_names = {n.id for n in ast.walk(s) if isinstance(n, ast.Name) and
                      isinstance(n.ctx, ast.Load)}
        if isinstance(target, ast.Name) and target.id not in call_names and body and \
                isinstance(body[-1], ast.Return) and \
                isinstance(body[-1].value, ast.Name) and not _has_return_list(body[:-1]):
            loc = body[-1].value.id
            is_local = any(isinstance(n, ast.Name) and n.id == loc and isinstance(n.ctx, ast.Store)
                           for x in body for n in ast.walk(x))
            if is_local:
                for x in body:
                    for n in ast.walk(x):
                        if isinstance(n, ast.Name) and n.id == loc:
                            n.id = target.id
                        elif isinstance(n, ast.ExceptHandler) and n.name == loc:
                            n.name = target.id
                return body[:-1] or [_loc(ast.Pass(), s)]

        # `return a, b` of distinct locals at the single tail + `x, y = helper()`:
        # the locals simply become the targets
        if isinstance(target, ast.Tuple) and all(isinstance(e, ast.Name) for e in target.elts) \
                and body and isinstance(body[-1], ast.Return) and \
                isinstance(body[-1].value, ast.Tuple) and \
                len(body[-1].value.elts) == len(target.elts) and \
                all(isinstance(e, ast.Name) for e in body[-1].value.elts) and \
                not _has_return_list(body[:-1]):
            locs = [e.id for e in body[-1].value.elts]
            stored_in_body = {n.id for x in body for n in ast.walk(x)
                              if isinstance(n, ast.Name) and isinstance(n.ctx, ast.Store)}
            tnames = [e.id for e in target.elts]
            if len(set(locs)) == len(locs) and set(locs) <= stored_in_body and \
                    not (set(tnames) & call_names):
                ren = dict(zip(locs, tnames))
                for x in body:
                    for n in ast.walk(x):
                        if isinstance(n, ast.Name) and n.id in ren:
                            n.id = ren[n.id]
                        elif isinstance(n, ast.ExceptHandler) and n.name in ren:
                            n.name = ren[n.name]
                return body[:-1] or [_loc(ast.Pass(), s)]

        def make(v, r):
            val = v if v is not None else ast.Constant(value=None)
            return [_loc(ast.Assign(targets=[copy.deepcopy(target)], value=val), r)]
        none = [_loc(ast.Assign(targets=[copy.deepcopy(target)],
                                value=ast.Constant(value=None)), s)]
        out = finish(make, none)
        if not _always_assigns(out, target):
            # falling off the end of the helper returns None
            out = _append_fallthrough(out, none)
        return out

    # -- removal ---------------------------------------------------------------
    def remove_unreferenced(self):
        used = set()
        for tree in self.trees.values():
            for n in ast.walk(tree):
                if isinstance(n, ast.Name) and isinstance(n.ctx, ast.Load):
                    used.add(n.id)
                elif isinstance(n, ast.Attribute):
                    used.add(n.attr)
                elif isinstance(n, ast.Constant) and isinstance(n.value, str):
                    used.add(n.value)
                elif isinstance(n, ast.ImportFrom):
                    for a in n.names:
                        used.add(a.name)
        self.removed = []
        for key, h in self.helpers.items():
            if h.name in used:
                continue
            tree = self.trees[h.modname]
            for parent in ast.walk(tree):
                body = getattr(parent, 'body', None)
                if isinstance(body, list) and h.node in body:
                    body.remove(h.node)
                    if not body:
                        body.append(ast.Pass())
                    self.removed.append(key)


def _returns_only(body, name):
    """every return of the statement list returns the plain variable `name`"""
    rets = [n for b in body for n in ast.walk(b) if isinstance(n, ast.Return)]
    return bool(rets) and all(isinstance(r.value, ast.Name) and r.value.id == name for r in rets)


def _has_call(e):
    return any(isinstance(n, (ast.Call, ast.Yield, ast.YieldFrom, ast.Await))
               for n in ast.walk(e))


def terminates_or_assigned(stmts):
    return terminates(stmts)


def _always_assigns(stmts, target):
    """every path through stmts that falls off the end assigned target last
    (conservative: tail-structured check)"""
    if not stmts:
        return False
    last = stmts[-1]
    t = ast.dump(target)
    if isinstance(last, ast.Assign) and any(ast.dump(x) == t for x in last.targets):
        return True
    if isinstance(last, (ast.Raise, ast.Return, ast.Continue, ast.Break)):
        return True
    if isinstance(last, ast.If):
        return bool(last.orelse) and _always_assigns(last.body, target) and \
            _always_assigns(last.orelse, target)
    if isinstance(last, (ast.With, ast.AsyncWith)):
        return _always_assigns(last.body, target)
    if isinstance(last, ast.Try):
        main = last.orelse if last.orelse else last.body
        return _always_assigns(main, target) and \
            all(_always_assigns(h.body, target) for h in last.handlers)
    if isinstance(last, (ast.For, ast.While)):
        return bool(last.orelse) and _always_assigns(last.orelse, target)
    return False


def _append_fallthrough(stmts, none_assign):
    """target = None first, so that paths that fall off the end of the helper
    leave None (what a function without return gives)"""
    return copy.deepcopy(none_assign) + stmts


# ---------------------------------------------------------------------------
# dispatch tables:  if x in TABLE: v = TABLE[x]; BODY   ->   if x == k1: v = V1; BODY elif ...
def _dispatch_tables(modname, tree, ref_consts, all_trees):
    """new module-level dict literals with constant keys that are only read"""
    out = {}
    for s in tree.body:
        if isinstance(s, ast.Assign) and len(s.targets) == 1 and \
                isinstance(s.targets[0], ast.Name) and isinstance(s.value, ast.Dict) and \
                s.value.keys and len(s.value.keys) <= 12 and \
                all(isinstance(k, ast.Constant) and isinstance(k.value, (str, int))
                    for k in s.value.keys):
            name = s.targets[0].id
            if '%s:%s' % (modname, name) in ref_consts:
                continue
            ok = True
            for t in all_trees:
                for n in ast.walk(t):
                    if isinstance(n, ast.Name) and n.id == name and \
                            isinstance(n.ctx, (ast.Store, ast.Del)) and n is not s.targets[0]:
                        ok = False
                    if isinstance(n, ast.Subscript) and isinstance(n.value, ast.Name) and \
                            n.value.id == name and isinstance(n.ctx, (ast.Store, ast.Del)):
                        ok = False
                    if isinstance(n, ast.Call) and isinstance(n.func, ast.Attribute) and \
                            isinstance(n.func.value, ast.Name) and n.func.value.id == name and \
                            n.func.attr not in ('get', 'keys', 'items', 'values', 'copy'):
                        ok = False
            if ok:
                out[name] = s.value
    return out


class _DictDispatch(ast.NodeTransformer):
    def __init__(self, tables):
        self.tables = tables
        self.applied = []

    def visit_If(self, node):
        self.generic_visit(node)
        t = node.test
        if not (isinstance(t, ast.Compare) and len(t.ops) == 1 and isinstance(t.ops[0], ast.In)
                and isinstance(t.comparators[0], ast.Name) and
                t.comparators[0].id in self.tables and is_simple(t.left)):
            return node
        name = t.comparators[0].id
        table = self.tables[name]
        subject = ast.dump(t.left)
        chain = None
        for k, v in reversed(list(zip(table.keys, table.values))):
            class Sub(ast.NodeTransformer):
                def visit_Subscript(self_, n):
                    self_.generic_visit(n)
                    if isinstance(n.value, ast.Name) and n.value.id == name and \
                            ast.dump(n.slice) == subject and isinstance(n.ctx, ast.Load):
                        return _loc(copy.deepcopy(v), n)
                    return n
            body = [Sub().visit(copy.deepcopy(b)) for b in node.body]
            test = _loc(ast.Compare(left=copy.deepcopy(t.left), ops=[ast.Eq()],
                                    comparators=[copy.deepcopy(k)]), t)
            orelse = [chain] if chain is not None else list(node.orelse)
            chain = _loc(ast.If(test=test, body=body, orelse=orelse), node)
        self.applied.append(name)
        return chain


# ---------------------------------------------------------------------------
# P0 renamed functions
def function_fingerprint(fnode, blank_private=False):
    """Digest of a function that ignores its own name, its docstring and the
    names of its locals (parameters are part of the interface and stay).
    blank_private: also ignore which private (leading underscore) functions /
    attributes it mentions - several of them may have been renamed at once."""
    import hashlib
    f = copy.deepcopy(fnode)
    a = f.args
    params = {x.arg for x in a.args + a.kwonlyargs + a.posonlyargs}
    if a.vararg:
        params.add(a.vararg.arg)
    if a.kwarg:
        params.add(a.kwarg.arg)
    own = f.name
    f.name = '_'
    if f.body and isinstance(f.body[0], ast.Expr) and isinstance(f.body[0].value, ast.Constant) \
            and isinstance(f.body[0].value.value, str):
        f.body = f.body[1:] or [ast.Pass()]
    local = {}
    stored = set()
    for n in ast.walk(f):
        if isinstance(n, ast.Name) and isinstance(n.ctx, (ast.Store, ast.Del)):
            stored.add(n.id)
        elif isinstance(n, ast.ExceptHandler) and n.name:
            stored.add(n.name)
    stored -= params

    class R(ast.NodeTransformer):
        def visit_Name(self, node):
            if node.id in stored:
                node.id = local.setdefault(node.id, '_v%d' % len(local))
            elif node.id == own:
                node.id = '_self_'
            elif blank_private and node.id.startswith('_') and not node.id.endswith('__') \
                    and node.id not in params:
                node.id = '_p'
            return node

        def visit_Attribute(self, node):
            self.generic_visit(node)
            if node.attr == own:
                node.attr = '_self_'
            elif blank_private and node.attr.startswith('_') and not node.attr.endswith('__'):
                node.attr = '_p'
            return node

        def visit_ExceptHandler(self, node):
            if node.name in stored:
                node.name = local.setdefault(node.name, '_v%d' % len(local))
            self.generic_visit(node)
            return node
    R().visit(f)
    f.decorator_list = []
    return hashlib.sha1(ast.dump(f).encode('utf8')).hexdigest()[:16]


def _signature(fnode):
    a = fnode.args
    return ([x.arg for x in a.posonlyargs + a.args], [x.arg for x in a.kwonlyargs],
            bool(a.vararg), bool(a.kwarg), sorted(dotted(d) or ast.dump(d)
                                                  for d in fnode.decorator_list))


def restore_function_names(trees, ref):
    """A function of the reference table that is gone while a new one with the
    same body (or, failing that, the only new one with the same signature in
    the same scope) has appeared was renamed: give it its reference name back,
    at the definition and at its uses."""
    ref_fp = ref.get('fingerprints', {})
    if not ref_fp:
        return []
    ref_funcs = set(ref.get('functions', []))
    method_classes = {}
    for modname, tree in trees.items():
        for s in tree.body:
            if isinstance(s, ast.ClassDef):
                for b in s.body:
                    if isinstance(b, (ast.FunctionDef, ast.AsyncFunctionDef)):
                        method_classes.setdefault(b.name, set()).add((modname, s.name))
    applied = []
    done = []
    for modname, tree in trees.items():
        scopes = [(None, tree.body)] + [(s.name, s.body) for s in tree.body
                                        if isinstance(s, ast.ClassDef)]
        for clsname, body in scopes:
            prefix = '%s:%s' % (modname, (clsname + '.') if clsname else '')
            cur = {b.name: b for b in body if isinstance(b, (ast.FunctionDef, ast.AsyncFunctionDef))}
            missing = [k[len(prefix):] for k in ref_funcs
                       if k.startswith(prefix) and '.' not in k[len(prefix):] and
                       k[len(prefix):] not in cur]
            new = [n for n in cur if prefix + n not in ref_funcs and
                   not (n.startswith('__') and n.endswith('__'))]
            if not missing or not new:
                continue
            pairs = {}
            for n in new:
                fp = function_fingerprint(cur[n])
                same = [m for m in missing if ref_fp.get(prefix + m, {}).get('fp') == fp]
                if len(same) == 1 and same[0] not in pairs.values():
                    pairs[n] = same[0]
            # several private functions renamed at once: compare modulo private names
            fpa = {n: function_fingerprint(cur[n], True) for n in new if n not in pairs}
            for n, fp in fpa.items():
                same = [m for m in missing if m not in pairs.values() and
                        ref_fp.get(prefix + m, {}).get('fpa') == fp]
                twins = [x for x, y in fpa.items() if y == fp]
                if len(same) == 1 and len(twins) == 1:
                    pairs[n] = same[0]
            # body edited as well: a new function whose signature (parameters and
            # decorators) equals that of exactly one vanished function, and vice versa
            rest_new = [n for n in new if n not in pairs]
            rest_missing = [m for m in missing if m not in pairs.values()]
            for n in rest_new:
                sig = list(_signature(cur[n]))
                same = [m for m in rest_missing if ref_fp.get(prefix + m, {}).get('sig') == sig]
                twins = [x for x in rest_new if list(_signature(cur[x])) == sig]
                if len(same) == 1 and len(twins) == 1 and same[0] not in pairs.values() and \
                        len(sig[0]) >= 2:
                    pairs[n] = same[0]
            for n, m in pairs.items():
                cur[n].name = m
                applied.append('%s%s -> %s' % (prefix, n, m))
                done.append((modname, clsname, n, m))
    # a nested function of the reference that was lifted to module level (same body,
    # called directly): put it back where the reference has it
    for modname, tree in trees.items():
        top = {b.name: b for b in tree.body if isinstance(b, ast.FunctionDef)}
        parents = {}
        for b in tree.body:
            if isinstance(b, (ast.FunctionDef, ast.AsyncFunctionDef)):
                parents[b.name] = b
            elif isinstance(b, ast.ClassDef):
                for c in b.body:
                    if isinstance(c, (ast.FunctionDef, ast.AsyncFunctionDef)):
                        parents['%s.%s' % (b.name, c.name)] = c
        missing_nested = []
        for k in ref_fp:
            if not k.startswith(modname + ':'):
                continue
            q = k.split(':', 1)[1]
            if '.' not in q:
                continue
            pq, nm = q.rsplit('.', 1)
            if pq in parents and not any(
                    isinstance(x, ast.FunctionDef) and x.name == nm
                    for x in ast.walk(parents[pq]) if x is not parents[pq]):
                missing_nested.append((k, pq, nm))
        new_top = [n for n in top if '%s:%s' % (modname, n) not in ref_funcs and
                   not any(d[0] == modname and d[1] is None and d[2] == n for d in done)]
        if not missing_nested or not new_top:
            continue
        for n in new_top * 3:          # a lifted helper may be used by another lifted helper
            if top[n] not in tree.body:
                continue
            fp, fpa = function_fingerprint(top[n]), function_fingerprint(top[n], True)
            sig = list(_signature(top[n]))
            cands = [x for x in missing_nested if ref_fp[x[0]].get('fp') == fp] or \
                [x for x in missing_nested if ref_fp[x[0]].get('fpa') == fpa]
            if len(cands) != 1:
                continue
            k, pq, nm = cands[0]
            parent = parents[pq]
            # only if it is referenced from that function (and itself) alone
            users = set()
            for b in tree.body:
                for x in ast.walk(b):
                    if isinstance(x, ast.Name) and x.id == n and isinstance(x.ctx, ast.Load):
                        users.add(id(b))
            owner = parent if parent in tree.body else next(
                (c for c in tree.body if isinstance(c, ast.ClassDef) and parent in c.body), None)
            if not users <= {id(top[n]), id(owner)}:
                continue
            tree.body.remove(top[n])
            top[n].name = nm
            for x in list(ast.walk(tree)) + list(ast.walk(top[n])):
                if isinstance(x, ast.Name) and x.id == n:
                    x.id = nm
            i = 1 if (parent.body and isinstance(parent.body[0], ast.Expr) and
                      isinstance(parent.body[0].value, ast.Constant)) else 0
            parent.body.insert(i, top[n])
            missing_nested.remove(cands[0])
            applied.append('%s:%s -> %s.%s (nested again)' % (modname, n, pq, nm))
    # uses
    by_name = {}
    for modname, clsname, n, m in done:
        by_name.setdefault((n, m), set()).add((modname, clsname))
    for modname, clsname, n, m in done:
        if clsname is None:
            for mod2, tree2 in trees.items():
                for x in ast.walk(tree2):
                    if isinstance(x, ast.Name) and x.id == n and mod2 == modname:
                        x.id = m
                    elif isinstance(x, ast.ImportFrom):
                        for al in x.names:
                            if al.name == n and (x.module or '').split('.')[-1] == \
                                    modname.split('.')[-1]:
                                if al.asname is None:
                                    al.asname = n
                                al.name = m
                    elif isinstance(x, ast.Attribute) and x.attr == n and \
                            (dotted(x.value) or '').split('.')[-1] == modname.split('.')[-1]:
                        x.attr = m
        else:
            # every class that defines a method of that name renamed it the same way:
            # the attribute is renamed everywhere; otherwise only inside the class
            everywhere = method_classes.get(n, set()) <= by_name[(n, m)]
            for mod2, tree2 in trees.items():
                if everywhere:
                    scope_nodes = [tree2]
                elif mod2 == modname:
                    scope_nodes = [c for c in tree2.body if isinstance(c, ast.ClassDef) and
                                   c.name == clsname]
                else:
                    scope_nodes = []
                for sc in scope_nodes:
                    for x in ast.walk(sc):
                        if isinstance(x, ast.Attribute) and x.attr == n:
                            x.attr = m
    return applied


# ---------------------------------------------------------------------------
def _module_bound_names(tree):
    out = set()
    for s in tree.body:
        if isinstance(s, (ast.FunctionDef, ast.AsyncFunctionDef, ast.ClassDef)):
            out.add(s.name)
        elif isinstance(s, (ast.Import, ast.ImportFrom)):
            for a in s.names:
                out.add((a.asname or a.name).split('.')[0])
        elif isinstance(s, ast.Assign):
            for t in s.targets:
                if isinstance(t, ast.Name):
                    out.add(t.id)
    return out


def _bring_imports(dst_tree, src_modname, src_tree):
    """Make the names a moved definition may use resolvable where it now lives:
    the source module's imports, and its own top-level definitions."""
    bound = _module_bound_names(dst_tree)
    add = []
    for s in src_tree.body:
        if isinstance(s, (ast.Import, ast.ImportFrom)):
            names = [a for a in s.names if (a.asname or a.name).split('.')[0] not in bound
                     and a.name != '*']
            if names:
                c = copy.deepcopy(s)
                c.names = [copy.deepcopy(a) for a in names]
                add.append(c)
                bound |= {(a.asname or a.name).split('.')[0] for a in names}
    own = [n for n in sorted(_module_bound_names(src_tree) - bound)
           if any(isinstance(x, (ast.FunctionDef, ast.AsyncFunctionDef, ast.ClassDef, ast.Assign))
                  and n in _module_bound_names(ast.Module(body=[x], type_ignores=[]))
                  for x in src_tree.body)]
    if own:
        add.append(ast.ImportFrom(module=src_modname, names=[ast.alias(name=n, asname=None)
                                                              for n in own], level=0))
    if not add:
        return
    pos = 0
    for i, s in enumerate(dst_tree.body):
        if isinstance(s, (ast.Import, ast.ImportFrom)):
            pos = i + 1
    for c in add:
        ast.copy_location(c, dst_tree.body[pos - 1] if pos else dst_tree.body[0])
        ast.fix_missing_locations(c)
    dst_tree.body[pos:pos] = add


def restore_moved_definitions(trees, ref):
    """A method of the reference table that its class no longer defines but now
    inherits from a NEW base class of the package (a mixin extracted from it), or a
    module-level function that its module now imports from a NEW module, was moved:
    put the definition back where the reference has it (the new class / module
    stays, emptied of what was moved)."""
    ref_funcs = set(ref.get('functions', []))
    if not ref_funcs:
        return []
    ref_classes = {k.split('.')[0] for k in ref_funcs if '.' in k.split(':', 1)[1]}
    ref_modules = {k.split(':')[0] for k in ref_funcs}
    classes = {}
    for modname, tree in trees.items():
        for s in tree.body:
            if isinstance(s, ast.ClassDef):
                classes.setdefault(s.name, []).append((modname, tree, s))
    applied = []

    def new_bases(cnode, depth=0):
        out = []
        for b in cnode.bases:
            name = b.id if isinstance(b, ast.Name) else (b.attr if isinstance(b, ast.Attribute)
                                                         else None)
            cands = classes.get(name, [])
            if len(cands) != 1:
                continue
            bmod, btree, bnode = cands[0]
            if '%s:%s' % (bmod, name) in ref_classes:
                continue
            out.append((bmod, btree, bnode))
            if depth < 3:
                out.extend(new_bases(bnode, depth + 1))
        return out
    for modname, tree in list(trees.items()):
        for cnode in [s for s in tree.body if isinstance(s, ast.ClassDef)]:
            prefix = '%s:%s.' % (modname, cnode.name)
            have = {b.name for b in cnode.body
                    if isinstance(b, (ast.FunctionDef, ast.AsyncFunctionDef))}
            missing = [k[len(prefix):] for k in ref_funcs if k.startswith(prefix) and
                       '.' not in k[len(prefix):] and k[len(prefix):] not in have]
            if not missing:
                continue
            bases = new_bases(cnode)
            for m in sorted(missing):
                for bmod, btree, bnode in bases:
                    defs = [b for b in bnode.body
                            if isinstance(b, (ast.FunctionDef, ast.AsyncFunctionDef)) and b.name == m]
                    if not defs:
                        continue
                    for d in defs:
                        bnode.body.remove(d)
                        cnode.body.append(d)
                    if not bnode.body:
                        bnode.body.append(ast.copy_location(ast.Pass(), bnode))
                    if bmod != modname:
                        _bring_imports(tree, bmod, btree)
                    applied.append('%s%s <- %s:%s' % (prefix, m, bmod, bnode.name))
                    break
        # module-level functions imported from a new module
        have = {b.name for b in tree.body if isinstance(b, (ast.FunctionDef, ast.AsyncFunctionDef))}
        prefix = modname + ':'
        missing = [k[len(prefix):] for k in ref_funcs if k.startswith(prefix) and
                   '.' not in k[len(prefix):] and k[len(prefix):] not in have]
        for m in sorted(missing):
            for s in list(tree.body):
                if not (isinstance(s, ast.ImportFrom) and s.module and s.level == 0):
                    continue
                al = [a for a in s.names if a.name == m and (a.asname or a.name) == m]
                if not al or s.module in ref_modules or s.module not in trees:
                    continue
                src = trees[s.module]
                defs = [b for b in src.body
                        if isinstance(b, (ast.FunctionDef, ast.AsyncFunctionDef)) and b.name == m]
                if len(defs) != 1:
                    continue
                s.names = [a for a in s.names if a is not al[0]]
                idx = tree.body.index(s)
                if not s.names:
                    tree.body.remove(s)
                src.body.remove(defs[0])
                if not src.body:
                    src.body.append(ast.Pass())
                _bring_imports(tree, s.module, src)
                tree.body.append(defs[0])
                applied.append('%s%s <- %s' % (prefix, m, s.module))
                break
    for tree in trees.values():
        ast.fix_missing_locations(tree)
    return applied


def _is_eager_native_adapter(fnode):
    """def D(func): a gen.coroutine generator that drives func(*a, **kw).__await__() with
    `yield from` and returns its result - calling D(async_fn)(..) behaves like calling a
    gen.coroutine function with the same body (`await` for `yield`)."""
    if not isinstance(fnode, ast.FunctionDef) or len(fnode.args.args) != 1:
        return False
    p = fnode.args.args[0].arg
    inner = [b for b in fnode.body if isinstance(b, ast.FunctionDef)]
    if len(inner) != 1:
        return False
    w = inner[0]
    if not any((dotted(d) or '').endswith('coroutine') for d in w.decorator_list):
        return False
    drives = False
    for n in ast.walk(w):
        if isinstance(n, ast.YieldFrom) and isinstance(n.value, ast.Call) and \
                isinstance(n.value.func, ast.Attribute) and n.value.func.attr == '__await__' and \
                isinstance(n.value.func.value, ast.Call) and \
                isinstance(n.value.func.value.func, ast.Name) and n.value.func.value.func.id == p:
            drives = True
        elif isinstance(n, (ast.Yield, ast.Await)):
            return False
    rets = [b for b in fnode.body if isinstance(b, ast.Return)]
    return drives and len(rets) == 1 and isinstance(rets[0].value, ast.Name) and \
        rets[0].value.id == w.name


class _AwaitToYield(ast.NodeTransformer):
    def visit_Await(self, node):
        self.generic_visit(node)
        return _loc(ast.Yield(value=node.value), node)

    def visit_FunctionDef(self, node):
        return node

    visit_AsyncFunctionDef = visit_Lambda = visit_FunctionDef


def restore_generator_coroutines(trees, ref):
    """`@adapter async def f` with `await`, where adapter is a NEW eager native-coroutine
    adapter (see _is_eager_native_adapter), is the gen.coroutine function with `yield`."""
    ref_funcs = set(ref.get('functions', []))
    applied = []
    for modname, tree in trees.items():
        adapters = {s.name for s in tree.body
                    if isinstance(s, ast.FunctionDef) and '%s:%s' % (modname, s.name) not in ref_funcs
                    and _is_eager_native_adapter(s)}
        if not adapters:
            continue
        scopes = [(None, tree.body)] + [(s.name, s.body) for s in tree.body
                                        if isinstance(s, ast.ClassDef)]
        for clsname, body in scopes:
            for i, b in enumerate(body):
                if not isinstance(b, ast.AsyncFunctionDef):
                    continue
                idx = [j for j, d in enumerate(b.decorator_list)
                       if isinstance(d, ast.Name) and d.id in adapters]
                if not idx or any(isinstance(x, (ast.AsyncFor, ast.AsyncWith))
                                  for x in ast.walk(b)):
                    continue
                f = ast.FunctionDef(name=b.name, args=b.args, body=b.body,
                                    decorator_list=list(b.decorator_list), returns=b.returns,
                                    type_comment=getattr(b, 'type_comment', None))
                if hasattr(b, 'type_params'):
                    f.type_params = b.type_params
                f.decorator_list[idx[0]] = _loc(ast.Attribute(
                    value=ast.Name(id='gen', ctx=ast.Load()), attr='coroutine', ctx=ast.Load()),
                    b.decorator_list[idx[0]])
                f.body = [_AwaitToYield().visit(st) for st in f.body]
                ast.copy_location(f, b)
                body[i] = f
                applied.append('%s:%s%s' % (modname, (clsname + '.') if clsname else '', b.name))
        ast.fix_missing_locations(tree)
    return applied


def propagate_attribute_aliases(trees):
    """A NEW local (not in the frozen local-names table of its function) that is assigned
    once, at the top level of a function that never suspends (no yield/await), from a plain
    `self.attr`, is an alias introduced for readability: its uses read `self.attr` again -
    provided nothing in the function stores `.attr` and no method of the class that stores
    `self.attr` is called from it."""
    if os.environ.get('VERIF_NO_ALIAS_PROPAGATION'):
        return []
    table_path = os.path.join(os.path.dirname(os.path.abspath(__file__)), 'local_names.json')
    try:
        with open(table_path) as f:
            table = json.load(f)
    except Exception:
        return []
    applied = []
    for modname, tree in trees.items():
        for cnode in [s for s in tree.body if isinstance(s, ast.ClassDef)]:
            storers = {}
            for m in cnode.body:
                if isinstance(m, (ast.FunctionDef, ast.AsyncFunctionDef)):
                    for n in ast.walk(m):
                        if isinstance(n, ast.Attribute) and isinstance(n.ctx, (ast.Store, ast.Del)):
                            storers.setdefault(n.attr, set()).add(m.name)
            for fnode in cnode.body:
                if not isinstance(fnode, ast.FunctionDef):
                    continue
                own = list(_own_nodes(fnode))
                if any(isinstance(n, (ast.Yield, ast.YieldFrom, ast.Await)) for n in ast.walk(fnode)):
                    continue
                key = '%s:%s.%s' % (modname, cnode.name, fnode.name)
                known = set((table.get(key) or {}).get('order', []))
                params = _bound_names(fnode) if False else {a.arg for a in (
                    fnode.args.posonlyargs + fnode.args.args + fnode.args.kwonlyargs)}
                stores = {}
                for n in ast.walk(fnode):
                    if isinstance(n, ast.Name) and isinstance(n.ctx, (ast.Store, ast.Del)):
                        stores[n.id] = stores.get(n.id, 0) + 1
                    elif isinstance(n, (ast.Global, ast.Nonlocal)):
                        for x in n.names:
                            stores[x] = stores.get(x, 0) + 2
                called = {n.func.attr for n in ast.walk(fnode)
                          if isinstance(n, ast.Call) and isinstance(n.func, ast.Attribute) and
                          isinstance(n.func.value, ast.Name) and n.func.value.id == 'self'}
                for st in list(fnode.body):
                    if not (isinstance(st, ast.Assign) and len(st.targets) == 1 and
                            isinstance(st.targets[0], ast.Name)):
                        continue
                    x, v = st.targets[0].id, st.value
                    if not (isinstance(v, ast.Attribute) and isinstance(v.value, ast.Name) and
                            v.value.id == 'self'):
                        continue
                    if x in known or x in params or stores.get(x) != 1 or 'self' in stores:
                        continue
                    attr = v.attr
                    if any(isinstance(n, ast.Attribute) and n.attr == attr and
                           isinstance(n.ctx, (ast.Store, ast.Del)) for n in ast.walk(fnode)):
                        continue
                    if (storers.get(attr, set()) - {'__init__'}) & called:
                        continue
                    fnode.body.remove(st)
                    _NameSub({x: v}).visit(fnode)
                    applied.append('%s: %s = self.%s' % (key, x, attr))
        ast.fix_missing_locations(tree)
    return applied


class StageFailure(Exception):
    def __init__(self, stage, err):
        Exception.__init__(self, '%s: %s: %s' % (stage, type(err).__name__, err))
        self.stage = stage


def _guarded(trees, report, what, step, disabled=()):
    """Run one rewriting stage.  If it fails on some unforeseen construct the caller
    (Project) parses the sources again and repeats the normalisation without that stage:
    a stage that cannot run must not take the whole analysis down."""
    if what in disabled:
        report.setdefault('stages_skipped', []).append(what)
        return None
    try:
        return step()
    except RecursionError:
        raise
    except Exception as e:          # noqa: a defect of the normaliser, never of circus
        raise StageFailure(what, e)


def normalise_trees(trees, reference=None, inline=True, disabled=()):
    """trees: modname -> ast.Module (rewritten in place).  Returns a report
    dict for the evidence."""
    ref = reference if reference is not None else load_reference()
    report = {'constants_propagated': [], 'helpers_inlined': [], 'helpers_removed': [],
              'helpers_not_inlined': {}, 'steps': {}}
    sn = StmtNorm()

    def consts_stage():
        ref_consts = set(ref.get('constants', []))
        all_trees = list(trees.values())
        for modname, tree in trees.items():
            tables = _dispatch_tables(modname, tree, ref_consts, all_trees)
            if tables:
                dd = _DictDispatch(tables)
                dd.visit(tree)
                report.setdefault('dispatch_tables_unrolled', []).extend(
                    '%s:%s' % (modname, n) for n in sorted(set(dd.applied)))
        for rnd in range(2):      # a constant may be computed from another one
            for modname, tree in trees.items():
                got = propagate_constants(modname, tree, ref_consts, all_trees)
                report['constants_propagated'].extend('%s:%s' % (modname, g) for g in got)
                if got:
                    ExprNorm().visit(tree)

    def forms_stage():
        for modname, tree in trees.items():
            ExprNorm().visit(tree)
            sn.module(tree)
            ExprNorm().visit(tree)       # forms exposed by unrolling / substitution
            ast.fix_missing_locations(tree)

    def rename_stage():
        moved = restore_moved_definitions(trees, ref)
        if moved:
            report['definitions_moved_back'] = moved
        native = restore_generator_coroutines(trees, ref)
        if native:
            report['native_coroutines_as_generators'] = native
        report['functions_renamed_back'] = restore_function_names(trees, ref)

    def inline_stage():
        inl = Inliner(trees, ref.get('functions', []))
        inl.run()
        report['helpers_inlined'] = inl.inlined
        report['helpers_removed'] = getattr(inl, 'removed', [])
        report['helpers_not_inlined'] = inl.rejected
        if inl.inlined:
            forms_stage()
    if ref is not None:
        _guarded(trees, report, 'constants', consts_stage, disabled)
    _guarded(trees, report, 'expression/statement forms', forms_stage, disabled)
    if ref is not None:
        _guarded(trees, report, 'renamed functions', rename_stage, disabled)
    if ref is not None and inline:
        _guarded(trees, report, 'helper inlining', inline_stage, disabled)

    def alias_stage():
        got = propagate_attribute_aliases(trees)
        if got:
            report['attribute_aliases_propagated'] = got
            forms_stage()
    if ref is not None:
        _guarded(trees, report, 'attribute aliases', alias_stage, disabled)
    report['steps'] = sn.stats
    return report
