"""Reaching definitions of local names over the statement CFG, and expansion
of an expression by the definitions that reach its use.

A rule about "what is returned / passed / written" must not depend on how many
temporaries the value went through, nor on their names: it asks for the
*expansions* of the expression at the node that uses it - every way the
locals in it can have been defined by plain assignments on some path - and
checks each one, together with the guards of the defining nodes.
"""
import ast
import copy
import itertools

from . import astq

EXC = ('exc', 'raise', 'reraise')


class Def(object):
    __slots__ = ('node', 'name', 'kind', 'value')

    def __init__(self, node, name, kind, value):
        self.node = node      # CFG node (None for parameters)
        self.name = name
        self.kind = kind      # 'assign' | 'aug' | 'param' | 'other'
        self.value = value    # expression (for assign/aug)

    def __repr__(self):
        return '<Def %s@%s %s>' % (self.name, self.node.id if self.node else 'param', self.kind)


def _names_stored(target):
    out = []
    for n in ast.walk(target):
        if isinstance(n, ast.Name) and isinstance(n.ctx, (ast.Store, ast.Del)):
            out.append(n.id)
    return out


class ReachingDefs(object):
    def __init__(self, cfg, fnode):
        self.cfg = cfg
        self.fnode = fnode
        self.defs_at = {}          # node id -> [Def]
        a = fnode.args
        params = [x.arg for x in a.posonlyargs + a.args + a.kwonlyargs]
        if a.vararg:
            params.append(a.vararg.arg)
        if a.kwarg:
            params.append(a.kwarg.arg)
        self.param_defs = [Def(None, p, 'param', None) for p in params]
        for n in cfg.nodes:
            self.defs_at[n.id] = self._defs_of(n)
        self._solve()

    def _defs_of(self, n):
        out = []
        a = n.ast
        if a is None:
            return out
        if n.kind == 'stmt':
            if isinstance(a, ast.Assign):
                if len(a.targets) == 1 and isinstance(a.targets[0], ast.Name):
                    out.append(Def(n, a.targets[0].id, 'assign', a.value))
                else:
                    for t in a.targets:
                        if isinstance(t, ast.Name):
                            out.append(Def(n, t.id, 'assign', a.value))
                        elif isinstance(t, (ast.Tuple, ast.List)) and \
                                isinstance(a.value, (ast.Tuple, ast.List)) and \
                                len(t.elts) == len(a.value.elts) and \
                                not any(isinstance(e, ast.Starred) for e in t.elts + a.value.elts):
                            # a, b = x, y: each name gets its own right-hand side (all of them
                            # evaluated before any is bound, so they speak of the old values)
                            for te, ve in zip(t.elts, a.value.elts):
                                if isinstance(te, ast.Name):
                                    out.append(Def(n, te.id, 'assign', ve))
                                else:
                                    for nm in _names_stored(te):
                                        out.append(Def(n, nm, 'other', None))
                        else:
                            for nm in _names_stored(t):
                                out.append(Def(n, nm, 'other', None))
            elif isinstance(a, ast.AugAssign) and isinstance(a.target, ast.Name):
                val = ast.BinOp(left=ast.Name(id=a.target.id, ctx=ast.Load()), op=a.op,
                                right=a.value)
                ast.copy_location(val, a)
                ast.fix_missing_locations(val)
                out.append(Def(n, a.target.id, 'aug', val))
            elif isinstance(a, ast.AnnAssign) and isinstance(a.target, ast.Name) and a.value:
                out.append(Def(n, a.target.id, 'assign', a.value))
            elif isinstance(a, (ast.FunctionDef, ast.AsyncFunctionDef, ast.ClassDef)):
                out.append(Def(n, a.name, 'other', None))
            elif isinstance(a, (ast.Import, ast.ImportFrom)):
                for al in a.names:
                    out.append(Def(n, (al.asname or al.name).split('.')[0], 'other', None))
            elif isinstance(a, ast.Delete):
                for t in a.targets:
                    for nm in _names_stored(t):
                        out.append(Def(n, nm, 'other', None))
            # walrus
            for x in ast.walk(a):
                if isinstance(x, ast.NamedExpr) and isinstance(x.target, ast.Name):
                    out.append(Def(n, x.target.id, 'assign', x.value))
        elif n.kind == 'test':
            for x in ast.walk(a):
                if isinstance(x, ast.NamedExpr) and isinstance(x.target, ast.Name):
                    out.append(Def(n, x.target.id, 'assign', x.value))
        elif n.kind == 'iter':
            for nm in _names_stored(a.target):
                out.append(Def(n, nm, 'other', None))
        elif n.kind == 'with':
            for it in a.items:
                if it.optional_vars is not None:
                    for nm in _names_stored(it.optional_vars):
                        out.append(Def(n, nm, 'other', None))
        elif n.kind == 'except':
            if a.name:
                out.append(Def(n, a.name, 'other', None))
        return out

    def _solve(self):
        cfg = self.cfg
        IN = {n.id: set() for n in cfg.nodes}
        IN[cfg.entry.id] = set(self.param_defs)
        pred_count = {}
        work = [cfg.entry.id]
        seen_once = set()
        while work:
            cur = work.pop()
            gen = self.defs_at[cur]
            killed = {d.name for d in gen}
            out_norm = set(gen) | {d for d in IN[cur] if d.name not in killed}
            out_exc = IN[cur] | set(gen)
            for nxt, lab in cfg.succ[cur]:
                flow = out_exc if lab in EXC else out_norm
                if not flow <= IN[nxt] or nxt not in seen_once:
                    seen_once.add(nxt)
                    IN[nxt] |= flow
                    work.append(nxt)
        self.IN = IN

    def reaching(self, node, name):
        return [d for d in self.IN[node.id] if d.name == name]

    # -- expansion -----------------------------------------------------------
    def expand(self, node, expr, depth=6, cap=48, stop=()):
        out = self._expand(node, expr, depth, cap, stop)
        for a in out:
            a.use = node
        return out

    def _expand(self, node, expr, depth=6, cap=48, stop=()):
        """All expansions of `expr` as evaluated at `node`.  Returns a list of
        (expression, [defining CFG nodes]) - locals defined by plain assignment
        are replaced by the assigned expressions (recursively); parameters,
        loop/with/except variables and names in `stop` stay."""
        bound = set()
        for x in ast.walk(expr):
            if isinstance(x, ast.comprehension):
                bound |= set(_names_stored(x.target))
            elif isinstance(x, ast.Lambda):
                bound |= {a.arg for a in x.args.args}
        names = []
        for x in ast.walk(expr):
            if isinstance(x, ast.Name) and isinstance(x.ctx, ast.Load) and \
                    x.id not in bound and x.id not in stop and x.id not in names:
                names.append(x.id)
        choices = []
        for nm in names:
            defs = self.reaching(node, nm)
            if not defs or depth <= 0 or any(d.kind not in ('assign', 'aug') for d in defs):
                continue
            alts = []
            for d in sorted(defs, key=lambda d: d.node.id):
                for alt in self._expand(d.node, d.value, depth - 1, cap, stop):
                    alts.append(Alt(alt.expr, [d.node] + alt.used,
                                    [(d.node, node, nm)] + alt.links))
            choices.append((nm, alts[:cap]))
        if not choices:
            return [Alt(expr, [], [])]
        out = []
        for combo in itertools.product(*[alts for _, alts in choices]):
            mapping = {nm: a.expr for (nm, _), a in zip(choices, combo)}
            used, links = [], []
            for a in combo:
                for x in a.used:
                    if x not in used:
                        used.append(x)
                links.extend(a.links)
            out.append(Alt(_subst(expr, mapping, bound), used, links))
            if len(out) >= cap:
                break
        return out

    def feasible(self, alt, assume=None, labels_excluded=()):
        """Can the expansion `alt` occur when the guard atoms have the values
        given by assume(atom) -> True/False/None?  Every definition must be
        reachable from the entry and must reach its use without passing
        another definition of the same name, along edges that the assumption
        allows.  (Necessary condition for one path through all of them.)"""
        from .idioms import infeasible_edges
        cfg = self.cfg
        excl = infeasible_edges(cfg, assume) if assume else ()
        live = cfg.reach(cfg.entry, edges_excluded=excl, labels_excluded=labels_excluded,
                         include_src=True)
        if alt.use is not None and alt.use.id not in live:
            return False
        for dnode, unode, name in alt.links:
            if dnode.id not in live:
                return False
            others = [n for n in cfg.nodes if n is not dnode and
                      any(d.name == name for d in self.defs_at[n.id])]
            if dnode is unode:
                continue
            r = cfg.reach(dnode, avoid=[o for o in others if o is not unode],
                          edges_excluded=excl, labels_excluded=labels_excluded)
            if unode.id not in r:
                return False
        return True


class Alt(object):
    __slots__ = ('expr', 'used', 'links', 'use')

    def __init__(self, expr, used, links):
        self.expr = expr      # expanded expression
        self.used = used      # defining CFG nodes, outermost first
        self.links = links    # (def node, use node, name)
        self.use = None       # node at which the expression is evaluated

    def __iter__(self):       # (expr, used) unpacking
        return iter((self.expr, self.used))

    def text(self):
        return astq.norm_text(self.expr)


class _S(ast.NodeTransformer):
    def __init__(self, mapping, bound):
        self.mapping = mapping
        self.bound = bound

    def visit_Name(self, node):
        if isinstance(node.ctx, ast.Load) and node.id in self.mapping and \
                node.id not in self.bound:
            return ast.copy_location(copy.deepcopy(self.mapping[node.id]), node)
        return node


def _subst(expr, mapping, bound):
    e = _S(mapping, bound).visit(copy.deepcopy(expr))
    ast.fix_missing_locations(e)
    return e


_CACHE = {}


def reaching_defs(ctx, f):
    key = (id(ctx), f.key)
    if key not in _CACHE:
        _CACHE[key] = ReachingDefs(ctx.cfg(f), f.node)
    return _CACHE[key]
