"""Forward dataflow over the statement CFG for *layered mappings*: the abstract
value of a dict-valued expression is the ordered list of sources it was built
from (later layers win), e.g. ('os.environ', '[env]').  State: name/subscript
text -> set of layer tuples (one per way of reaching the node); join = union.
Used for precedence questions ("which source wins") that hold for every input.
"""
import ast

from .astq import norm_text
from .project import dotted

CAP = 6
TOP = frozenset([('*',)])


def _overlay(t, s):
    """t overlaid by s; overlaying the same source twice in a row is once"""
    if s and t[-len(s):] == s:
        return t
    return t + s


def _widen(vals):
    if len(vals) > 24 or any(len(t) > CAP for t in vals):
        return TOP
    return vals


class LayerAnalysis(object):
    def __init__(self, cfg, source, assume=None, seeds=None):
        """source(expr) -> layer label for a primitive source expression or None;
        assume(test_expr) -> True/False/None prunes branch edges;
        seeds: {node_id: {var: set(tuples)}} overrides applied on entering a node."""
        self.cfg = cfg
        self.source = source
        self.assume = assume
        self.seeds = seeds or {}
        self.IN = {n.id: None for n in cfg.nodes}
        self._solve()

    # -- expressions ---------------------------------------------------------
    def layers(self, e, state):
        """set of tuples, or None when e is not a layered mapping we know"""
        lab = self.source(e)
        if lab is not None:
            return {(lab,)}
        if isinstance(e, ast.Dict) and not e.keys:
            return {()}
        # a key-restricted view {k: v for k, v in SRC if <test on k>}: same layers as SRC
        if isinstance(e, (ast.DictComp, ast.GeneratorExp, ast.ListComp)) and \
                len(e.generators) == 1 and isinstance(e.generators[0].target, ast.Tuple) and \
                len(e.generators[0].target.elts) == 2 and \
                all(isinstance(x, ast.Name) for x in e.generators[0].target.elts):
            g = e.generators[0]
            k, v = (x.id for x in g.target.elts)
            if isinstance(e, ast.DictComp):
                pair = (norm_text(e.key), norm_text(e.value))
            elif isinstance(e.elt, ast.Tuple) and len(e.elt.elts) == 2:
                pair = (norm_text(e.elt.elts[0]), norm_text(e.elt.elts[1]))
            else:
                pair = None
            pure = all(not any(isinstance(x, ast.Call) for x in ast.walk(c)) and
                       {x.id for x in ast.walk(c) if isinstance(x, ast.Name)} <= {k}
                       for c in g.ifs)
            if pair == (k, v) and pure:
                return self.layers(g.iter, state)
        if isinstance(e, ast.Call):
            d = dotted(e.func)
            if d == 'dict':
                if not e.args:
                    return {()}
                return self.layers(e.args[0], state)
            if isinstance(e.func, ast.Attribute) and e.func.attr in ('items', 'copy') and \
                    not e.args:
                return self.layers(e.func.value, state)
            if d in ('copy.copy', 'copy.deepcopy', 'copy', 'deepcopy') and e.args:
                return self.layers(e.args[0], state)
        key = norm_text(e)
        if key in state:
            return set(state[key])
        return None

    def _transfer(self, node, state):
        a = node.ast
        if node.kind != 'stmt' or a is None:
            return state
        out = state
        if isinstance(a, ast.Assign) and len(a.targets) == 1:
            lay = self.layers(a.value, state)
            key = norm_text(a.targets[0])
            if lay is not None:
                out = dict(state)
                out[key] = frozenset(lay)
            elif key in state:
                out = dict(state)
                del out[key]
        elif isinstance(a, ast.Expr) and isinstance(a.value, ast.Call) and \
                isinstance(a.value.func, ast.Attribute) and a.value.func.attr == 'update' and \
                a.value.args:
            tgt = norm_text(a.value.func.value)
            src = self.layers(a.value.args[0], state)
            if tgt in state:
                out = dict(state)
                if src is None:
                    out[tgt] = frozenset(t + ('?',) for t in state[tgt])
                else:
                    out[tgt] = _widen(frozenset(_overlay(t, s) for t in state[tgt] for s in src))
        return out

    def _solve(self):
        cfg = self.cfg
        excl = set()
        if self.assume is not None:
            from .idioms import infeasible_edges
            excl = infeasible_edges(cfg, self.assume)
        self.IN[cfg.entry.id] = {}
        work = [cfg.entry.id]
        rounds = 0
        while work and rounds < 20000:
            rounds += 1
            cur = work.pop()
            state = self.IN[cur]
            if cur in self.seeds:
                state = dict(state)
                state.update(self.seeds[cur])
            out = self._transfer(cfg.nodes[cur], state)
            for nxt, lab in cfg.succ[cur]:
                if (cur, lab) in excl:
                    continue
                flow = state if lab in ('exc', 'raise', 'reraise') else out
                old = self.IN[nxt]
                if old is None:
                    self.IN[nxt] = dict(flow)
                    work.append(nxt)
                    continue
                new = dict(old)
                changed = False
                for k, v in flow.items():
                    if k in old:
                        u = _widen(old[k] | v)
                        if u != old[k]:
                            new[k] = u
                            changed = True
                    # a name missing on one side is unknown there: keep what we know
                    else:
                        new[k] = v
                        changed = True
                if changed:
                    self.IN[nxt] = new
                    work.append(nxt)

    def at(self, node, expr_or_text):
        """layer tuples of an expression as evaluated on entering `node`"""
        state = self.IN[node.id]
        if state is None:
            return None
        if node.id in self.seeds:
            state = dict(state)
            state.update(self.seeds[node.id])
        if isinstance(expr_or_text, str):
            return set(state[expr_or_text]) if expr_or_text in state else None
        return self.layers(expr_or_text, state)
