"""Analysis context handed to every rule module."""
import ast

from .project import Project, AnalysisError, dotted, walk_local
from .cfg import cfg_of, POSIX_CONSTS
from .calls import Resolver, CallGraph, Summaries
from . import astq


class Ctx(object):
    def __init__(self, root=None):
        self.p = Project(root)
        self.consts = dict(POSIX_CONSTS)
        self.r = Resolver(self.p)
        self.cg = CallGraph(self.p, self.r, self.consts)
        self.sm = Summaries(self.p, self.r, self.consts)

    # anchors
    def fn(self, key):
        return self.p.fn(key)

    def cfg(self, finfo):
        return cfg_of(finfo, self.consts)

    def sites(self, finfo):
        return self.r.sites(finfo, self.consts)

    # node selection ------------------------------------------------------
    def live_nodes(self, finfo):
        c = self.cfg(finfo)
        live = c.reach(c.entry)
        return [n for n in c.nodes if n.id in live]

    def nodes(self, finfo, ev, must=False):
        """Live CFG nodes of finfo that perform event ev directly or through
        callees (must: via uniquely-resolved must-summaries; else may)."""
        out = []
        for n in self.live_nodes(finfo):
            if must:
                if self.sm.node_must(n, finfo, ev):
                    out.append(n)
            else:
                if self.sm.node_may(n, finfo, ev, precise_only=True):
                    out.append(n)
        return out

    def direct_nodes(self, finfo, ev):
        return [n for n in self.live_nodes(finfo) if ev(n, finfo)]

    def nodes_calling(self, finfo, target_keys, kinds=('call',)):
        """Live nodes with a call site resolved to one of target_keys."""
        tk = set(target_keys)
        out = []
        for s in self.sites(finfo):
            if s.kind in kinds and any(t.key in tk for t in s.targets):
                if s.node not in out:
                    out.append(s.node)
        return out

    def sites_calling(self, finfo, target_keys, kinds=('call',)):
        tk = set(target_keys)
        return [s for s in self.sites(finfo)
                if s.kind in kinds and any(t.key in tk for t in s.targets)]

    def callers_of(self, target_keys, kinds=('call', 'ref')):
        """[(caller FuncInfo, CallSite)] over the whole package."""
        tk = set(target_keys)
        out = []
        for f in self.p.all_functions():
            for s in self.sites(f):
                if s.kind in kinds and any(t.key in tk for t in s.targets):
                    out.append((f, s))
        return out

    def ev_calls(self, *target_keys):
        """Event: node has a call site resolved to one of the target functions."""
        tk = frozenset(target_keys)
        ctx = self

        def pred(node, finfo):
            for s in ctx.sites(finfo):
                if s.node is node and s.kind == 'call' and \
                        any(t.key in tk for t in s.targets):
                    return True
            return False
        return astq.ev_pred(('calls', tk), pred)

    def path_text(self, finfo, path):
        return ['%s:%s %s' % (finfo.module.relpath, n.lineno, n.text()[:110])
                for n in path if n.lineno]
