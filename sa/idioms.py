"""Repository idioms shared by several rules."""
import ast

from .project import dotted, walk_local
from . import astq

EXC_LABELS = ('exc', 'raise', 'reraise')


# -- status tests -------------------------------------------------------------
STATUS_METHODS = {'is_stopped': 'stopped', 'is_stopping': 'stopping',
                  'is_active': 'active'}


def status_test(expr, status):
    """If expr tests `watcher status == status`, return the truth value of
    expr when the status equals `status` (True/False); else None.
    Recognises x.is_stopped(), x._status == 'stopped', x.status() == ..,
    and `not` of those."""
    if isinstance(expr, ast.UnaryOp) and isinstance(expr.op, ast.Not):
        r = status_test(expr.operand, status)
        return None if r is None else (not r)
    if isinstance(expr, ast.Call) and isinstance(expr.func, ast.Attribute):
        if STATUS_METHODS.get(expr.func.attr) == status and not expr.args:
            return True
    if isinstance(expr, ast.Compare) and len(expr.ops) == 1:
        a, b = expr.left, expr.comparators[0]
        for x, y in ((a, b), (b, a)):
            is_status = (isinstance(x, ast.Attribute) and x.attr == '_status') or \
                (isinstance(x, ast.Call) and isinstance(x.func, ast.Attribute)
                 and x.func.attr == 'status')
            if is_status and astq.const_value(y) == status:
                if isinstance(expr.ops[0], ast.Eq):
                    return True
                if isinstance(expr.ops[0], ast.NotEq):
                    return False
    return None


def conj_atoms(expr, positive=True):
    """Atoms that must hold (with polarity) for `expr` to be `positive`:
    for `a and b` true -> both; for `a or b` false -> both (negated)."""
    if isinstance(expr, ast.UnaryOp) and isinstance(expr.op, ast.Not):
        return conj_atoms(expr.operand, not positive)
    if isinstance(expr, ast.BoolOp):
        if (isinstance(expr.op, ast.And) and positive) or \
                (isinstance(expr.op, ast.Or) and not positive):
            out = []
            for v in expr.values:
                out.extend(conj_atoms(v, positive))
            return out
        return []
    return [(expr, positive)]


def edges_requiring(cfg, atom_pred, want):
    """Edges (test_id, label) that can only be taken when atom_pred's
    condition has value `want`... returned as the complementary set: edges
    that may be taken when the condition is NOT `want` are everything else.

    atom_pred(expr) -> True/False (truth of expr when the condition holds) or
    None if expr is unrelated.  Returns set of (node_id, label) edges whose
    traversal implies condition == want."""
    out = set()
    for t in cfg.nodes:
        if t.kind != 'test':
            continue
        for label, positive in (('true', True), ('false', False)):
            for atom, pol in conj_atoms(t.ast, positive):
                r = atom_pred(atom)
                if r is None:
                    continue
                # taking `label` implies atom has truth `pol`;
                # atom truth == r  <=> condition holds
                cond = (pol == r)
                if cond == want:
                    out.add((t.id, label))
    return out


def guarded(cfg, node, atom_pred, want):
    """Every path entry -> node takes an edge that implies cond == want."""
    edges = edges_requiring(cfg, atom_pred, want)
    if not edges:
        return False
    r = cfg.reach(cfg.entry, edges_excluded=edges)
    return node.id not in r


# -- futures ------------------------------------------------------------------
def is_discarded(node, call):
    """The call is an expression statement of its own: its value is dropped."""
    return node.kind == 'stmt' and isinstance(node.ast, ast.Expr) and \
        node.ast.value is call


def call_consumed(finfo, node, call):
    """The value of `call` is yielded/awaited/returned, passed as an argument,
    or stored in a name that is later yielded/returned/passed."""
    if is_discarded(node, call):
        return False
    if astq.call_is_yielded(node, call):
        return True
    st = node.ast
    if isinstance(st, ast.Return):
        return True
    # argument of another call (set_upstream_future(f()), add_future(f(), cb))
    for n in node.walk():
        if isinstance(n, ast.Call) and n is not call:
            for a in list(n.args) + [k.value for k in n.keywords]:
                for sub in ast.walk(a):
                    if sub is call:
                        return True
    if isinstance(st, ast.Assign) and len(st.targets) == 1 and \
            isinstance(st.targets[0], ast.Name):
        name = st.targets[0].id
        for n in walk_local(finfo.node):
            if isinstance(n, (ast.Yield, ast.Await, ast.Return)) and n.value is not None:
                if name in astq.names_in(n.value):
                    return True
            if isinstance(n, ast.Call):
                for a in list(n.args) + [k.value for k in n.keywords]:
                    if name in astq.names_in(a):
                        return True
        return False
    if isinstance(st, ast.Raise):
        return True   # raise gen.Return(f())
    return False


# -- reachability under an assumption on guard atoms -----------------------
_NEVER_NONE_CALLS = ('dict', 'list', 'set', 'tuple', 'str', 'int', 'float', 'bool', 'sorted',
                     'len', 'range', 'frozenset', 'bytes')
_NEVER_NONE_METHODS = ('items', 'keys', 'values', 'copy', 'split', 'rsplit', 'strip', 'lower',
                       'upper', 'sections', 'format', 'join', 'encode', 'decode', 'splitlines')


def _never_none(v):
    if isinstance(v, ast.Constant):
        return v.value is not None
    if isinstance(v, (ast.Dict, ast.List, ast.Set, ast.Tuple, ast.ListComp, ast.DictComp,
                      ast.SetComp, ast.JoinedStr, ast.Lambda)):
        return True
    if isinstance(v, ast.Call):
        if isinstance(v.func, ast.Name) and v.func.id in _NEVER_NONE_CALLS:
            return True
        if isinstance(v.func, ast.Attribute) and v.func.attr in _NEVER_NONE_METHODS:
            return True
    return False


def _none_test_of_value(cfg, tnode, e):
    """`x is None` / `x is not None` for a local all of whose definitions reaching the
    test are plain assignments of values that are never None (a display, dict(..),
    something.items() ...): the test is decided."""
    if not (isinstance(e, ast.Compare) and len(e.ops) == 1 and
            isinstance(e.ops[0], (ast.Is, ast.IsNot)) and isinstance(e.left, ast.Name) and
            isinstance(e.comparators[0], ast.Constant) and e.comparators[0].value is None):
        return None
    if getattr(cfg, 'func', None) is None:
        return None
    rd = getattr(cfg, '_rd_cache', None)
    if rd is None:
        from .dataflow import ReachingDefs
        try:
            rd = ReachingDefs(cfg, cfg.func)
        except Exception:
            return None
        cfg._rd_cache = rd
    defs = rd.reaching(tnode, e.left.id)
    if defs and all(d.kind == 'assign' and d.value is not None and _never_none(d.value)
                    for d in defs):
        return isinstance(e.ops[0], ast.IsNot)
    return None


def infeasible_edges(cfg, assume):
    """assume(atom_expr) -> True / False / None (unknown).  For every test
    node, the outcomes (true/false edge) that cannot occur when the assumed
    atoms have their assumed values (all other atoms free).  Returns the set
    of (node_id, label) edges to exclude."""
    import itertools
    out = set()
    for t in cfg.nodes:
        if t.kind != 'test':
            continue
        fixed = {}

        def atomize(e, fixed=fixed):
            v = assume(e)
            if v is None and isinstance(e, ast.Name) and getattr(cfg, 'func', None) is not None:
                # a flag that is a single-assignment local stands for its value
                e2 = astq.resolve_local(cfg.func, e)
                if e2 is not e:
                    import copy
                    from .normalize import bool_ctx
                    e2 = bool_ctx(copy.deepcopy(e2))
                    v = assume(e2)
            if v is None:
                v = _none_test_of_value(cfg, t, e)
            if v is None:
                from .cfg import static_truth, POSIX_CONSTS
                if not isinstance(e, ast.Constant):
                    v = static_truth(e, cfg.consts or POSIX_CONSTS)
            if v is None:
                return None
            name = '#' + astq.norm_text(e)
            fixed[name] = v
            return (name, False)
        bf = astq.BoolFn(t.ast, atomize=atomize)
        free = [a for a in bf.atoms if a not in fixed]
        if len(free) > 10:
            continue
        outcomes = set()
        for vals in itertools.product([False, True], repeat=len(free)):
            env = dict(fixed)
            env.update(zip(free, vals))
            outcomes.add(bf.eval(env))
            if len(outcomes) == 2:
                break
        if True not in outcomes:
            out.add((t.id, 'true'))
        if False not in outcomes:
            out.add((t.id, 'false'))
    return out


def reach_under(cfg, src, assume, avoid=(), labels_excluded=()):
    return cfg.reach(src, avoid=avoid, labels_excluded=labels_excluded,
                     edges_excluded=infeasible_edges(cfg, assume))


def path_under(cfg, src, dst, assume, avoid=(), labels_excluded=()):
    return cfg.path(src, dst, avoid=avoid, labels_excluded=labels_excluded,
                    edges_excluded=infeasible_edges(cfg, assume))


def ordering_assumption(left_pred, right_pred, ordering):
    """assume-function: comparisons of L vs R evaluate per `ordering`."""
    def assume(e):
        o = astq.compare_orderings(e, left_pred, right_pred)
        if o is None:
            return None
        return ordering in o
    return assume


def combine(*assumes):
    def assume(e):
        for a in assumes:
            v = a(e)
            if v is not None:
                return v
        return None
    return assume


def attr_truth(attr, value):
    """assume-function: `<anything>.attr` (or bare name attr) has truth `value`."""
    def assume(e):
        if isinstance(e, ast.Attribute) and e.attr == attr:
            return value
        if isinstance(e, ast.Name) and e.id == attr:
            return value
        # the truth of a container is the truth of its length
        if isinstance(e, ast.Call) and isinstance(e.func, ast.Name) and e.func.id == 'len' and \
                len(e.args) == 1 and not e.keywords:
            return assume(e.args[0])
        if isinstance(e, ast.Compare) and len(e.ops) == 1 and isinstance(e.left, ast.Call) and \
                isinstance(e.left.func, ast.Name) and e.left.func.id == 'len' and \
                len(e.left.args) == 1:
            inner = assume(e.left.args[0])
            k = astq.const_value(e.comparators[0], None)
            op = type(e.ops[0])
            if inner is not None:
                if (op, k) in ((ast.NotEq, 0), (ast.Gt, 0), (ast.GtE, 1)):
                    return inner
                if (op, k) in ((ast.Eq, 0), (ast.LtE, 0), (ast.Lt, 1)):
                    return not inner
        return None
    return assume


def status_assumption(status, value=True):
    def assume(e):
        r = status_test(e, status)
        if r is None:
            return None
        return r if value else (not r)
    return assume


# -- results of a function along paths ---------------------------------------------
def value_returns(cfg):
    """Return nodes that give back something other than None."""
    return [n for n in cfg.nodes if n.kind == 'stmt' and isinstance(n.ast, ast.Return) and
            n.ast.value is not None and
            not (isinstance(n.ast.value, ast.Constant) and n.ast.value.value is None)]


def nodes_within(cfg, stmts):
    """CFG nodes whose syntax lies inside the given statements."""
    inside = set()
    for s in stmts:
        for x in ast.walk(s):
            inside.add(id(x))
    return [n for n in cfg.nodes if n.ast is not None and id(n.ast) in inside]


def entry_of(cfg, stmts):
    """first CFG node of a statement list (smallest id among its nodes)"""
    ns = nodes_within(cfg, stmts)
    return min(ns, key=lambda n: n.id) if ns else None


def may_end_with_none(cfg, starts, edges_excluded=()):
    """Some normal path from `starts` leaves the function without returning a
    value (falls off the end or plain `return`): the caller sees None."""
    starts = [s for s in starts if s is not None]
    if not starts:
        return False
    r = cfg.reach(starts, avoid=value_returns(cfg), labels_excluded=EXC_LABELS,
                  include_src=True, edges_excluded=edges_excluded)
    return cfg.exit.id in r


def must_end_with_none(cfg, starts, edges_excluded=()):
    """Every normal path from `starts` that leaves the function gives None (and
    at least one does)."""
    starts = [s for s in starts if s is not None]
    if not starts:
        return False
    r = cfg.reach(starts, labels_excluded=EXC_LABELS, include_src=True,
                  edges_excluded=edges_excluded)
    if any(v.id in r for v in value_returns(cfg)):
        return False
    return cfg.exit.id in r


def branch_starts(cfg, test, label):
    return [cfg.nodes[i] for i, lab in cfg.succ[test.id] if lab == label]


def eq_test(e, x, y):
    """Truth value of `e` when `x == y` holds (x, y given as source text), for
    e of the form x == y / y == x / x != y / y != x; None for anything else."""
    if isinstance(e, ast.Compare) and len(e.ops) == 1 and \
            isinstance(e.ops[0], (ast.Eq, ast.NotEq, ast.Is, ast.IsNot)):
        a, b = astq.norm_text(e.left), astq.norm_text(e.comparators[0])
        if (a, b) in ((x, y), (y, x)):
            return isinstance(e.ops[0], (ast.Eq, ast.Is))
    return None


def member_test(e, x, y=None):
    """Truth value of `e` when `x in y` holds, for e = `x in y` / `x not in y`
    (y = None: any container); None for anything else."""
    if isinstance(e, ast.Compare) and len(e.ops) == 1 and \
            isinstance(e.ops[0], (ast.In, ast.NotIn)):
        if astq.norm_text(e.left) == x and \
                (y is None or astq.norm_text(e.comparators[0]) == y):
            return isinstance(e.ops[0], ast.In)
    return None


def none_test(e, x):
    """Truth value of `e` when `x is None` holds, for e = `x is None` /
    `x is not None` / `x == None` / `x != None`; None for anything else."""
    if isinstance(e, ast.Compare) and len(e.ops) == 1 and \
            isinstance(e.ops[0], (ast.Is, ast.IsNot, ast.Eq, ast.NotEq)):
        a, b = e.left, e.comparators[0]
        for p, q in ((a, b), (b, a)):
            if astq.norm_text(p) == x and isinstance(q, ast.Constant) and q.value is None:
                return isinstance(e.ops[0], (ast.Is, ast.Eq))
    return None


def positive_test(e, x=None):
    """Truth value of `e` when `x > 0` holds, for comparisons of x with 0/1
    (x > 0, x >= 1, x <= 0, x < 1, x != 0 ...); x = None: any plain name."""
    if isinstance(e, ast.Compare) and len(e.ops) == 1:
        if (x is None and isinstance(e.left, ast.Name)) or \
                (x is not None and astq.norm_text(e.left) == x):
            k = astq.const_value(e.comparators[0], None)
            op = type(e.ops[0])
            if (op, k) in ((ast.Gt, 0), (ast.GtE, 1)):
                return True
            if (op, k) in ((ast.LtE, 0), (ast.Lt, 1)):
                return False
    return None
